//go:build verif && linux

package netstate

import (
	"sync"
	"time"

	"github.com/jsimonetti/rtnetlink"
	"github.com/mdlayher/netlink"
)

// A verifWatchConn is what osWatch needs from the value rtnetlink.Dial returns.
type verifWatchConn interface {
	Close() error
	SetReadDeadline(t time.Time) error
	Receive() ([]rtnetlink.Message, []netlink.Message, error)
}

var (
	verifWatchMu   sync.RWMutex
	verifWatchHook func(*netlink.Config) (verifWatchConn, error)
)

// verifWatchDial stands in for rtnetlink.Dial inside the staged copy of osWatch.
func verifWatchDial(c *netlink.Config) (verifWatchConn, error) {
	verifWatchMu.RLock()
	f := verifWatchHook
	verifWatchMu.RUnlock()
	if f == nil {
		conn, err := rtnetlink.Dial(c)
		if err != nil {
			return nil, err
		}
		return conn, nil
	}
	return f(c)
}

func verifSetWatchDial(f func(*netlink.Config) (verifWatchConn, error)) {
	verifWatchMu.Lock()
	verifWatchHook = f
	verifWatchMu.Unlock()
}
