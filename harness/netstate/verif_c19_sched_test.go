//go:build verif

package netstate

import (
	"context"
	"encoding/json"
	"fmt"
	"os"
	"strconv"
	"strings"
	"sync"
	"testing"
	"time"

	"github.com/mdlayher/corerad/verifrt/ev"
	"github.com/mdlayher/corerad/verifrt/vsched"
)

// C19 part 2 (SCHED): interleavings of Subscribe / notify / end-of-watch on the
// instrumented real Watcher.
//
// Threads: W = Watch whose injected watch issues the scripted notifications and
// then waits for cancellation; A = early subscriber, drains; B = late
// subscriber, drains; X = canceller. All harness-side channel operations go
// through vsched so that they are scheduling points too.

func recvOrStop[T any](label string, ch <-chan T, stop <-chan struct{}) (v T, ok bool, stopped bool) {
	s := vsched.Select(label, false, vsched.RecvCase(ch), vsched.RecvCase(stop))
	select {
	case v, ok = <-vsched.MR(s, 0, ch):
		vsched.Woke(s, label)
		return v, ok, false
	case <-vsched.MR(s, 1, stop):
		vsched.Woke(s, label)
		return v, false, true
	}
}

type c19Sched struct {
	Name  string   `json:"name"`
	Notes []Change `json:"notifications"`
	MaskA Change   `json:"mask_a"`
	MaskB Change   `json:"mask_b"`
	Fail  bool     `json:"watch_fails"`
}

var c19Scheds = []c19Sched{
	{Name: "two-notes", Notes: []Change{LinkDown, LinkUp}, MaskA: LinkDown | LinkUp, MaskB: LinkDown | LinkUp},
	{Name: "same-mask-fail", Notes: []Change{LinkDown}, MaskA: LinkDown, MaskB: LinkDown, Fail: true},
	// Both subscribers use ONE mask value in every scheduler scenario: the watcher
	// keeps subscribers in Go maps keyed by interface and mask, and Go randomises
	// map iteration order, which the explorer does not control; with a single key
	// per map every execution is reproducible. Distinct masks are covered
	// exhaustively by the sequential part (TestVerifC19).
	{Name: "one-note-up", Notes: []Change{LinkUp}, MaskA: LinkAny, MaskB: LinkAny},
}

// c19Bodies returns the thread bodies; rec records observations (through vsched.Obs
// under an execution, into a mutex-protected slice in the free-running race pass).
func c19Bodies(sc c19Sched, rec func(kind, detail string)) (threads map[string]func(), w *Watcher) {
	w = NewWatcher()
	ctx, cancel := context.WithCancel(context.Background())
	stop := make(chan struct{})
	w.watch = func(ctx context.Context, notify func(changeSet)) error {
		for i, n := range sc.Notes {
			rec("notify-begin", strconv.Itoa(i))
			notify(changeSet{"eth0": {n}})
			rec("notify-end", strconv.Itoa(i))
		}
		vsched.Recv("harness:watch-wait-cancel", ctx.Done())
		if sc.Fail {
			return fmt.Errorf("verif: injected watch failure")
		}
		return nil
	}
	sub := func(name string, mask Change) func() {
		return func() {
			ch := w.Subscribe("eth0", mask)
			rec("subscribed", name)
			for {
				v, ok, stopped := recvOrStop("harness:drain-"+name, ch, stop)
				if stopped {
					// Watching has ended: whatever is left in the channel (and whether it
					// was closed) is read without blocking.
					for {
						select {
						case v, ok := <-ch:
							if !ok {
								rec("closed", name)
								return
							}
							rec("got", name+" "+strconv.Itoa(int(v)))
							continue
						default:
						}
						rec("stopped", name)
						return
					}
				}
				if !ok {
					rec("closed", name)
					return
				}
				rec("got", name+" "+strconv.Itoa(int(v)))
			}
		}
	}
	threads = map[string]func(){
		"1-watch": func() {
			err := w.Watch(ctx)
			rec("watch-returned", fmt.Sprint(err))
			// Subscribers that registered after the closing phase are released by the harness.
			vsched.Close("harness:stop", stop)
		},
		"2-subA":   sub("A", sc.MaskA),
		"3-subB":   sub("B", sc.MaskB),
		"4-cancel": func() { rec("cancel", ""); vsched.Pre("harness:cancel", cancel)() },
	}
	return threads, w
}

func c19SchedCheck(sc c19Sched, log []vsched.Event, failure, failKind string) (out [][2]string) {
	bad := func(sig, format string, a ...any) {
		out = append(out, [2]string{sig, fmt.Sprintf(format, a...)})
	}
	if failure != "" {
		sig := "C19:sched:" + failKind
		if failKind == "panic" {
			switch {
			case strings.Contains(failure, "close of closed channel"):
				sig = "C19:sched:double-close"
			case strings.Contains(failure, "send on closed channel"):
				sig = "C19:sched:send-on-closed"
			}
		}
		bad(sig, "%s", failure)
		return out
	}
	idx := func(kind, detail string) int {
		for i, e := range log {
			if e.Kind == kind && e.Detail == detail {
				return i
			}
		}
		return -1
	}
	watchRet := idx("watch-returned", "<nil>")
	if sc.Fail {
		for i, e := range log {
			if e.Kind == "watch-returned" {
				watchRet = i
			}
		}
	}
	if watchRet < 0 {
		bad("C19:sched:watch-never-returned", "Watch did not return")
		return out
	}
	for name, mask := range map[string]Change{"A": sc.MaskA, "B": sc.MaskB} {
		subAt := idx("subscribed", name)
		if subAt < 0 {
			bad("C19:sched:subscribe-never-returned", "Subscribe(%s) did not return", name)
			continue
		}
		var got []int
		closedAt, closes := -1, 0
		for i, e := range log {
			if e.Kind == "got" && strings.HasPrefix(e.Detail, name+" ") {
				v, _ := strconv.Atoi(strings.TrimPrefix(e.Detail, name+" "))
				got = append(got, v)
				if closedAt >= 0 {
					bad("C19:sched:delivery-after-close", "subscriber %s received %d after its channel was closed", name, v)
				}
			}
			if e.Kind == "closed" && e.Detail == name {
				closedAt = i
				closes++
			}
		}
		// Must be closed if subscribed before the cancellation began (then certainly
		// before the closing phase).
		if subAt < idx("cancel", "") && closedAt < 0 {
			bad("C19:sched:not-closed", "subscriber %s subscribed before cancellation but its channel was never closed", name)
		}
		// Expected deliveries: matching notifications that began after Subscribe returned
		// are mandatory; those that ended before it are impossible; in between optional.
		gi := 0
		for k, n := range sc.Notes {
			if n&mask == 0 {
				continue
			}
			begin, end := idx("notify-begin", strconv.Itoa(k)), idx("notify-end", strconv.Itoa(k))
			has := gi < len(got) && got[gi] == int(n)
			switch {
			case begin > subAt && begin >= 0:
				if !has {
					bad("C19:sched:lost-notification", "subscriber %s (subscribed at log %d) did not receive notification %d (%v) begun at log %d; got %v", name, subAt, k, n, begin, got)
				} else {
					gi++
				}
			case end >= 0 && end < subAt:
				if has && !c19LaterMatch(sc, k, n, mask) {
					bad("C19:sched:phantom-notification", "subscriber %s received notification %d (%v) that completed before it subscribed", name, k, n)
				}
			default:
				if has {
					gi++
				}
			}
		}
		if gi != len(got) {
			bad("C19:sched:unexpected-delivery", "subscriber %s (mask %v) received %v for notifications %v", name, mask, got, sc.Notes)
		}
	}
	return out
}

// c19LaterMatch: whether a later notification carries the same change (then a
// match at this position may belong to that one).
func c19LaterMatch(sc c19Sched, k int, n, mask Change) bool {
	for j := k + 1; j < len(sc.Notes); j++ {
		if sc.Notes[j] == n {
			return true
		}
	}
	return false
}

func c19Scenario(sc c19Sched) *vsched.Scenario {
	return &vsched.Scenario{
		Name:    sc.Name,
		Horizon: time.Minute,
		Setup: func(x *vsched.Exec) {
			threads, _ := c19Bodies(sc, func(kind, detail string) { vsched.Obs(kind, "%s", detail) })
			for _, name := range []string{"1-watch", "2-subA", "3-subB", "4-cancel"} {
				x.Spawn(name, threads[name])
			}
		},
		Check: func(x *vsched.Exec) [][2]string {
			return c19SchedCheck(sc, x.Log, x.Failure, x.FailKind)
		},
	}
}

type c19Replay struct {
	Scenario int   `json:"scenario"`
	Choices  []int `json:"choices"`
}

func TestVerifC19Sched(t *testing.T) {
	r := ev.Begin("C19", "sched")
	defer r.End(t)
	r.Rule = "executions = all interleavings, within the deviation bound, of {Watch with 1-2 scripted notifications then wait for cancel, subscriber A (Subscribe then drain), subscriber B (same), canceller} on the instrumented real Watcher, for 3 scenarios (two notifications, one notification, failing watch; one mask value per scenario because Go map iteration order is not controlled); scheduling points = every mutex, atomic, channel and select operation of watcher.go plus the harness's own channel operations; oracle on the observation log: no panic (double close / send on closed), no hang, channels of subscribers registered before cancellation are closed, every matching notification begun after Subscribe returned is delivered, in order, nothing delivered after close; states = distinct choice prefixes executed; distinct outcomes = distinct observation logs"
	r.Assumptions = []string{"un-instrumented operations between two scheduling points of a goroutine are atomic"}
	if r.Replay != nil {
		var c c19Replay
		if err := json.Unmarshal(r.Replay, &c); err != nil {
			t.Fatalf("bad replay: %v", err)
		}
		sc := c19Scheds[c.Scenario]
		x := vsched.RunOnce(t, c19Scenario(sc), c.Choices)
		r.Case(fmt.Sprint(c), true)
		r.Sample(map[string]any{"scenario": sc, "choices": c.Choices, "log": x.LogString()})
		fmt.Printf("replay of %s choices %v:\n%s", sc.Name, c.Choices, x.LogString())
		for _, v := range c19SchedCheck(sc, x.Log, x.Failure, x.FailKind) {
			r.Violation(v[0], v[1], c)
		}
		return
	}
	bound := 2
	if r.Thorough() {
		bound = 4
	}
	if s := os.Getenv("VERIF_BOUND"); s != "" {
		bound, _ = strconv.Atoi(s)
	}
	for si, sc := range c19Scheds {
		scn := c19Scenario(sc)
		// Determinism: the default schedule twice gives identical observations.
		a, b := vsched.RunOnce(t, scn, nil), vsched.RunOnce(t, scn, nil)
		if a.Outcome() != b.Outcome() || fmt.Sprint(a.Choices()) != fmt.Sprint(b.Choices()) {
			r.Violation("MACHINERY:nondeterminism", fmt.Sprintf("scenario %s: default schedule not reproducible:\n%s\nvs\n%s", sc.Name, a.LogString(), b.LogString()), nil)
			continue
		}
		st := vsched.Explore(t, scn, vsched.Options{
			Bound: bound, Shard: r.Shard, Shards: r.Shards,
			OnExec: func(x *vsched.Exec, viol [][2]string) {
				r.Case(fmt.Sprint(si, x.Choices()), true)
				if x.Deviations() <= 1 {
					r.Sample(map[string]any{"scenario": sc.Name, "choices": x.Choices(), "log": strings.Split(strings.TrimSpace(x.LogString()), "\n")})
				}
				for _, v := range viol {
					r.Violation(v[0], v[1]+"\nchoices "+fmt.Sprint(x.Choices())+"\n"+x.LogString(), c19Replay{Scenario: si, Choices: x.Choices()})
				}
			},
		})
		r.Count("states", st.States)
		r.Count("transitions", st.Transitions)
		r.Count("traces_validated_against_impl", st.Executions)
		r.Max("max_depth", int64(st.MaxDepth))
		r.Count("leaked_goroutines", st.Leaked)
		for o, n := range st.Outcomes {
			_ = o
			_ = n
		}
		r.Count("distinct_outcomes_"+sc.Name, int64(len(st.Outcomes)))
		if st.Capped != "" {
			r.Capped(sc.Name + ": " + st.Capped)
		} else if bound < 1<<20 {
			r.Max("max_bound_completed", int64(bound))
		} else {
			r.Note("%s: unbounded exploration completed (%d executions)", sc.Name, st.Executions)
		}
	}
}

// TestVerifC19Race: the same thread bodies free-running (no explorer) for the
// race detector, which is blind under the cooperative scheduler.
func TestVerifC19Race(t *testing.T) {
	r := ev.Begin("C19", "race")
	defer r.End(t)
	r.Rule = "free-running -race pass: the C19 scheduler scenarios' thread bodies run as plain goroutines 300 times each; the race detector's reports gate the verdict (the property says subscribing concurrently with notification is safe); non-trivial = every run"
	n := 300
	for _, sc := range c19Scheds {
		for i := 0; i < n; i++ {
			var mu sync.Mutex
			var log []string
			threads, _ := c19Bodies(sc, func(kind, detail string) { mu.Lock(); log = append(log, kind+" "+detail); mu.Unlock() })
			var wg sync.WaitGroup
			for _, name := range []string{"1-watch", "2-subA", "3-subB", "4-cancel"} {
				wg.Add(1)
				f := threads[name]
				go func() { defer wg.Done(); f() }()
			}
			wg.Wait()
			r.Case(fmt.Sprint(sc.Name, i), true)
			if i == 0 {
				r.Sample(map[string]any{"scenario": sc.Name, "log": log})
			}
		}
	}
}
