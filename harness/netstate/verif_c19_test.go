//go:build verif

package netstate

import (
	"context"
	"encoding/json"
	"errors"
	"fmt"
	"strings"
	"testing"
	"testing/synctest"

	"github.com/jsimonetti/rtnetlink"
	"github.com/mdlayher/corerad/verifrt/enum"
	"github.com/mdlayher/corerad/verifrt/ev"
)

// C19 part 1 (ENUM): delivery iff mask intersects change and names match, in
// order; notification never blocks and keeps the first 8 undrained events;
// every subscriber channel is closed when watching ends (also when the watch
// ends with an error); rtnetlink operstate mapping.

var c19Changes = []Change{LinkUp, LinkDown, LinkTesting, LinkUnknown, LinkDormant, LinkNotPresent, LinkLowerLayerDown}

func drain(ch <-chan Change) (got []Change, closed bool) {
	for {
		select {
		case c, ok := <-ch:
			if !ok {
				return got, true
			}
			got = append(got, c)
		default:
			return got, false
		}
	}
}

type c19Case struct {
	Kind  string `json:"kind"`
	Masks []uint `json:"masks,omitempty"`
	Seq   []uint `json:"changes,omitempty"`
	Iface string `json:"event_interface,omitempty"`
	N     int    `json:"undrained,omitempty"`
	Err   bool   `json:"watch_fails,omitempty"`
}

// notifyNB calls w.notify and reports whether it returned without blocking
// (decided by quiescence of a synctest bubble, not by a wall-clock timeout).
func notifyNB(t *testing.T, w *Watcher, cs changeSet) (returned bool) {
	done := make(chan struct{})
	go func() { defer close(done); w.notify(cs) }()
	synctest.Wait()
	select {
	case <-done:
		return true
	default:
		return false
	}
}

func c19Check(t *testing.T, c c19Case) (out [][2]string) {
	bad := func(sig, format string, a ...any) {
		out = append(out, [2]string{sig, ev.JSON(c) + ": " + fmt.Sprintf(format, a...)})
	}
	defer func() {
		// A goroutine left blocked in notify makes synctest.Test panic
		// ("blocked goroutines remain"); the blocking itself was already recorded.
		if r := recover(); r != nil && len(out) == 0 {
			bad("C19:panic", "%v", r)
		}
	}()
	synctest.Test(t, func(t *testing.T) {
		w := NewWatcher()
		switch c.Kind {
		case "deliver":
			// Subscribers with the given masks on eth0 (all undrained until the end); the
			// change sequence occurs on c.Iface.
			var chs []<-chan Change
			for _, m := range c.Masks {
				chs = append(chs, w.Subscribe("eth0", Change(m)))
			}
			other := w.Subscribe("eth9", LinkAny)
			for _, ch := range c.Seq {
				if !notifyNB(t, w, changeSet{c.Iface: {Change(ch)}}) {
					bad("C19:notify-blocked", "notify blocked")
					return
				}
			}
			for i, ch := range chs {
				var want []Change
				if c.Iface == "eth0" {
					for _, x := range c.Seq {
						if Change(x)&Change(c.Masks[i]) != 0 && len(want) < 8 {
							want = append(want, Change(x))
						}
					}
				}
				got, closed := drain(ch)
				if closed {
					bad("C19:closed-early", "subscriber %d channel closed while watching", i)
				}
				if fmt.Sprint(got) != fmt.Sprint(want) {
					sig := "C19:delivery"
					switch {
					case len(got) > len(want):
						sig = "C19:delivery:unwanted"
					case len(got) < len(want):
						sig = "C19:delivery:missing"
					default:
						sig = "C19:delivery:order"
					}
					bad(sig, "subscriber %d (mask %v) got %v want %v", i, Change(c.Masks[i]), got, want)
				}
			}
			if got, _ := drain(other); (c.Iface == "eth9") != (len(got) > 0) && len(c.Seq) > 0 {
				bad("C19:delivery:wrong-interface", "eth9 subscriber got %v for events on %s", got, c.Iface)
			}
		case "overflow":
			slow := w.Subscribe("eth0", LinkAny)
			fast := w.Subscribe("eth0", LinkAny) // same interface and mask, drained every time
			var fastGot []Change
			var seq []Change
			for i := 0; i < c.N; i++ {
				ch := c19Changes[i%len(c19Changes)]
				seq = append(seq, ch)
				if !notifyNB(t, w, changeSet{"eth0": {ch}}) {
					bad("C19:notify-blocked", "notify %d blocked on an undrained subscriber", i)
					return
				}
				g, _ := drain(fast)
				fastGot = append(fastGot, g...)
			}
			want := seq
			if len(want) > 8 {
				want = want[:8]
			}
			if got, _ := drain(slow); fmt.Sprint(got) != fmt.Sprint(want) {
				bad("C19:overflow", "undrained subscriber holds %v, want the first 8 in order %v", got, want)
			}
			if fmt.Sprint(fastGot) != fmt.Sprint(seq) {
				bad("C19:delivery:starved-by-slow-peer", "drained subscriber got %v, want %v", fastGot, seq)
			}
		case "multi":
			// Several changes and interfaces in one change set.
			a := w.Subscribe("eth0", LinkDown|LinkUp)
			b := w.Subscribe("eth1", LinkDown)
			cs := changeSet{"eth0": {LinkDown, LinkTesting, LinkUp}, "eth1": {LinkUp, LinkDown}, "eth2": {LinkDown}}
			if !notifyNB(t, w, cs) {
				bad("C19:notify-blocked", "notify blocked")
				return
			}
			if got, _ := drain(a); fmt.Sprint(got) != fmt.Sprint([]Change{LinkDown, LinkUp}) {
				bad("C19:delivery:multi", "eth0 subscriber got %v", got)
			}
			if got, _ := drain(b); fmt.Sprint(got) != fmt.Sprint([]Change{LinkDown}) {
				bad("C19:delivery:multi", "eth1 subscriber got %v", got)
			}
		case "close":
			chs := []<-chan Change{w.Subscribe("eth0", LinkDown), w.Subscribe("eth0", LinkDown), w.Subscribe("eth1", LinkAny), w.Subscribe("eth0", LinkUp)}
			werr := errors.New("verif: injected watch failure")
			w.watch = func(ctx context.Context, notify func(changeSet)) error {
				for _, ch := range c.Seq {
					notify(changeSet{"eth0": {Change(ch)}})
				}
				if c.Err {
					return werr
				}
				return nil
			}
			var pv any
			var err error
			func() {
				defer func() { pv = recover() }()
				err = w.Watch(context.Background())
			}()
			if pv != nil {
				bad("C19:panic", "Watch panicked: %v", pv)
				return
			}
			if c.Err != (err != nil) {
				bad("C19:watch-result", "Watch returned %v", err)
			}
			for i, ch := range chs {
				if _, closed := drain(ch); !closed {
					bad("C19:not-closed", "subscriber %d channel still open after Watch returned (watch error: %t)", i, c.Err)
				}
			}
			// A Watcher is used once: a later Subscribe + Watch on the same value is refused
			// with the documented panic. Should a version allow it, the first generation's
			// channels (closed once already) must not be touched again, and the new
			// subscriber is served and closed like any other.
			late := w.Subscribe("eth0", LinkDown)
			func() {
				defer func() { pv = recover() }()
				err = w.Watch(context.Background())
			}()
			switch {
			case pv != nil && strings.Contains(fmt.Sprint(pv), "multiple calls to Watcher.Watch"):
			case pv != nil:
				bad("C19:second-watch-panic", "a second Watch on the same Watcher panicked: %v (channels are closed exactly once)", pv)
			default:
				var want []Change
				for _, ch := range c.Seq {
					if Change(ch)&LinkDown != 0 {
						want = append(want, Change(ch))
					}
				}
				got, closed := drain(late)
				if !closed || fmt.Sprint(got) != fmt.Sprint(want) {
					bad("C19:second-watch", "second Watch returned %v: late subscriber got %v (want %v), closed=%t", err, got, want, closed)
				}
			}
		}
	})
	return out
}

func TestVerifC19(t *testing.T) {
	r := ev.Begin("C19", "enum")
	defer r.End(t)
	r.Rule = "cases = all 127 masks x 7 changes x {same, other} interface; all change sequences of length<=3 over the 7 changes for 3 subscriber mask sets (incl. two subscribers sharing one mask); 0..12 undrained events with a slow and a drained subscriber on the same interface+mask; multi-change / multi-interface change sets; close-on-end for every sequence length<=2 x {watch returns nil, watch fails}, each followed by a Subscribe and a second Watch on the same Watcher (refused with the documented panic, or served correctly: never another panic); all 256 rtnetlink operstate values through operStateChange/process; all batches of <=4 (thorough 5) messages over 3 interfaces x 3 operstates + malformed messages through process and the real notify to 4 subscribers per interface (masks any, up, down, any); oracle: delivery iff mask&change!=0 and names equal, in order, first 8 kept, notify returns (synctest quiescence), channels closed exactly when Watch returns; non-trivial = every case; distinct = distinct case"
	if r.Replay != nil {
		var c c19Case
		if err := json.Unmarshal(r.Replay, &c); err != nil {
			t.Fatalf("bad replay: %v", err)
		}
		r.Case(ev.JSON(c), true)
		r.Sample(c)
		for _, v := range c19Check(t, c) {
			r.Violation(v[0], v[1], c)
		}
		return
	}
	one := func(c c19Case) {
		r.Case(ev.JSON(c), true)
		r.Sample(c)
		for _, v := range c19Check(t, c) {
			r.Violation(v[0], v[1], c)
		}
	}
	for m := uint(1); m <= uint(LinkAny); m++ {
		for _, ch := range c19Changes {
			for _, ifi := range []string{"eth0", "eth9"} {
				one(c19Case{Kind: "deliver", Masks: []uint{m}, Seq: []uint{uint(ch)}, Iface: ifi})
			}
		}
	}
	maskSets := [][]uint{{uint(LinkDown)}, {uint(LinkDown | LinkUp), uint(LinkAny)}, {uint(LinkDown), uint(LinkDown), uint(LinkTesting | LinkDormant)}}
	for _, ms := range maskSets {
		enum.Sequences(len(c19Changes), 3, func(seq []int) bool {
			var s []uint
			for _, i := range seq {
				s = append(s, uint(c19Changes[i]))
			}
			one(c19Case{Kind: "deliver", Masks: ms, Seq: s, Iface: "eth0"})
			return true
		})
	}
	for n := 0; n <= 12; n++ {
		one(c19Case{Kind: "overflow", N: n})
	}
	one(c19Case{Kind: "multi"})
	enum.Sequences(2, 2, func(seq []int) bool {
		var s []uint
		for _, i := range seq {
			s = append(s, uint([]Change{LinkDown, LinkUp}[i]))
		}
		for _, e := range []bool{false, true} {
			one(c19Case{Kind: "close", Seq: s, Err: e})
		}
		return true
	})

	// rtnetlink operational state -> Change (RFC 2863 ifOperStatus).
	want := map[rtnetlink.OperationalState]Change{
		rtnetlink.OperStateUnknown: LinkUnknown, rtnetlink.OperStateNotPresent: LinkNotPresent, rtnetlink.OperStateDown: LinkDown,
		rtnetlink.OperStateLowerLayerDown: LinkLowerLayerDown, rtnetlink.OperStateTesting: LinkTesting, rtnetlink.OperStateDormant: LinkDormant,
		rtnetlink.OperStateUp: LinkUp,
	}
	for v := 0; v < 256; v++ {
		s := rtnetlink.OperationalState(v)
		c, ok := operStateChange(s)
		w, wok := want[s]
		r.Case(fmt.Sprintf("operstate %d", v), true)
		if ok != wok || (ok && c != w) {
			r.Violation("C19:operstate", fmt.Sprintf("operStateChange(%d) = (%v,%t), want (%v,%t)", v, c, ok, w, wok), nil)
		}
		cs := process([]rtnetlink.Message{
			&rtnetlink.LinkMessage{Attributes: &rtnetlink.LinkAttributes{Name: "eth0", OperationalState: s}},
			&rtnetlink.LinkMessage{},
			&rtnetlink.LinkMessage{Attributes: &rtnetlink.LinkAttributes{Name: "eth1", OperationalState: rtnetlink.OperStateDown}},
			&rtnetlink.AddressMessage{},
		})
		wantCS := changeSet{"eth1": {LinkDown}}
		if wok {
			wantCS["eth0"] = []Change{w}
		}
		if fmt.Sprint(cs) != fmt.Sprint(wantCS) {
			r.Violation("C19:process", fmt.Sprintf("process with operstate %d = %v, want %v", v, cs, wantCS), nil)
		}
	}

	// Batches: one Receive() may carry messages of several interfaces in any order.
	// All batches of up to 4 (thorough 5) messages over {eth0, eth1, eth2} x {down, up,
	// lower-layer-down} + a link message without attributes + a non-link message +
	// an unknown operational state: process() must give, per interface, exactly that
	// interface's changes in batch order, and a subscriber of every interface fed
	// through the real notify must receive exactly those.
	type bm struct {
		ifi string
		st  rtnetlink.OperationalState
	}
	var alpha []bm
	for _, ifi := range []string{"eth0", "eth1", "eth2"} {
		for _, st := range []rtnetlink.OperationalState{rtnetlink.OperStateDown, rtnetlink.OperStateUp, rtnetlink.OperStateLowerLayerDown} {
			alpha = append(alpha, bm{ifi, st})
		}
	}
	alpha = append(alpha, bm{"", 0}, bm{"addr", 0}, bm{"eth0", rtnetlink.OperationalState(99)})
	maxBatch := 4
	if r.Thorough() {
		maxBatch = 5
	}
	nb := 0
	enum.Sequences(len(alpha), maxBatch, func(seq []int) bool {
		nb++
		if !r.Mine(nb) {
			return true
		}
		var msgs []rtnetlink.Message
		wantCS := map[string][]Change{}
		for _, i := range seq {
			a := alpha[i]
			switch {
			case a.ifi == "":
				msgs = append(msgs, &rtnetlink.LinkMessage{})
			case a.ifi == "addr":
				msgs = append(msgs, &rtnetlink.AddressMessage{})
			default:
				msgs = append(msgs, &rtnetlink.LinkMessage{Attributes: &rtnetlink.LinkAttributes{Name: a.ifi, OperationalState: a.st}})
				if c, ok := want[a.st]; ok {
					wantCS[a.ifi] = append(wantCS[a.ifi], c)
				}
			}
		}
		distinctIf := len(wantCS) >= 2
		r.Case(fmt.Sprintf("batch %v", seq), distinctIf)
		cs := process(msgs)
		got := map[string][]Change{}
		for k, v := range cs {
			got[k] = append([]Change(nil), v...)
		}
		if fmt.Sprint(got) != fmt.Sprint(wantCS) {
			r.Violation("C19:process-batch", fmt.Sprintf("batch %v: process = %v, want %v", seq, got, wantCS), nil)
			return true
		}
		// Through the real notify to subscribers of each interface: per interface one
		// subscriber per mask (any, up only, down only) and a second "any" subscriber; each
		// must receive exactly that interface's changes matching its mask, in batch order.
		w := NewWatcher()
		type sub struct {
			ifi  string
			mask Change
			ch   <-chan Change
		}
		var subs []sub
		for _, ifi := range []string{"eth0", "eth1", "eth2"} {
			for _, mask := range []Change{LinkAny, LinkUp, LinkDown, LinkAny} {
				subs = append(subs, sub{ifi, mask, w.Subscribe(ifi, mask)})
			}
		}
		w.notify(cs)
		for _, sb := range subs {
			var rec, wantRec []Change
		drain:
			for {
				select {
				case c := <-sb.ch:
					rec = append(rec, c)
				default:
					break drain
				}
			}
			for _, c := range wantCS[sb.ifi] {
				if c&sb.mask != 0 {
					wantRec = append(wantRec, c)
				}
			}
			if fmt.Sprint(rec) != fmt.Sprint(wantRec) {
				r.Violation("C19:batch-delivery", fmt.Sprintf("batch %v: subscriber of %s with mask %v received %v, want %v", seq, sb.ifi, sb.mask, rec, wantRec), nil)
			}
		}
		return true
	})
}
