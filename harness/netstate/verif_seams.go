//go:build verif

package netstate

import "context"

// VerifNewWatcher returns a Watcher whose event source is the given function instead
// of rtnetlink (the same swap the package's own tests make through the unexported
// field), for harnesses in other packages that exercise the wiring between the
// Watcher and the tasks subscribed to it.
func VerifNewWatcher(watch func(ctx context.Context, notify func(map[string][]Change)) error) *Watcher {
	w := NewWatcher()
	w.watch = func(ctx context.Context, notify func(changeSet)) error {
		return watch(ctx, func(m map[string][]Change) { notify(changeSet(m)) })
	}
	return w
}
