//go:build verif && linux && !vsched

package netstate

import (
	"context"
	"errors"
	"fmt"
	"strings"
	"sync"
	"testing"
	"testing/synctest"
	"time"

	"github.com/jsimonetti/rtnetlink"
	"github.com/mdlayher/corerad/verifrt/enum"
	"github.com/mdlayher/corerad/verifrt/ev"
	"github.com/mdlayher/netlink"
)

// C19, the receive loop itself: the real Watcher.Watch -> osWatch runs over a scripted
// route-netlink connection (rtnetlink.Dial goes through a seam in the staged copy of
// watcher_linux.go) under a virtual clock. Scripts are sequences of events {a batch with
// eth0 down; a batch with eth0 up + eth1 down + a malformed message; an empty batch; the
// receive fails; the context is cancelled}. After every event the subscribers have
// received exactly the changes of the batches so far; a failing receive ends Watch with an
// error and cancellation ends it with nil; either way Watch returns and the channels are closed.

type owTimeout struct{}

func (owTimeout) Error() string   { return "verif: i/o timeout" }
func (owTimeout) Timeout() bool   { return true }
func (owTimeout) Temporary() bool { return true }

type owConn struct {
	mu          sync.Mutex
	in          chan []rtnetlink.Message
	errC        chan error
	dl          chan struct{}
	dlSet       bool
	nclose      int
	useAfter    bool
	nrecv       int
	dialGroups  uint32
	recvBlocked int
}

func (c *owConn) Close() error {
	c.mu.Lock()
	defer c.mu.Unlock()
	c.nclose++
	return nil
}

func (c *owConn) SetReadDeadline(t time.Time) error {
	c.mu.Lock()
	defer c.mu.Unlock()
	if c.nclose > 0 {
		c.useAfter = true
	}
	if !t.IsZero() && !t.After(time.Now()) && !c.dlSet {
		c.dlSet = true
		close(c.dl)
	}
	return nil
}

func (c *owConn) Receive() ([]rtnetlink.Message, []netlink.Message, error) {
	c.mu.Lock()
	if c.nclose > 0 {
		c.useAfter = true
	}
	c.nrecv++
	c.mu.Unlock()
	select {
	case b := <-c.in:
		return b, nil, nil
	case err := <-c.errC:
		return nil, nil, err
	case <-c.dl:
		return nil, nil, &netlink.OpError{Op: "receive", Err: owTimeout{}}
	}
}

var owEvents = []string{"down0", "up0+down1+junk", "empty", "recv-error", "cancel"}

func owBatch(kind string) ([]rtnetlink.Message, map[string][]Change) {
	lm := func(name string, st rtnetlink.OperationalState) rtnetlink.Message {
		return &rtnetlink.LinkMessage{Attributes: &rtnetlink.LinkAttributes{Name: name, OperationalState: st}}
	}
	switch kind {
	case "down0":
		return []rtnetlink.Message{lm("eth0", rtnetlink.OperStateDown)}, map[string][]Change{"eth0": {LinkDown}}
	case "up0+down1+junk":
		return []rtnetlink.Message{lm("eth0", rtnetlink.OperStateUp), &rtnetlink.LinkMessage{}, lm("eth1", rtnetlink.OperStateDown), &rtnetlink.AddressMessage{}},
			map[string][]Change{"eth0": {LinkUp}, "eth1": {LinkDown}}
	}
	return nil, nil
}

func owRun(t *testing.T, seq []string, late bool) (out [][2]string) {
	bad := func(sig, format string, a ...any) {
		out = append(out, [2]string{sig, fmt.Sprintf("script %v (subscribers registered after Watch started: %t): ", seq, late) + fmt.Sprintf(format, a...)})
	}
	// A version under test that never returns leaves goroutines blocked in the bubble; the
	// bubble says so when it ends, after the finding has been recorded.
	defer func() {
		if pv := recover(); pv != nil && !strings.Contains(fmt.Sprint(pv), "blocked goroutines remain") {
			panic(pv)
		}
	}()
	synctest.Test(t, func(t *testing.T) {
		conn := &owConn{in: make(chan []rtnetlink.Message), errC: make(chan error), dl: make(chan struct{})}
		ndial := 0
		verifSetWatchDial(func(cfg *netlink.Config) (verifWatchConn, error) {
			ndial++
			if cfg != nil {
				conn.dialGroups = cfg.Groups
			}
			return conn, nil
		})
		defer verifSetWatchDial(nil)
		w := NewWatcher()
		var any0, down1, up1 <-chan Change
		if !late {
			any0, down1, up1 = w.Subscribe("eth0", LinkAny), w.Subscribe("eth1", LinkDown), w.Subscribe("eth1", LinkUp)
		}
		ctx, cancel := context.WithCancel(context.Background())
		defer cancel()
		var (
			ret     bool
			retErr  error
			retDone = make(chan struct{})
		)
		go func() { retErr = w.Watch(ctx); ret = true; close(retDone) }()
		synctest.Wait()
		if late {
			// The first subscriptions arrive once watching has begun (a task that starts late).
			any0, down1, up1 = w.Subscribe("eth0", LinkAny), w.Subscribe("eth1", LinkDown), w.Subscribe("eth1", LinkUp)
			synctest.Wait()
		}
		want := map[string][]Change{}
		var got0, got1d, got1u []Change
		ended, wantErr := false, false
		for i, e := range seq {
			switch e {
			case "recv-error":
				select {
				case conn.errC <- errors.New("verif: netlink receive failed"):
				default:
					bad("C19:oswatch:not-receiving", "event %d (%s): the watcher is not reading from the route netlink socket", i, e)
					return
				}
				ended, wantErr = true, true
			case "cancel":
				cancel()
				ended = true
			default:
				b, cs := owBatch(e)
				select {
				case conn.in <- b:
				default:
					bad("C19:oswatch:not-receiving", "event %d (%s): the watcher is not reading from the route netlink socket: changes are never seen", i, e)
					return
				}
				for k, v := range cs {
					want[k] = append(want[k], v...)
				}
			}
			synctest.Wait()
			g, c0 := drain(any0)
			got0 = append(got0, g...)
			g, c1 := drain(down1)
			got1d = append(got1d, g...)
			g, c2 := drain(up1)
			got1u = append(got1u, g...)
			if fmt.Sprint(got0) != fmt.Sprint(want["eth0"]) || fmt.Sprint(got1d) != fmt.Sprint(want["eth1"]) || len(got1u) != 0 {
				bad("C19:oswatch:delivery", "after event %d (%s): eth0/any got %v want %v; eth1/down got %v want %v; eth1/up got %v want none", i, e, got0, want["eth0"], got1d, want["eth1"], got1u)
			}
			if ended {
				if !ret {
					bad("C19:oswatch:watch-did-not-return", "Watch still running after %s", e)
				}
				_ = wantErr // whether the end of watching is reported as an error is C20's subject, not C19's
				if !(c0 && c1 && c2) {
					bad("C19:oswatch:channels-not-closed", "after %s: closed eth0/any=%t eth1/down=%t eth1/up=%t", e, c0, c1, c2)
				}
				break
			}
			if ret {
				bad("C19:oswatch:watch-ended-early", "Watch returned (%v) after event %d (%s)", retErr, i, e)
				ended = true
				break
			}
			if c0 || c1 || c2 {
				bad("C19:oswatch:channel-closed-early", "a subscriber channel is closed while watching (after %s)", e)
			}
		}
		if !ended {
			cancel()
			synctest.Wait()
			if !ret {
				bad("C19:oswatch:watch-did-not-return", "after the final cancellation: returned=%t err=%v", ret, retErr)
			}
		}
		// Let whatever is still running end (a version that ignores cancellation stays
		// blocked: that was reported above; its goroutines are then left to the bubble).
		cancel()
		_ = conn.SetReadDeadline(time.Unix(0, 1))
		synctest.Wait()
		_ = ndial
		_ = retDone
	})
	return out
}

func TestVerifC19OSWatch(t *testing.T) {
	r := ev.Begin("C19", "oswatch")
	defer r.End(t)
	r.Rule = "the real Watcher.Watch -> osWatch over a scripted route-netlink connection under a virtual clock: all scripts of <=4 events over {batch eth0 down, batch eth0 up + eth1 down + malformed messages, empty batch, receive error, cancellation} (stopping at the first terminal event), + a failing dial; three subscribers (eth0/any, eth1/down, eth1/up), registered before Watch starts or right after; oracle after every event (quiescence of the bubble): deliveries = the batches so far per mask, Watch still running; at the end: Watch has returned and every channel is closed; non-trivial = every script; distinct = distinct script"
	r.Assumptions = []string{"rtnetlink.Dial inside osWatch replaced by a scripted connection (AST rewrite in the staged copy)"}
	dials := 0
	enum.Sequences(len(owEvents), 4, func(ix []int) bool {
		var seq []string
		for _, i := range ix {
			seq = append(seq, owEvents[i])
			if owEvents[i] == "recv-error" || owEvents[i] == "cancel" {
				break
			}
		}
		if len(seq) != len(ix) {
			return true // events after a terminal one: same script as its prefix
		}
		for _, late := range []bool{false, true} {
			r.Case(fmt.Sprint(seq, late), true)
			for _, v := range owRun(t, seq, late) {
				r.Violation(v[0], v[1], nil)
			}
		}
		dials++
		return true
	})
	// The dial itself fails: Watch returns an error and closes the channels.
	synctest.Test(t, func(t *testing.T) {
		called := false
		verifSetWatchDial(func(*netlink.Config) (verifWatchConn, error) {
			called = true
			return nil, errors.New("verif: dial failed")
		})
		defer verifSetWatchDial(nil)
		w := NewWatcher()
		ch := w.Subscribe("eth0", LinkAny)
		err := w.Watch(context.Background())
		r.Case("dial fails", true)
		if !called {
			r.Capped("osWatch no longer dials through rtnetlink.Dial: the seam is bypassed and this part decides nothing")
			return
		}
		_ = err
		if _, closed := drain(ch); !closed {
			r.Violation("C19:oswatch:channels-not-closed", "channel not closed after Watch failed to dial", nil)
		}
	})
}
