//go:build verif

package corerad

import (
	"encoding/json"
	"errors"
	"fmt"
	"net/http/httptest"
	"net/netip"
	"os"
	"reflect"
	"strconv"
	"strings"
	"syscall"
	"testing"
	"time"

	"github.com/mdlayher/corerad/internal/config"
	"github.com/mdlayher/corerad/internal/crhttp"
	"github.com/mdlayher/corerad/verifrt/enum"
	"github.com/mdlayher/corerad/verifrt/ev"
	"github.com/mdlayher/corerad/verifrt/ref"
	"github.com/mdlayher/corerad/verifrt/vsched"
	"github.com/mdlayher/ndp"
)

// C04: whenever forwarding is off when an RA is generated its router lifetime is
// 0 (everything else unchanged) and the condition is surfaced (log + metric);
// when on, the configured lifetime is sent and nothing is reported - on every
// path (initial, periodic, solicited, final, consistency check, scrape, API),
// tracking flips between consecutive RAs.

var c04Events = []string{"flip", "tick", "rs-uni", "rs-unspec", "ra-in", "fwd-read-fails", "fwd-read-denied", "enobufs+flip"}

type c04Case struct {
	Lifetime string   `json:"default_lifetime"` // "", "0s", "1234s"
	Fwd      bool     `json:"initial_forwarding"`
	Probe    bool     `json:"probe_after_every_event"`
	Events   []string `json:"events"`
	// Reorder: the configuration lists the interfaces as eth2, eth1, eth0 (not in name
	// order; the advertising interface under test last).
	Reorder bool `json:"interfaces_listed_in_reverse,omitempty"`
	// Large: the advertising interface has 60 more prefix stanzas (its RA is far larger
	// than the link MTU of 1500 the dialled interface reports).
	Large bool `json:"sixty_more_prefixes,omitempty"`
}

func (c c04Case) String() string {
	o := ""
	if c.Reorder {
		o = " reversed-config"
	}
	if c.Large {
		o += " +60-prefixes"
	}
	return fmt.Sprintf("life=%q fwd=%t probe=%t%s [%s]", c.Lifetime, c.Fwd, c.Probe, o, strings.Join(c.Events, " "))
}

func c04Doc(c c04Case) ref.Doc {
	s := ref.Table{"name": "eth0", "advertise": true, "max_interval": "4s", "min_interval": "auto", "mtu": 1500, "other_config": true, "preference": "high"}
	if c.Lifetime != "" {
		s["default_lifetime"] = c.Lifetime
	}
	d := ref.Doc{Ifaces: []ref.Iface{
		{Scalars: s, Prefix: []ref.Table{{"prefix": "2001:db8:1::/64"}}, RDNSS: []ref.Table{{"servers": []string{"2001:db8::53"}}},
			DNSSL: []ref.Table{{"domain_names": []string{"LAN.Example.COM", "b.example"}}}},
		{Scalars: ref.Table{"name": "eth1", "advertise": true, "default_lifetime": "100s", "max_interval": "50s"}},
		{Scalars: ref.Table{"name": "eth2", "monitor": true}},
	}}
	if c.Large {
		for i := 0; i < 60; i++ {
			d.Ifaces[0].Prefix = append(d.Ifaces[0].Prefix, ref.Table{"prefix": fmt.Sprintf("2001:db8:%x::/64", 0x100+i)})
		}
	}
	if c.Reorder {
		d.Ifaces[0], d.Ifaces[2] = d.Ifaces[2], d.Ifaces[0]
	}
	return d
}

type c04Result struct {
	problems [][2]string
}

var c04Epoch = time.Date(2000, 1, 1, 0, 0, 0, 0, time.UTC)

func c04Run(t *testing.T, c c04Case) (x *vsched.Exec, out [][2]string) {
	bad := func(sig, format string, a ...any) {
		out = append(out, [2]string{sig, fmt.Sprintf(format, a...)})
	}
	doc := c04Doc(c)
	verdict, wantCfg, why := ref.Parse(doc, c04Epoch)
	if verdict != ref.Accept {
		panic("C04 harness document not accepted by the reference model: " + why)
	}
	cfg, err := config.Parse(strings.NewReader(doc.TOML()), c04Epoch)
	if err != nil {
		return nil, [][2]string{{"C04:config-rejected", err.Error()}}
	}
	i0 := 0 // position of eth0, the advertising interface under test
	if c.Reorder {
		i0 = 2
	}
	configured := wantCfg.Interfaces[i0].DefaultLifetime

	sc := &vsched.Scenario{
		Name:    "c04",
		Horizon: 10 * time.Minute,
		Setup: func(x *vsched.Exec) {
			// Metrics and API over the SAME config.Interface values, as main.go does.
			a := newAdvWorldIfis(cfg.Interfaces[i0], cfg.Interfaces, c.Fwd, false)
			w := a.world
			w.st.fwd["eth1"], w.st.fwd["eth2"] = !c.Fwd, c.Fwd
			mm := w.mm
			h := crhttp.NewHandler(w.cctx.ll, w.st, *cfg, nil)
			fwd := c.Fwd
			conn := 0 // the connection whose RA is being judged (every re-dial sees another MAC)
			expectRA := func(forwarding bool, final bool) *ndp.RouterAdvertisement {
				st := ref.State{Name: "eth0", MAC: w.macOf(conn).String(), Forwarding: forwarding}
				ifi := wantCfg.Interfaces[i0]
				if final {
					ifi.DefaultLifetime = 0
				}
				ra, _ := ref.RA(ifi, &st, c04Epoch)
				return ra
			}
			// nGen counts RA generations by the advertiser while forwarding was off and a non-zero lifetime configured.
			nOverridden := 0
			seenWrites := 0
			checkWrites := func(final bool, when string) {
				ws := w.Writes()
				for _, wr := range ws[seenWrites:] {
					if wr.Err != nil {
						// Not transmitted; it was generated (and, if the lifetime was overridden,
						// reported) under the forwarding state of that moment.
						if wr.RA != nil && wr.RA.RouterLifetime == 0 && configured > 0 {
							nOverridden++
						}
						continue
					}
					conn = wr.Conn
					isFinal := final && isAllNodes(wr.Dst) && wr == ws[len(ws)-1]
					want := expectRA(fwd, isFinal)
					if !reflect.DeepEqual(wr.RA, want) {
						sig := "C04:ra-content"
						if wr.RA != nil && wr.RA.RouterLifetime != want.RouterLifetime {
							sig = "C04:router-lifetime:" + when
						}
						bad(sig, "%s: RA to %s at %s with forwarding=%t: router lifetime %v (want %v); full RA %+v want %+v", when, wr.Dst, wr.T, fwd, wr.RA.RouterLifetime, want.RouterLifetime, wr.RA, want)
					}
					lifeCfg := configured
					if isFinal {
						lifeCfg = 0
					}
					if !fwd && lifeCfg > 0 {
						nOverridden++
					}
				}
				seenWrites = len(ws)
			}
			probe := func(when string) {
				// Metrics scrape (one scrape's samples only).
				got := map[string]map[string]float64{}
				metrics := map[string]func(float64, ...string){}
				for _, name := range []string{ifiAdvertising, ifiAutoconfiguration, ifiForwarding, ifiMonitoring, advMisconfiguration, advDNSSLLifetime,
					advPrefixAutonomous, advPrefixOnLink, advPrefixValid, advPrefixPreferred, advRDNSSLifetime, advRouteLifetime} {
					name := name
					got[name] = map[string]float64{}
					metrics[name] = func(v float64, labels ...string) { got[name][strings.Join(labels, ",")] = v }
				}
				if err := mm.constScrape(metrics); err != nil {
					bad("C04:scrape-failed", "%s: %v", when, err)
				}
				for ifn, f := range map[string]bool{"eth0": fwd, "eth1": !c.Fwd, "eth2": c.Fwd} {
					if got[ifiForwarding][ifn] != b2f(f) {
						bad("C04:forwarding-gauge", "%s: corerad_interface_forwarding{%s} = %v, state is %t", when, ifn, got[ifiForwarding][ifn], f)
					}
				}
				wantMis := map[string]float64{}
				if !fwd && configured > 0 {
					wantMis["eth0,interface_not_forwarding"] = 1
				}
				if c.Fwd { // eth1 forwards iff !c.Fwd; it has lifetime 100s
					wantMis["eth1,interface_not_forwarding"] = 1
				}
				if !reflect.DeepEqual(got[advMisconfiguration], wantMis) {
					bad("C04:misconfiguration-gauge", "%s: misconfiguration samples %v, want %v (eth0 forwarding=%t configured=%s)", when, got[advMisconfiguration], wantMis, fwd, configured)
				}
				// Debug API.
				rec := httptest.NewRecorder()
				h.ServeHTTP(rec, httptest.NewRequest("GET", "/_/api/interfaces", nil))
				var body struct {
					Interfaces []struct {
						Interface     string `json:"interface"`
						Advertisement *struct {
							Life int `json:"router_lifetime_seconds"`
						} `json:"advertisement"`
					} `json:"interfaces"`
				}
				if rec.Code != 200 || json.Unmarshal(rec.Body.Bytes(), &body) != nil || len(body.Interfaces) != 3 {
					bad("C04:api-failed", "%s: status %d body %s", when, rec.Code, rec.Body.String())
					return
				}
				wantLife := map[string]int{"eth0": 0, "eth1": 0}
				if fwd {
					wantLife["eth0"] = int(configured / time.Second)
				}
				if !c.Fwd {
					wantLife["eth1"] = 100
				}
				for _, bi := range body.Interfaces {
					if bi.Interface == "eth2" {
						continue
					}
					if bi.Advertisement == nil || bi.Advertisement.Life != wantLife[bi.Interface] {
						bad("C04:api-lifetime", "%s: API router_lifetime_seconds for %s = %+v, want %d", when, bi.Interface, bi.Advertisement, wantLife[bi.Interface])
					}
				}
			}
			dead := false
			x.Spawn("advertiser", a.run)
			x.Spawn("driver", func() {
				defer w.done()
				vsched.Sleep(100 * time.Millisecond)
				checkWrites(false, "initial")
				if c.Probe {
					probe("after initial RA")
				}
				for i, e := range c.Events {
					when := fmt.Sprintf("event %d (%s)", i, e)
					switch e {
					case "flip":
						fwd = !fwd
						w.st.setFwd("eth0", fwd)
						vsched.Sleep(100 * time.Millisecond)
					case "tick":
						vsched.Sleep(4 * time.Second)
					case "rs-uni":
						a.inject(rsFrom("fe80::5", true))
						vsched.Sleep(600 * time.Millisecond)
					case "rs-unspec":
						a.inject(rsFrom("::", false))
						vsched.Sleep(3100 * time.Millisecond)
					case "enobufs+flip":
						// The next transmission fails transiently (ENOBUFS) and forwarding changes at
						// that very moment: whatever is transmitted afterwards (a retry, or the initial
						// RA of the re-established session) reflects the new state.
						armed := true
						w.writeFault = func(_ *fconn, _ netip.Addr) error {
							if !armed {
								return nil
							}
							armed = false
							fwd = !fwd
							w.st.setFwd("eth0", fwd)
							vsched.Obs("enobufs+flip", "forwarding=%t", fwd)
							return os.NewSyscallError("sendmsg", syscall.ENOBUFS)
						}
						vsched.Sleep(4200 * time.Millisecond)
						w.writeFault = nil
					case "fwd-read-fails", "fwd-read-denied":
						// From now on the forwarding sysctl cannot be read. Whatever the
						// advertiser does then (it gives up), it must not advertise a non-zero
						// lifetime while forwarding is off.
						w.st.mu.Lock()
						w.st.fwdErr = errors.New("verif: too many open files")
						if e == "fwd-read-denied" {
							w.st.fwdErr = &os.PathError{Op: "open", Path: "/proc/sys/net/ipv6/conf/eth0/forwarding", Err: syscall.EACCES}
						}
						w.st.mu.Unlock()
						vsched.Obs("fwd-read-fails", "")
						a.inject(rsFrom("fe80::6", true))
						vsched.Sleep(4 * time.Second)
						dead = true
					case "ra-in":
						// The other router's RA arrives through the wire: it shares no memory with
						// our configuration or with the reference.
						other, werr := c12Wire(expectRA(true, false))
						if werr != nil {
							panic(werr)
						}
						a.inject(inMsg{m: other, hop: 255, from: rsFrom("fe80::7", false).from})
						vsched.Sleep(100 * time.Millisecond)
						if !fwd && configured > 0 {
							nOverridden++ // the consistency check builds our RA too
						}
					}
					checkWrites(false, when)
					if dead {
						break
					}
					if c.Probe {
						probe("after " + when)
					}
				}
				if dead {
					// The state became unreadable: the history ends here. No RA may have
					// been sent with a lifetime the forwarding state forbids (checked above).
					a.cancel()
					vsched.Sleep(time.Second)
					checkWrites(false, "after the read failure")
					x.Finish()
					return
				}
				probe("before stop")
				a.term.set(os.Interrupt)
				a.cancel()
				vsched.Sleep(time.Second)
				checkWrites(true, "final")
				ws := w.Writes()
				if len(ws) == 0 || ws[len(ws)-1].RA == nil || ws[len(ws)-1].RA.RouterLifetime != 0 {
					bad("C04:final-ra", "last packet is not a zero-lifetime RA")
				}
				nlog := 0
				for _, ln := range w.logb.Lines() {
					if strings.Contains(ln, "refusing to advertise a default route") {
						nlog++
					}
				}
				if nlog != nOverridden {
					sig := "C04:log-missing"
					if nlog > nOverridden {
						sig = "C04:log-spurious"
					}
					bad(sig, "%d 'not configured for IPv6 forwarding' log lines, %d RA generations overrode a configured lifetime", nlog, nOverridden)
				}
				if got, _ := sample(w.mem.Series(), "corerad_advertiser_inconsistencies_total", ""); got != 0 {
					bad("C04:harness", "unexpected inconsistency report")
				}
				x.Finish()
			})
		},
	}
	x = vsched.RunOnce(t, sc, nil)
	if x.Failure != "" {
		bad("C04:"+x.FailKind, "%s", x.Failure)
	}
	return x, out
}

func TestVerifC04(t *testing.T) {
	r := ev.Begin("C04", "histories")
	defer r.End(t)
	r.Rule = "histories = all sequences of <=K events over {flip forwarding, periodic tick, unicast RS, RS from ::, RA from another router, forwarding sysctl becomes unreadable (ends the history)} followed by termination, x default_lifetime {auto, 0s, 1234s} x initial forwarding {on, off} x {metrics+API probed after every event, only at the end}, on the real Advertiser.Run (min=max=4s, virtual clock, canonical schedule) with Metrics and the debug API handler built over the same config.Interface values plus a second advertising and a monitoring interface (configuration listed eth0, eth1, eth2 when probing after every event, eth2, eth1, eth0 when probing at the end); plus 6 short histories on an interface with 60 more prefix stanzas (RA larger than the link MTU); oracle: every transmitted RA deep-equals the reference RA for the forwarding state at that moment (lifetime 0 when off, final RA 0), log line count = overridden generations, forwarding and misconfiguration gauges and API router_lifetime_seconds track the state per interface; non-trivial = history contains a flip or starts non-forwarding; distinct = distinct case"
	if r.Replay != nil {
		var c c04Case
		if err := json.Unmarshal(r.Replay, &c); err != nil {
			t.Fatalf("bad replay: %v", err)
		}
		x, vs := c04Run(t, c)
		r.Case(c.String(), true)
		r.Sample(c.String())
		if x != nil {
			fmt.Printf("case %s\n%s", c, x.LogString())
		}
		for _, v := range vs {
			r.Violation(v[0], v[1], c)
		}
		return
	}
	K := 3
	if r.Thorough() {
		K = 5
	}
	if s := os.Getenv("VERIF_DEPTH"); s != "" {
		K, _ = strconv.Atoi(s)
	}
	idx := 0
	enum.Sequences(len(c04Events), K, func(seq []int) bool {
		var evs []string
		flips := false
		for _, s := range seq {
			evs = append(evs, c04Events[s])
			flips = flips || c04Events[s] == "flip"
		}
		for _, life := range []string{"", "0s", "1234s"} {
			for _, fwd := range []bool{true, false} {
				for _, probe := range []bool{true, false} {
					idx++
					if !r.Mine(idx) {
						continue
					}
					c := c04Case{Lifetime: life, Fwd: fwd, Probe: probe, Events: evs, Reorder: !probe}
					x, vs := c04Run(t, c)
					r.Case(c.String(), flips || !fwd)
					r.Count("states", 1)
					if x != nil {
						r.Count("transitions", int64(x.Steps))
					}
					r.Count("traces_validated_against_impl", 1)
					r.Sample(c.String())
					for _, v := range vs {
						r.Violation(v[0], c.String()+": "+v[1], c)
					}
				}
			}
		}
		return !r.OverBudget()
	})
	// An RA much larger than the link MTU (60 more prefix options): every message the
	// advertiser writes is judged like any other RA.
	for _, evs := range [][]string{nil, {"tick"}, {"rs-uni"}, {"flip"}, {"flip", "rs-uni"}, {"rs-unspec", "flip", "tick"}} {
		for _, life := range []string{"", "1234s"} {
			for _, fwd := range []bool{true, false} {
				idx++
				if !r.Mine(idx) {
					continue
				}
				c := c04Case{Lifetime: life, Fwd: fwd, Probe: true, Events: evs, Large: true}
				x, vs := c04Run(t, c)
				r.Case(c.String(), true)
				r.Count("states", 1)
				if x != nil {
					r.Count("transitions", int64(x.Steps))
				}
				for _, v := range vs {
					r.Violation(v[0], c.String()+": "+v[1], c)
				}
			}
		}
	}
	if r.OverBudget() {
		r.Capped("wall-clock budget reached")
	}
	r.Max("max_depth", int64(K))
}
