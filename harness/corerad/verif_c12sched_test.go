//go:build verif && vsched

package corerad

import (
	"fmt"
	"log"
	"net/netip"
	"sort"
	"strings"
	"testing"
	"time"

	"github.com/mdlayher/corerad/internal/config"
	"github.com/mdlayher/corerad/internal/system"
	"github.com/mdlayher/corerad/verifrt/ev"
	"github.com/mdlayher/corerad/verifrt/vsched"
	"github.com/mdlayher/metricslite"
	"github.com/mdlayher/ndp"
)

// C12 under concurrency: two advertising interfaces of one daemon (shared logger and
// metrics, as in production) each receive an inconsistent RA from another router at
// the same time. "Each inconsistency is logged and counted once under its field/details
// labels" - under the labels of the interface that received it. Every counter increment is a
// scheduling point, so the explorer can stop one interface between two of its report
// lines and let the other one verify its RA in between.

// c12PointMetrics is the metrics backend of the scenario: the in-memory one, with a
// scheduling point before every counter increment (updating the metrics system is where
// one interface's report can be overtaken by another's).
type c12PointMetrics struct{ *metricslite.Memory }

func (m c12PointMetrics) Counter(name, help string, labels ...string) metricslite.Counter {
	c := m.Memory.Counter(name, help, labels...)
	return func(v float64, lv ...string) {
		vsched.Point("metrics.Counter")
		c(v, lv...)
	}
}

type c12SchedCase struct {
	Name string     `json:"name"`
	Own  c12Spec    `json:"own"`
	Recv [2]c12Spec `json:"received"` // by eth0, by eth1
}

func c12SchedCases() []c12SchedCase {
	b := c12Bases()[0]
	r0, r1 := b[1], b[1]
	r0.Hop, r0.M = 65, true   // eth0's peer: hop limit and M differ
	r1.O, r1.MTU = true, 1280 // eth1's peer: O and MTU differ
	r2 := b[1]
	r2.Prefixes = []c12Pfx{{"2001:db8:1::/64", 110, 60}}
	r2.Reach = 2
	return []c12SchedCase{
		{Name: "disjoint-fields", Own: b[0], Recv: [2]c12Spec{r0, r1}},
		{Name: "header-vs-prefix", Own: b[0], Recv: [2]c12Spec{r0, r2}},
		{Name: "one-consistent", Own: b[0], Recv: [2]c12Spec{b[1], r2}},
	}
}

func c12SchedScenario(c c12SchedCase) *vsched.Scenario {
	var (
		mem  *metricslite.Memory
		logb *lockedBuf
		hook [2]int
	)
	sc := &vsched.Scenario{
		Name:    c.Name,
		Horizon: time.Minute,
		Setup: func(x *vsched.Exec) {
			mem, logb, hook = metricslite.NewMemory(), &lockedBuf{}, [2]int{}
			var ifis []config.Interface
			for i := 0; i < 2; i++ {
				ifi := c.Own.iface()
				ifi.Name = fmt.Sprintf("eth%d", i)
				ifis = append(ifis, ifi)
			}
			st := system.TestState{Forwarding: true}
			mm := NewMetrics(c12PointMetrics{mem}, "test", time.Time{}, st, ifis)
			cctx := NewContext(log.New(logb, "", 0), mm, st)
			done := 0
			for i := 0; i < 2; i++ {
				i := i
				a := NewAdvertiser(cctx, ifis[i], nil, nil, func() bool { return false })
				a.OnInconsistentRA = func(_, _ *ndp.RouterAdvertisement) { hook[i]++ }
				recv, err := c12Wire(c.Recv[i].ra())
				if err != nil {
					panic(err)
				}
				x.Spawn(ifis[i].Name, func() {
					if i == 0 {
						vsched.Mark()
					}
					_, herr := a.handle(recv, netip.MustParseAddr(fmt.Sprintf("fe80::%d", 2+i)))
					vsched.Obs("handled", "eth%d err=%v", i, herr)
					done++
					if done == 2 {
						x.Finish()
					}
				})
			}
		},
	}
	sc.Check = func(x *vsched.Exec) (out [][2]string) {
		if x.Failure != "" {
			return [][2]string{{"C12:sched:" + x.FailKind, x.Failure}}
		}
		for i := 0; i < 2; i++ {
			name := fmt.Sprintf("eth%d", i)
			want, hopDC := c12Expected(c.Own, c.Recv[i])
			want = c12Filter(want, hopDC)
			var counted, logged []string
			for k, v := range mem.Series()[advInconsistencies].Samples {
				var field, details, ifn string
				for _, kv := range strings.Split(k, ",") {
					switch {
					case strings.HasPrefix(kv, "field="):
						field = kv[6:]
					case strings.HasPrefix(kv, "details="):
						details = kv[8:]
					case strings.HasPrefix(kv, "interface="):
						ifn = kv[10:]
					}
				}
				if ifn == name {
					for n := 0; n < int(v); n++ {
						counted = append(counted, field+"|"+details)
					}
				}
			}
			logged = c12LoggedProblems(logb.Lines(), name+":", want)
			counted, logged = c12Filter(counted, hopDC), c12Filter(logged, hopDC)
			sort.Strings(counted)
			sort.Strings(logged)
			sort.Strings(want)
			if fmt.Sprint(counted) != fmt.Sprint(want) {
				out = append(out, [2]string{"C12:sched:metric", fmt.Sprintf("%s: inconsistencies counted under its labels %v, want %v", name, counted, want)})
			}
			if fmt.Sprint(logged) != fmt.Sprint(want) {
				out = append(out, [2]string{"C12:sched:log", fmt.Sprintf("%s: inconsistencies logged %v, want %v", name, logged, want)})
			}
			if (len(want) > 0) != (hook[i] == 1) || hook[i] > 1 {
				out = append(out, [2]string{"C12:sched:hook", fmt.Sprintf("%s: hook fired %d time(s) with %d expected problems", name, hook[i], len(want))})
			}
		}
		return out
	}
	return sc
}

func TestVerifC12Sched(t *testing.T) {
	r := ev.Begin("C12", "sched")
	defer r.End(t)
	r.Rule = "executions = goroutine schedules within the deviation bound of two Advertisers of one daemon (shared logger and metrics) each handling a received RA (3 pairs of received RAs: disjoint differing fields, header vs prefix, one consistent), with every counter increment a scheduling point; oracle per interface: counted and logged inconsistencies under its own labels = the reference model's list for the RA it received, hook fired iff non-empty"
	bound := 2
	if r.Thorough() {
		bound = 3
	}
	exploreCases(t, r, c12SchedCases(), func(c c12SchedCase) string { return c.Name }, c12SchedScenario, exploreOpts{Bound: bound, Budget: 120 * time.Second})
}
