//go:build verif

package corerad

import (
	"bytes"
	"encoding/json"
	"fmt"
	"log"
	"net"
	"net/netip"
	"reflect"
	"sort"
	"strings"
	"testing"
	"time"

	"github.com/mdlayher/corerad/internal/config"
	"github.com/mdlayher/corerad/internal/plugin"
	"github.com/mdlayher/corerad/internal/system"
	"github.com/mdlayher/corerad/verifrt/ev"
	"github.com/mdlayher/metricslite"
	"github.com/mdlayher/ndp"
)

// C12: exactly the RFC 4861 6.2.7 inconsistencies (and documented extensions)
// are reported for a received RA; nothing for a field/option absent on either
// side; each logged and counted once; hook fires iff any; an RA equal to our
// own after a wire round trip yields nothing.

type c12Pfx struct {
	Prefix      string `json:"prefix"`
	Valid, Pref int
}
type c12Rt struct {
	Prefix string `json:"prefix"`
	Pref   string `json:"preference"`
	Lt     int
}
type c12DNS struct {
	Lt      int
	Servers []string
}
type c12SL struct {
	Lt    int
	Names []string
}

type c12Spec struct {
	Hop            int
	M, O           bool
	Reach, Retrans int // units of 250 ms (the wire fields are milliseconds)
	MTU            int // 0 = absent
	Prefixes       []c12Pfx
	Routes         []c12Rt
	RDNSS          []c12DNS
	DNSSL          []c12SL
	CP             string
	MAC            string
	PREF64         string
}

func c12Pref(s string) ndp.Preference {
	switch s {
	case "low":
		return ndp.Low
	case "high":
		return ndp.High
	}
	return ndp.Medium
}

func sec(n int) time.Duration { return time.Duration(n) * time.Second }

// qsec: quarter seconds (timers differing within one second are still different).
func qsec(n int) time.Duration { return time.Duration(n) * 250 * time.Millisecond }

// ra builds the advertisement a spec stands for (option order as CoreRAD emits).
func (s c12Spec) ra() *ndp.RouterAdvertisement {
	ra := &ndp.RouterAdvertisement{
		CurrentHopLimit: uint8(s.Hop), ManagedConfiguration: s.M, OtherConfiguration: s.O,
		RouterSelectionPreference: ndp.Medium, RouterLifetime: 1800 * time.Second,
		ReachableTime: qsec(s.Reach), RetransmitTimer: qsec(s.Retrans),
	}
	for _, p := range s.Prefixes {
		x := netip.MustParsePrefix(p.Prefix)
		ra.Options = append(ra.Options, &ndp.PrefixInformation{PrefixLength: uint8(x.Bits()), OnLink: true, AutonomousAddressConfiguration: true,
			ValidLifetime: sec(p.Valid), PreferredLifetime: sec(p.Pref), Prefix: x.Addr()})
	}
	for _, r := range s.Routes {
		x := netip.MustParsePrefix(r.Prefix)
		ra.Options = append(ra.Options, &ndp.RouteInformation{PrefixLength: uint8(x.Bits()), Preference: c12Pref(r.Pref), RouteLifetime: sec(r.Lt), Prefix: x.Addr()})
	}
	for _, d := range s.RDNSS {
		var ips []netip.Addr
		for _, a := range d.Servers {
			ips = append(ips, netip.MustParseAddr(a))
		}
		ra.Options = append(ra.Options, &ndp.RecursiveDNSServer{Lifetime: sec(d.Lt), Servers: ips})
	}
	for _, d := range s.DNSSL {
		ra.Options = append(ra.Options, &ndp.DNSSearchList{Lifetime: sec(d.Lt), DomainNames: append([]string(nil), d.Names...)})
	}
	if s.MTU != 0 {
		ra.Options = append(ra.Options, ndp.NewMTU(uint32(s.MTU)))
	}
	if s.MAC != "" {
		m, _ := net.ParseMAC(s.MAC)
		ra.Options = append(ra.Options, &ndp.LinkLayerAddress{Direction: ndp.Source, Addr: m})
	}
	if s.CP != "" {
		ra.Options = append(ra.Options, &ndp.CaptivePortal{URI: s.CP})
	}
	if s.PREF64 != "" {
		ra.Options = append(ra.Options, &ndp.PREF64{Prefix: netip.MustParsePrefix(s.PREF64), Lifetime: 1800 * time.Second})
	}
	return ra
}

// iface builds the configuration whose RA is s.ra() (for the handle() path).
func (s c12Spec) iface() config.Interface {
	ifi := config.Interface{
		Name: "eth0", Advertise: true, MinInterval: 200 * time.Second, MaxInterval: 600 * time.Second,
		Managed: s.M, OtherConfig: s.O, ReachableTime: qsec(s.Reach), RetransmitTimer: qsec(s.Retrans),
		HopLimit: uint8(s.Hop), DefaultLifetime: 1800 * time.Second, Preference: ndp.Medium,
	}
	for _, p := range s.Prefixes {
		ifi.Plugins = append(ifi.Plugins, &plugin.Prefix{Prefix: netip.MustParsePrefix(p.Prefix), OnLink: true, Autonomous: true, ValidLifetime: sec(p.Valid), PreferredLifetime: sec(p.Pref)})
	}
	for _, r := range s.Routes {
		ifi.Plugins = append(ifi.Plugins, &plugin.Route{Prefix: netip.MustParsePrefix(r.Prefix), Preference: c12Pref(r.Pref), Lifetime: sec(r.Lt)})
	}
	for _, d := range s.RDNSS {
		var ips []netip.Addr
		for _, a := range d.Servers {
			ips = append(ips, netip.MustParseAddr(a))
		}
		ifi.Plugins = append(ifi.Plugins, &plugin.RDNSS{Lifetime: sec(d.Lt), Servers: ips})
	}
	for _, d := range s.DNSSL {
		ifi.Plugins = append(ifi.Plugins, &plugin.DNSSL{Lifetime: sec(d.Lt), DomainNames: append([]string(nil), d.Names...)})
	}
	if s.MTU != 0 {
		ifi.Plugins = append(ifi.Plugins, plugin.NewMTU(s.MTU))
	}
	if s.MAC != "" {
		m, _ := net.ParseMAC(s.MAC)
		ifi.Plugins = append(ifi.Plugins, &plugin.LLA{Addr: m})
	}
	if s.CP != "" {
		ifi.Plugins = append(ifi.Plugins, &plugin.CaptivePortal{Portal: &ndp.CaptivePortal{URI: s.CP}})
	}
	if s.PREF64 != "" {
		ifi.Plugins = append(ifi.Plugins, &plugin.PREF64{Inner: &ndp.PREF64{Prefix: netip.MustParsePrefix(s.PREF64), Lifetime: 1800 * time.Second}})
	}
	return ifi
}

// c12Expected is the reference list of "field|details" computed from the statement.
func c12Expected(a, b c12Spec) (problems []string, hopDontCare bool) {
	add := func(f, d string) { problems = append(problems, f+"|"+d) }
	if a.Hop != b.Hop {
		if a.Hop == 0 || b.Hop == 0 {
			hopDontCare = true // RFC exempts the unspecified value; the statement says "differing": accept either
		} else {
			add("hop_limit", "")
		}
	}
	if a.M != b.M {
		add("managed_configuration", "")
	}
	if a.O != b.O {
		add("other_configuration", "")
	}
	if a.Reach != 0 && b.Reach != 0 && a.Reach != b.Reach {
		add("reachable_time", "")
	}
	if a.Retrans != 0 && b.Retrans != 0 && a.Retrans != b.Retrans {
		add("retransmit_timer", "")
	}
	if a.MTU != 0 && b.MTU != 0 && a.MTU != b.MTU {
		add("mtu", "")
	}
	for _, p := range a.Prefixes {
		for _, q := range b.Prefixes {
			if netip.MustParsePrefix(p.Prefix) != netip.MustParsePrefix(q.Prefix) {
				continue
			}
			if p.Pref != q.Pref {
				add("prefix_information_preferred_lifetime", netip.MustParsePrefix(p.Prefix).String())
			}
			if p.Valid != q.Valid {
				add("prefix_information_valid_lifetime", netip.MustParsePrefix(p.Prefix).String())
			}
		}
	}
	for _, p := range a.Routes {
		for _, q := range b.Routes {
			if netip.MustParsePrefix(p.Prefix) == netip.MustParsePrefix(q.Prefix) && c12Pref(p.Pref) == c12Pref(q.Pref) && p.Lt != q.Lt {
				add("route_information_lifetime", netip.MustParsePrefix(p.Prefix).String())
			}
		}
	}
	if len(a.RDNSS) > 0 && len(b.RDNSS) > 0 {
		if len(a.RDNSS) != len(b.RDNSS) {
			add("rdnss_count", "")
		} else {
			for i := range a.RDNSS {
				if a.RDNSS[i].Lt != b.RDNSS[i].Lt {
					add("rdnss_lifetime", "")
				}
				if !reflect.DeepEqual(a.RDNSS[i].Servers, b.RDNSS[i].Servers) {
					add("rdnss_servers", "")
				}
			}
		}
	}
	if len(a.DNSSL) > 0 && len(b.DNSSL) > 0 {
		if len(a.DNSSL) != len(b.DNSSL) {
			add("dnssl_count", "")
		} else {
			for i := range a.DNSSL {
				if a.DNSSL[i].Lt != b.DNSSL[i].Lt {
					add("dnssl_lifetime", "")
				}
				if !reflect.DeepEqual(a.DNSSL[i].Names, b.DNSSL[i].Names) {
					add("dnssl_domain_names", "")
				}
			}
		}
	}
	if a.CP != "" && b.CP != "" && a.CP != b.CP {
		add("captive_portal", "")
	}
	sort.Strings(problems)
	return problems, hopDontCare
}

type c12Case struct {
	Vary []string `json:"aspects_varied"`
	Own  c12Spec  `json:"own"`
	Recv c12Spec  `json:"received"`
}

func c12Wire(ra *ndp.RouterAdvertisement) (*ndp.RouterAdvertisement, error) {
	b, err := ndp.MarshalMessage(ra)
	if err != nil {
		return nil, err
	}
	m, err := ndp.ParseMessage(b)
	if err != nil {
		return nil, err
	}
	return m.(*ndp.RouterAdvertisement), nil
}

func c12Filter(ps []string, dropHop bool) []string {
	var out []string
	for _, p := range ps {
		if dropHop && strings.HasPrefix(p, "hop_limit|") {
			continue
		}
		out = append(out, p)
	}
	sort.Strings(out)
	return out
}

func c12Check(c c12Case) [][2]string {
	var out [][2]string
	add := func(sig, format string, a ...any) {
		out = append(out, [2]string{sig, fmt.Sprintf(format, a...) + "\n  own " + ev.JSON(c.Own) + "\n  received " + ev.JSON(c.Recv)})
	}
	ifi := c.Own.iface()
	own, _, err := ifi.RouterAdvertisement(true)
	if err != nil {
		panic(err)
	}
	if !reflect.DeepEqual(own, c.Own.ra()) {
		panic(fmt.Sprintf("C12 harness: spec.iface() and spec.ra() disagree:\n%#v\n%#v", own, c.Own.ra()))
	}
	recv, err := c12Wire(c.Recv.ra())
	if err != nil {
		panic(fmt.Sprintf("C12 harness: received RA does not round-trip: %v", err))
	}
	want, hopDC := c12Expected(c.Own, c.Recv)
	want = c12Filter(want, hopDC)

	// 1. verifyRAs directly.
	var got []string
	var pv any
	func() {
		defer func() { pv = recover() }()
		for _, p := range verifyRAs(own, recv) {
			got = append(got, p.Field+"|"+p.Details)
		}
	}()
	if pv != nil {
		add("C12:panic", "verifyRAs panicked: %v", pv)
		return out
	}
	got = c12Filter(got, hopDC)
	classify := func(want, got []string) (string, string) {
		wc, gc := map[string]int{}, map[string]int{}
		for _, w := range want {
			wc[w]++
		}
		for _, g := range got {
			gc[g]++
		}
		for k, n := range gc {
			if n > wc[k] {
				return "C12:false-report:" + strings.Split(k, "|")[0], k
			}
		}
		for k, n := range wc {
			if n > gc[k] {
				return "C12:missed-report:" + strings.Split(k, "|")[0], k
			}
		}
		return "", ""
	}
	if sig, k := classify(want, got); sig != "" {
		add(sig, "verifyRAs: %s: got %v want %v", k, got, want)
	}

	// 2. Through Advertiser.handle: log lines, counters, hook - on a forwarding interface
	// and on one that is not (its own RA then has router lifetime 0, which 6.2.7 does not
	// compare: every other inconsistency is reported all the same).
	for _, fwd := range []bool{true, false} {
		var logb bytes.Buffer
		mem := metricslite.NewMemory()
		mm := NewMetrics(mem, "test", time.Time{}, system.TestState{Forwarding: fwd}, []config.Interface{ifi})
		cctx := NewContext(log.New(&logb, "", 0), mm, system.TestState{Forwarding: fwd})
		a := NewAdvertiser(cctx, ifi, nil, nil, func() bool { return false })
		hook := 0
		a.OnInconsistentRA = func(ours, theirs *ndp.RouterAdvertisement) { hook++ }
		func() {
			defer func() { pv = recover() }()
			ip, herr := a.handle(recv, netip.MustParseAddr("fe80::2"))
			if herr != nil || ip.IsValid() {
				add("C12:handle-result", "handle returned (%v, %v) for a received RA", ip, herr)
			}
		}()
		if pv != nil {
			add("C12:panic", "handle panicked: %v", pv)
			return out
		}
		var counted []string
		logged := c12LoggedProblems(strings.Split(logb.String(), "\n"), "", want)
		for k, v := range mem.Series()[advInconsistencies].Samples {
			// interface=eth0,details=...,field=...
			var field, details string
			for _, kv := range strings.Split(k, ",") {
				if strings.HasPrefix(kv, "field=") {
					field = kv[6:]
				}
				if strings.HasPrefix(kv, "details=") {
					details = kv[8:]
				}
			}
			for i := 0; i < int(v); i++ {
				counted = append(counted, field+"|"+details)
			}
		}
		logged, counted = c12Filter(logged, hopDC), c12Filter(counted, hopDC)
		if sig, k := classify(want, logged); sig != "" {
			add(strings.Replace(sig, "C12:", "C12:log:", 1), "log lines: %s: got %v want %v\n%s", k, logged, want, logb.String())
		}
		if sig, k := classify(want, counted); sig != "" {
			add(strings.Replace(sig, "C12:", "C12:metric:", 1), "inconsistencies_total: %s: got %v want %v", k, counted, want)
		}
		if !hopDC {
			if (len(want) > 0) != (hook > 0) || hook > 1 {
				add("C12:hook", "OnInconsistentRA fired %d time(s) with %d expected problem(s)", hook, len(want))
			}
		}
	}
	return out
}

type c12Aspect struct {
	Name  string
	Pairs [][2]func(s *c12Spec)
}

func c12Aspects() []c12Aspect {
	prod := func(vals ...func(s *c12Spec)) [][2]func(s *c12Spec) {
		var out [][2]func(s *c12Spec)
		for _, a := range vals {
			for _, b := range vals {
				out = append(out, [2]func(s *c12Spec){a, b})
			}
		}
		return out
	}
	cross := func(own, recv []func(s *c12Spec)) [][2]func(s *c12Spec) {
		var out [][2]func(s *c12Spec)
		for _, a := range own {
			for _, b := range recv {
				out = append(out, [2]func(s *c12Spec){a, b}, [2]func(s *c12Spec){b, a})
			}
		}
		return out
	}
	const P1, P2, P148 = "2001:db8:1::/64", "2001:db8:2::/64", "2001:db8:1::/48"
	const R1, R2, R156 = "2001:db8:f000::/48", "2001:db8:e000::/48", "2001:db8:f000::/56"
	const S1, S2, S3 = "2001:db8::53", "2001:db8::54", "fd00::53"
	pf := func(ps ...c12Pfx) func(*c12Spec) { return func(s *c12Spec) { s.Prefixes = ps } }
	rt := func(rs ...c12Rt) func(*c12Spec) { return func(s *c12Spec) { s.Routes = rs } }
	dn := func(ds ...c12DNS) func(*c12Spec) { return func(s *c12Spec) { s.RDNSS = ds } }
	sl := func(ds ...c12SL) func(*c12Spec) { return func(s *c12Spec) { s.DNSSL = ds } }
	return []c12Aspect{
		{"hop_limit", prod(func(s *c12Spec) { s.Hop = 0 }, func(s *c12Spec) { s.Hop = 64 }, func(s *c12Spec) { s.Hop = 65 })},
		{"managed", prod(func(s *c12Spec) { s.M = false }, func(s *c12Spec) { s.M = true })},
		{"other", prod(func(s *c12Spec) { s.O = false }, func(s *c12Spec) { s.O = true })},
		{"reachable", prod(func(s *c12Spec) { s.Reach = 0 }, func(s *c12Spec) { s.Reach = 1 }, func(s *c12Spec) { s.Reach = 3 }, func(s *c12Spec) { s.Reach = 4 }, func(s *c12Spec) { s.Reach = 6 }, func(s *c12Spec) { s.Reach = 120 })},
		{"retransmit", prod(func(s *c12Spec) { s.Retrans = 0 }, func(s *c12Spec) { s.Retrans = 1 }, func(s *c12Spec) { s.Retrans = 3 }, func(s *c12Spec) { s.Retrans = 4 }, func(s *c12Spec) { s.Retrans = 6 }, func(s *c12Spec) { s.Retrans = 122 })},
		{"mtu", prod(func(s *c12Spec) { s.MTU = 0 }, func(s *c12Spec) { s.MTU = 1500 }, func(s *c12Spec) { s.MTU = 1280 })},
		{"prefix", cross(
			[]func(*c12Spec){pf(), pf(c12Pfx{P1, 100, 50}), pf(c12Pfx{P1, 100, 50}, c12Pfx{P2, 200, 100}), pf(c12Pfx{P148, 100, 50}, c12Pfx{P1, 100, 50})},
			[]func(*c12Spec){pf(), pf(c12Pfx{P1, 100, 50}), pf(c12Pfx{P1, 100, 60}), pf(c12Pfx{P1, 110, 50}), pf(c12Pfx{P1, 110, 60}), pf(c12Pfx{P2, 200, 100}),
				pf(c12Pfx{P1, 100, 50}, c12Pfx{P2, 200, 100}), pf(c12Pfx{P1, 100, 50}, c12Pfx{P2, 200, 90}), pf(c12Pfx{P148, 100, 60}), pf(c12Pfx{P2, 210, 100}, c12Pfx{P1, 100, 50}),
				// differences of exactly one second
				pf(c12Pfx{P1, 101, 50}), pf(c12Pfx{P1, 100, 51}), pf(c12Pfx{P1, 99, 49}),
				// the same base address with two lengths in one RA (a /64 and its covering /48), both orders
				pf(c12Pfx{P1, 110, 60}, c12Pfx{P148, 100, 50}), pf(c12Pfx{P148, 100, 50}, c12Pfx{P1, 110, 60}), pf(c12Pfx{P148, 120, 50}, c12Pfx{P1, 100, 50})})},
		{"route", cross(
			[]func(*c12Spec){rt(), rt(c12Rt{R1, "medium", 100}), rt(c12Rt{R1, "medium", 100}, c12Rt{R2, "high", 50}), rt(c12Rt{R156, "medium", 100}, c12Rt{R1, "medium", 100})},
			[]func(*c12Spec){rt(), rt(c12Rt{R1, "medium", 100}), rt(c12Rt{R1, "medium", 90}), rt(c12Rt{R1, "high", 90}), rt(c12Rt{R1, "high", 100}), rt(c12Rt{R2, "high", 50}),
				rt(c12Rt{R2, "high", 40}, c12Rt{R1, "medium", 100}), rt(c12Rt{R156, "medium", 90}), rt(c12Rt{R2, "low", 40}), rt(c12Rt{R1, "medium", 101}), rt(c12Rt{R1, "medium", 99}),
				rt(c12Rt{R1, "medium", 90}, c12Rt{R156, "medium", 100}), rt(c12Rt{R156, "medium", 100}, c12Rt{R1, "medium", 90}), rt(c12Rt{R156, "medium", 80}, c12Rt{R1, "medium", 100})})},
		{"rdnss", cross(
			[]func(*c12Spec){dn(), dn(c12DNS{100, []string{S1, S2}}), dn(c12DNS{100, []string{S1}}, c12DNS{50, []string{S2}}), dn(c12DNS{100, []string{S1}}, c12DNS{100, []string{S1}})},
			[]func(*c12Spec){dn(), dn(c12DNS{100, []string{S1, S2}}), dn(c12DNS{90, []string{S1, S2}}), dn(c12DNS{100, []string{S1, S3}}), dn(c12DNS{100, []string{S1}}),
				dn(c12DNS{100, []string{S2, S1}}), dn(c12DNS{100, []string{S1}}, c12DNS{50, []string{S2}}), dn(c12DNS{100, []string{S1}}, c12DNS{60, []string{S3}}), dn(c12DNS{90, []string{S1, S3}}),
				dn(c12DNS{50, []string{S2}}, c12DNS{100, []string{S1}}), dn(c12DNS{101, []string{S1, S2}}), dn(c12DNS{99, []string{S1, S2}}),
				// two options with the *same* inconsistency each: one report per option
				dn(c12DNS{90, []string{S1}}, c12DNS{90, []string{S1}}), dn(c12DNS{100, []string{S3}}, c12DNS{100, []string{S3}}), dn(c12DNS{90, []string{S1}}, c12DNS{40, []string{S2}})})},
		{"dnssl", cross(
			[]func(*c12Spec){sl(), sl(c12SL{100, []string{"a.example", "b.example"}}), sl(c12SL{100, []string{"a.example"}}, c12SL{50, []string{"b.example"}}), sl(c12SL{100, []string{"a.example"}}, c12SL{100, []string{"a.example"}})},
			[]func(*c12Spec){sl(), sl(c12SL{100, []string{"a.example", "b.example"}}), sl(c12SL{90, []string{"a.example", "b.example"}}), sl(c12SL{100, []string{"a.example", "c.example"}}),
				sl(c12SL{100, []string{"a.example"}}), sl(c12SL{100, []string{"b.example", "a.example"}}), sl(c12SL{100, []string{"a.example"}}, c12SL{50, []string{"b.example"}}),
				sl(c12SL{100, []string{"a.example"}}, c12SL{60, []string{"c.example"}}), sl(c12SL{90, []string{"a.example", "c.example"}}),
				sl(c12SL{90, []string{"a.example"}}, c12SL{90, []string{"a.example"}}), sl(c12SL{100, []string{"c.example"}}, c12SL{100, []string{"c.example"}})})},
		{"captive_portal", prod(func(s *c12Spec) { s.CP = "" }, func(s *c12Spec) { s.CP = "https://portal.example/a" }, func(s *c12Spec) { s.CP = "https://portal.example/b" })},
	}
}

func c12Bases() [][2]c12Spec {
	full := c12Spec{Hop: 64, Reach: 1, Retrans: 1, MTU: 1500,
		Prefixes: []c12Pfx{{"2001:db8:1::/64", 100, 50}}, Routes: []c12Rt{{"2001:db8:f000::/48", "medium", 100}},
		RDNSS: []c12DNS{{100, []string{"2001:db8::53", "2001:db8::54"}}}, DNSSL: []c12SL{{100, []string{"a.example", "b.example"}}},
		CP: "https://portal.example/a", PREF64: "64:ff9b::/96"}
	fo, fr := full, full
	fo.MAC, fr.MAC = "02:00:00:00:00:01", "02:00:00:00:00:99"
	fr.PREF64 = "2001:db8:64::/96"
	min := c12Spec{Hop: 64}
	mo, mr := min, min
	mr.MAC = "02:00:00:00:00:99"
	return [][2]c12Spec{{fo, fr}, {mo, mr}}
}

func TestVerifC12(t *testing.T) {
	r := ev.Begin("C12", "pairs")
	defer r.End(t)
	r.Rule = "pairs (own RA, received RA): for each of 11 aspects (hop limit, M, O, reachable and retransmit timer {0, 250ms, 750ms, 1s, 1.5s, 30s/30.5s}, MTU, prefixes, routes, RDNSS, DNSSL, captive portal) the full product of a small value domain (absent / equal / different lifetime, contents, count, order, preference, prefix length; both directions) with the other aspects equal (from a full and a minimal base), plus every aspect different at once and all-but-one (up to 17 inconsistencies in one RA) - quick; all pairs of aspects, full product of both - thorough; the received RA always passes through ndp.MarshalMessage/ParseMessage; checked on verifyRAs and through Advertiser.handle on a forwarding and on a non-forwarding interface (log lines, inconsistencies_total, hook); non-trivial = the two RAs differ in at least one compared aspect or share an option kind; distinct = distinct (own, received)"
	r.Assumptions = []string{"a difference in hop limit where one side is 0 (unspecified) is a don't-care: RFC 4861 exempts it, the statement says 'differing'"}

	if r.Replay != nil {
		var c c12Case
		if err := json.Unmarshal(r.Replay, &c); err != nil {
			t.Fatalf("bad replay: %v", err)
		}
		r.Case(ev.JSON(c), true)
		r.Sample(c)
		for _, v := range c12Check(c) {
			r.Violation(v[0], v[1], c)
		}
		return
	}
	asp := c12Aspects()
	one := func(vary []string, own, recv c12Spec) {
		c := c12Case{Vary: vary, Own: own, Recv: recv}
		k := ev.JSON([]c12Spec{own, recv})
		if !r.MineKey(k) {
			return
		}
		r.Case(k, true)
		r.Sample(c)
		for _, v := range c12Check(c) {
			r.Violation(v[0], v[1], c)
		}
	}
	// Everything different at once (and all-but-one aspect): many inconsistencies in one RA,
	// each of them reported and counted.
	{
		b := c12Bases()[0]
		for skip := -1; skip < len(asp); skip++ {
			own, recv := b[0], b[1]
			own.Prefixes = []c12Pfx{{"2001:db8:1::/64", 100, 50}, {"2001:db8:2::/64", 200, 100}}
			own.Routes = []c12Rt{{"2001:db8:f000::/48", "medium", 100}, {"2001:db8:e000::/48", "high", 50}}
			own.RDNSS = []c12DNS{{100, []string{"2001:db8::53"}}, {50, []string{"2001:db8::54"}}}
			recv = own
			recv.MAC, recv.PREF64 = b[1].MAC, b[1].PREF64
			diff := []func(){
				func() { recv.Hop = 65 }, func() { recv.M = !own.M }, func() { recv.O = !own.O }, func() { recv.Reach = 2 }, func() { recv.Retrans = 2 },
				func() { recv.MTU = 1280 },
				func() { recv.Prefixes = []c12Pfx{{"2001:db8:1::/64", 110, 60}, {"2001:db8:2::/64", 210, 90}} },
				func() {
					recv.Routes = []c12Rt{{"2001:db8:f000::/48", "medium", 90}, {"2001:db8:e000::/48", "high", 40}}
				},
				func() { recv.RDNSS = []c12DNS{{90, []string{"fd00::53"}}, {40, []string{"fd00::53"}}} },
				func() { recv.DNSSL = []c12SL{{90, []string{"a.example", "c.example"}}} },
				func() { recv.CP = "https://portal.example/b" },
			}
			for i, f := range diff {
				if i != skip {
					f()
				}
			}
			one([]string{"many", fmt.Sprint("all-but-", skip)}, own, recv)
		}
	}
	for _, b := range c12Bases() {
		one(nil, b[0], b[1])
		// own vs its own wire form.
		one([]string{"self"}, b[0], b[0])
		for i, a := range asp {
			for _, p := range a.Pairs {
				own, recv := b[0], b[1]
				p[0](&own)
				p[1](&recv)
				one([]string{a.Name}, own, recv)
			}
			if !r.Thorough() {
				continue
			}
			for _, a2 := range asp[i+1:] {
				for _, p := range a.Pairs {
					for _, q := range a2.Pairs {
						own, recv := b[0], b[1]
						p[0](&own)
						p[1](&recv)
						q[0](&own)
						q[1](&recv)
						one([]string{a.Name, a2.Name}, own, recv)
					}
				}
			}
		}
	}
}

// c12Fields are the labels under which inconsistencies are reported.
var c12Fields = []string{"hop_limit", "managed_configuration", "other_configuration", "reachable_time", "retransmit_timer", "mtu",
	"prefix_information_preferred_lifetime", "prefix_information_valid_lifetime", "route_information_lifetime",
	"rdnss_count", "rdnss_lifetime", "rdnss_servers", "dnssl_count", "dnssl_lifetime", "dnssl_domain_names", "captive_portal"}

// c12LoggedProblems reads the log the way an operator does, without depending on its
// layout: a line (of the interface, when prefix is given) that names exactly one field
// label reports that inconsistency; its details are the expected detail string (a prefix
// in CIDR form) it contains, if any. Lines naming no field (the summary line) are ignored.
func c12LoggedProblems(lines []string, prefix string, want []string) []string {
	details := map[string]bool{}
	for _, w := range want {
		if d := w[strings.Index(w, "|")+1:]; d != "" {
			details[d] = true
		}
	}
	for _, d := range []string{"2001:db8:1::/64", "2001:db8:2::/64", "2001:db8:1::/48", "2001:db8:f000::/48", "2001:db8:e000::/48", "2001:db8:f000::/56"} {
		details[d] = true
	}
	isWord := func(b byte) bool { return b == '_' || (b >= 'a' && b <= 'z') || (b >= '0' && b <= '9') }
	var out []string
	for _, ln := range lines {
		if prefix != "" && !strings.HasPrefix(ln, prefix) {
			continue
		}
		var found []string
		for _, f := range c12Fields {
			for i := strings.Index(ln, f); i >= 0; {
				before := i == 0 || !isWord(ln[i-1])
				after := i+len(f) == len(ln) || !isWord(ln[i+len(f)])
				if before && after {
					found = append(found, f)
					break
				}
				j := strings.Index(ln[i+1:], f)
				if j < 0 {
					break
				}
				i += 1 + j
			}
		}
		if len(found) != 1 {
			continue
		}
		d := ""
		for k := range details {
			if strings.Contains(ln, k) && len(k) > len(d) {
				d = k
			}
		}
		if found[0] != "prefix_information_preferred_lifetime" && found[0] != "prefix_information_valid_lifetime" && found[0] != "route_information_lifetime" {
			d = ""
		}
		out = append(out, found[0]+"|"+d)
	}
	return out
}
