//go:build verif && !vsched

package corerad

import (
	"context"
	"fmt"
	"io"
	"log"
	"net/netip"
	"runtime"
	"testing"
	"time"

	"github.com/mdlayher/corerad/internal/system"
	"github.com/mdlayher/corerad/verifrt/ev"
	"github.com/mdlayher/metricslite"
	"github.com/mdlayher/ndp"
	"golang.org/x/net/ipv6"
)

// C09, "no number ... of them stops the advertiser / monitor", for numbers far beyond what
// the sequence parts run: a resource that grows with every consecutive invalid message
// (call-stack depth of the receive path, observed from inside the connection's ReadFrom)
// ends the process at some run length. Runs of N invalid messages followed by a valid one
// go through the real listener; the depth at which ReadFrom is called must not depend on
// how many invalid messages came before.

type depthConn struct {
	script []c09Msg
	i      int
	depths []int
	done   chan struct{}
}

func (c *depthConn) ReadFrom() (ndp.Message, *ipv6.ControlMessage, netip.Addr, error) {
	var pcs [64]uintptr
	n := runtime.Callers(0, pcs[:])
	if n == len(pcs) {
		// deeper than the buffer: count exactly
		big := make([]uintptr, 1<<16)
		n = runtime.Callers(0, big)
	}
	c.depths = append(c.depths, n)
	if c.i >= len(c.script) {
		select {
		case <-c.done:
		default:
			close(c.done)
		}
		return nil, nil, netip.Addr{}, context.Canceled
	}
	m := c.script[c.i].in()
	c.i++
	if m.err != nil {
		return nil, nil, netip.Addr{}, m.err
	}
	return m.m, &ipv6.ControlMessage{HopLimit: m.hop}, m.from, nil
}
func (c *depthConn) SetReadDeadline(time.Time) error                             { return nil }
func (c *depthConn) WriteTo(ndp.Message, *ipv6.ControlMessage, netip.Addr) error { return nil }

func TestVerifC09Stack(t *testing.T) {
	r := ev.Begin("C09", "depth")
	defer r.End(t)
	r.Rule = "runs of N in {1, 10, 100, 1000, 5000} consecutive invalid messages (bad-hop RS, bad-hop RA, alternating) followed by a valid RS through the real listener.Listen over a scripted connection (no scheduler, no clock); oracle: the call-stack depth at which the connection's ReadFrom is entered is the same for every message of the run (a per-message growth ends the process at some run length), every valid message is delivered, none of the invalid ones; non-trivial = every run; distinct = distinct (N, kind)"
	for _, n := range []int{1, 10, 100, 1000, 5000} {
		for _, kind := range []string{"rs", "ra", "mixed"} {
			var script []c09Msg
			for j := 0; j < n; j++ {
				switch {
				case kind == "rs" || (kind == "mixed" && j%2 == 0):
					script = append(script, c09Msg{Type: "RS", Hop: 64})
				default:
					script = append(script, c09Msg{Type: "RA", Hop: 1})
				}
			}
			script = append(script, c09Msg{Type: "RS", Hop: 255})
			conn := &depthConn{script: script, done: make(chan struct{})}
			mem := metricslite.NewMemory()
			st := system.TestState{Forwarding: true}
			cctx := NewContext(log.New(io.Discard, "", 0), NewMetrics(mem, "verif", time.Time{}, st, nil), st)
			l := newListener(cctx, "eth0", conn)
			delivered := 0
			ctx, cancel := context.WithCancel(context.Background())
			errC := make(chan error, 1)
			go func() {
				errC <- l.Listen(ctx, func(msg message) error { delivered++; return nil })
			}()
			name := fmt.Sprintf("%d x %s", n, kind)
			r.Case(name, true)
			select {
			case <-conn.done:
				cancel()
				<-errC
			case err := <-errC:
				cancel()
				r.Violation("C09:depth:listener-stopped", fmt.Sprintf("%s: the listener stopped (%v) after reading %d of %d messages", name, err, len(conn.depths), n+1), nil)
				continue
			}
			if delivered != 1 {
				r.Violation("C09:depth:delivery", fmt.Sprintf("%s: %d messages delivered, want exactly the valid one", name, delivered), nil)
			}
			if len(conn.depths) < n+1 {
				r.Violation("C09:depth:not-read", fmt.Sprintf("%s: only %d of %d messages were read", name, len(conn.depths), n+1), nil)
				continue
			}
			if d0, dn := conn.depths[0], conn.depths[n]; dn != d0 {
				r.Violation("C09:depth:stack-grows-with-invalid-messages", fmt.Sprintf("%s: ReadFrom entered at call depth %d for the first message and %d after %d consecutive invalid ones: every invalid message costs stack, a long enough run ends the process", name, d0, dn, n), nil)
			}
		}
	}
}
