//go:build verif

package corerad

import (
	"encoding/json"
	"fmt"
	"net/netip"
	"os"
	"reflect"
	"sort"
	"strconv"
	"strings"
	"sync"
	"testing"
	"time"

	"github.com/mdlayher/corerad/internal/netstate"
	"github.com/mdlayher/corerad/verifrt/enum"
	"github.com/mdlayher/corerad/verifrt/ev"
	"github.com/mdlayher/corerad/verifrt/vsched"
	"github.com/mdlayher/ndp"
)

// C18: the monitor never fails and its eight series describe every received
// message exactly (counter by interface / sender without zone / type; RA flag
// gauges; default-route expiry only for non-zero lifetime; per-prefix flags and
// expiry timestamps = receipt time + lifetime, labelled by the CIDR).

type c18Msg struct {
	Type     string        `json:"type"` // RA RS NS NA
	M, O     bool          `json:"-"`
	Flags    string        `json:"flags,omitempty"`
	Life     int           `json:"router_lifetime_s,omitempty"`
	Prefixes string        `json:"prefixes,omitempty"` // none | p1 | p1inf | p1p2 | p1host | p1b
	Unknown  bool          `json:"unknown_option,omitempty"`
	Sender   string        `json:"sender"`
	Gap      time.Duration `json:"gap"`
	// Burst: this many copies arrive back to back (already queued on the socket
	// before the monitor reads the first one).
	Burst int `json:"burst,omitempty"`
	// AtFlap: the message reaches the socket at the instant the link goes down (the
	// monitor is being torn down while the read returns it). If ReadFrom hands it to the
	// monitor it is counted like any other; if it is never read it is not.
	AtFlap bool `json:"at_link_flap,omitempty"`
}

type c18Pfx struct {
	addr         string
	bits         int
	onlink, auto bool
	valid, pref  time.Duration
}

func c18Prefixes(kind string) []c18Pfx {
	p1 := c18Pfx{"2001:db8:1::", 64, true, true, 10 * time.Second, 5 * time.Second}
	p2 := c18Pfx{"2001:db8:2::", 64, false, true, 100 * time.Second, 50 * time.Second}
	switch kind {
	case "p1":
		return []c18Pfx{p1}
	case "p1b": // same prefix, other lifetimes and flags
		return []c18Pfx{{"2001:db8:1::", 64, false, false, 20 * time.Second, 20 * time.Second}}
	case "p1inf":
		return []c18Pfx{{"2001:db8:1::", 64, true, false, ndp.Infinity, 0}}
	case "p1p2":
		return []c18Pfx{p1, p2}
	case "p1host":
		return []c18Pfx{{"2001:db8:1::5", 64, true, true, 10 * time.Second, 5 * time.Second}}
	case "pgtv": // preferred lifetime longer than the valid one (malformed by RFC 4861, still an option received)
		return []c18Pfx{{"2001:db8:1::", 64, true, true, 60 * time.Second, 120 * time.Second}}
	case "v0pinf": // withdrawn prefix whose preferred lifetime is infinity
		return []c18Pfx{{"2001:db8:1::", 64, true, false, 0, ndp.Infinity}}
	case "p1p1b": // the same prefix twice in one RA: each option sets the gauges in turn
		return []c18Pfx{p1, {"2001:db8:1::", 64, false, false, 20 * time.Second, 20 * time.Second}}
	case "p148":
		return []c18Pfx{{"2001:db8:1::", 48, true, true, 10 * time.Second, 5 * time.Second}}
	case "badlen+p2":
		// A prefix option whose length byte is 200 on the wire (package ndp parses it:
		// the address comes out invalid), followed by a well-formed one.
		return []c18Pfx{{"2001:db8:7::", 200, true, true, 10 * time.Second, 5 * time.Second}, p2}
	}
	return nil
}

func (m c18Msg) in() inMsg {
	var msg ndp.Message
	switch m.Type {
	case "RA":
		ra := &ndp.RouterAdvertisement{CurrentHopLimit: 64, ManagedConfiguration: strings.Contains(m.Flags, "M"), OtherConfiguration: strings.Contains(m.Flags, "O"),
			RouterLifetime: time.Duration(m.Life) * time.Second}
		if m.Unknown {
			ra.Options = append(ra.Options, &ndp.RawOption{Type: 200, Length: 1, Value: []byte{1, 2, 3, 4, 5, 6}})
		}
		patch := -1
		for i, p := range c18Prefixes(m.Prefixes) {
			bits := p.bits
			if bits > 128 {
				bits, patch = 64, i
			}
			ra.Options = append(ra.Options, &ndp.PrefixInformation{PrefixLength: uint8(bits), OnLink: p.onlink, AutonomousAddressConfiguration: p.auto,
				ValidLifetime: p.valid, PreferredLifetime: p.pref, Prefix: netip.MustParseAddr(p.addr)})
		}
		ra.Options = append(ra.Options, ndp.NewMTU(1500))
		msg = ra
		if patch >= 0 {
			// Only the wire can carry an out-of-range length: marshal, patch the byte, parse.
			b, err := ndp.MarshalMessage(ra)
			if err != nil {
				panic(err)
			}
			off := 4 + 12 // ICMPv6 header + RA fields
			if m.Unknown {
				off += 8
			}
			off += 32*patch + 2 // option type, option length, then the prefix length
			if b[off-2] != 3 || b[off] != 64 {
				panic(fmt.Sprintf("verif: prefix option not where expected: % x", b))
			}
			b[off] = byte(c18Prefixes(m.Prefixes)[patch].bits)
			pm, err := ndp.ParseMessage(b)
			if err != nil {
				panic(fmt.Sprintf("verif: ndp no longer parses a prefix length of 200: %v", err))
			}
			msg = pm
		}
	case "RS":
		msg = &ndp.RouterSolicitation{}
	case "NS":
		msg = &ndp.NeighborSolicitation{TargetAddress: netip.MustParseAddr("fe80::9")}
	case "NA":
		msg = &ndp.NeighborAdvertisement{TargetAddress: netip.MustParseAddr("fe80::9")}
	}
	return inMsg{m: msg, hop: 255, from: netip.MustParseAddr(m.Sender)}
}

func (m c18Msg) String() string {
	if m.Type == "FLAP" || m.Type == "CLOCK-BACK" {
		return m.Type + "+" + m.Gap.String()
	}
	s := m.Type
	if m.AtFlap {
		s = "FLAP&" + s
	}
	if m.Type == "RA" {
		s += fmt.Sprintf("[%s life=%d %s unk=%t]", m.Flags, m.Life, m.Prefixes, m.Unknown)
	}
	return fmt.Sprintf("%s<%s+%s", s, m.Sender, m.Gap)
}

// c18Model is the reference: a map per series.
type c18Model map[string]map[string]float64

var c18Series = []string{monReceived, monFlagManaged, monFlagOther, monDefaultRoute, monPrefixAutonomous, monPrefixOnLink, monPrefixPreferred, monPrefixValid}

func newC18Model() c18Model {
	m := c18Model{}
	for _, s := range c18Series {
		m[s] = map[string]float64{}
	}
	return m
}

func b2f(b bool) float64 {
	if b {
		return 1
	}
	return 0
}

func (md c18Model) apply(m c18Msg, at time.Time) {
	host := netip.MustParseAddr(m.Sender).WithZone("").String()
	typ := map[string]string{"RS": "router solicitation", "RA": "router advertisement", "NS": "neighbor solicitation", "NA": "neighbor advertisement"}[m.Type]
	md[monReceived]["interface=eth0,host="+host+",message="+typ]++
	if m.Type != "RA" {
		return
	}
	rk := "interface=eth0,router=" + host
	md[monFlagManaged][rk] = b2f(strings.Contains(m.Flags, "M"))
	md[monFlagOther][rk] = b2f(strings.Contains(m.Flags, "O"))
	if m.Life != 0 {
		md[monDefaultRoute][rk] = float64(at.Add(time.Duration(m.Life) * time.Second).Unix())
	}
	for _, p := range c18Prefixes(m.Prefixes) {
		if p.bits > 128 {
			continue // no CIDR form exists: how (and whether) it is labelled is not fixed; see c18Run
		}
		pk := "interface=eth0,prefix=" + netip.PrefixFrom(netip.MustParseAddr(p.addr), p.bits).String() + ",router=" + host
		md[monPrefixAutonomous][pk] = b2f(p.auto)
		md[monPrefixOnLink][pk] = b2f(p.onlink)
		md[monPrefixPreferred][pk] = float64(at.Add(p.pref).Unix())
		md[monPrefixValid][pk] = float64(at.Add(p.valid).Unix())
	}
}

type c18Case struct {
	Seq     []c18Msg `json:"messages"`
	Choices []int    `json:"choices,omitempty"`
	// Step: every reading of the monitor's clock is this much later than the previous one
	// (time passes while a message is handled): all timestamps of one message are still
	// "receipt time + lifetime" for ONE receipt time.
	Step time.Duration `json:"clock_step,omitempty"`
}

func (md c18Model) clone() c18Model {
	out := c18Model{}
	for k, v := range md {
		out[k] = map[string]float64{}
		for kk, vv := range v {
			out[k][kk] = vv
		}
	}
	return out
}

func (c c18Case) String() string {
	var s []string
	if c.Step > 0 {
		s = append(s, "clock-step="+c.Step.String())
	}
	for _, m := range c.Seq {
		s = append(s, m.String())
	}
	return strings.Join(s, " ; ")
}

func c18Run(t *testing.T, c c18Case) (x *vsched.Exec, out [][2]string) {
	sc := c18Scenario(c, &out)
	x = vsched.RunOnce(t, sc, c.Choices)
	if x.Failure != "" {
		out = append(out, [2]string{"C18:" + x.FailKind, x.Failure})
	}
	return x, out
}

// c18Scenario: *outp is reset at the start of every execution and holds that
// execution's findings at its end.
func c18Scenario(c c18Case, outp *[][2]string) *vsched.Scenario {
	bad := func(sig, format string, a ...any) {
		*outp = append(*outp, [2]string{sig, fmt.Sprintf(format, a...)})
	}
	sc := &vsched.Scenario{
		Name:    "c18",
		Horizon: 10 * time.Minute,
		Setup: func(x *vsched.Exec) {
			*outp = nil
			m := newMonWorld("eth0", true)
			// The monitor's wall clock: the virtual clock plus a skew the script can step
			// backwards ("forall receipt times": they need not be monotonic).
			var skew time.Duration
			m.mon.now = func() time.Time { return time.Now().Add(skew) }
			var (
				rmu      sync.Mutex
				readings []time.Time
			)
			if c.Step > 0 {
				base := time.Now()
				m.mon.now = func() time.Time {
					rmu.Lock()
					defer rmu.Unlock()
					t := base.Add(skew + time.Duration(len(readings))*c.Step)
					readings = append(readings, t)
					return t
				}
			}
			x.Spawn("monitor", m.run)
			x.Spawn("driver", func() {
				defer m.done()
				vsched.Sleep(time.Second)
				model := newC18Model()
				for i, msg := range c.Seq {
					vsched.Sleep(msg.Gap)
					if msg.Type == "CLOCK-BACK" {
						skew -= 10 * time.Minute // the wall clock is stepped back by ten minutes
						continue
					}
					if msg.Type == "FLAP" {
						// The link goes down: the monitor re-initialises; what it has
						// exported stays, and what arrives afterwards is counted as before.
						vsched.Send("harness:link-change", m.watchC, netstate.LinkDown)
						vsched.Sleep(100 * time.Millisecond)
						continue
					}
					at := time.Now().Add(skew)
					n := 1
					if msg.Burst > 1 {
						n = msg.Burst
					}
					if msg.AtFlap {
						before := m.reads()
						m.inject(msg.in())
						vsched.Send("harness:link-change", m.watchC, netstate.LinkDown)
						vsched.Sleep(100 * time.Millisecond)
						if m.reads() > before {
							model.apply(msg, at)
						}
						n = 0
					}
					var cands []c18Model
					if c.Step > 0 {
						// The receipt time is one of the readings the monitor takes while it handles
						// this message (or, if it takes none, the next one it would get).
						rmu.Lock()
						r0 := len(readings)
						rmu.Unlock()
						m.inject(msg.in())
						vsched.Sleep(time.Millisecond)
						rmu.Lock()
						rs := append([]time.Time(nil), readings[r0:]...)
						if len(rs) == 0 {
							rs = []time.Time{time.Now().Add(skew + time.Duration(len(readings))*c.Step)}
						}
						rmu.Unlock()
						for _, rt := range rs {
							cm := model.clone()
							cm.apply(msg, rt)
							cands = append(cands, cm)
						}
						n = 0
					}
					for k := 0; k < n; k++ {
						m.inject(msg.in())
						model.apply(msg, at)
					}
					vsched.Sleep(time.Millisecond) // the monitor handles it at the same virtual second
					got := m.mem.Series()
					if len(cands) > 0 {
						// Adopt the candidate that matches everything exported (the first one otherwise).
						model = cands[0]
						for _, cm := range cands {
							ok := true
							for _, name := range c18Series {
								g := map[string]float64{}
								for k, v := range got[name].Samples {
									if !strings.Contains(k, "prefix=invalid") {
										g[k] = v
									}
								}
								if !(len(g) == 0 && len(cm[name]) == 0) && !reflect.DeepEqual(g, cm[name]) {
									ok = false
								}
							}
							if ok {
								model = cm
								break
							}
						}
					}
					for _, name := range c18Series {
						g := map[string]float64{}
						for k, v := range got[name].Samples {
							// A prefix option without a CIDR form (length > 128) is a don't-care.
							if !strings.Contains(k, "prefix=invalid") {
								g[k] = v
							}
						}
						w := model[name]
						if len(g) == 0 && len(w) == 0 {
							continue
						}
						if !reflect.DeepEqual(g, w) {
							short := strings.TrimPrefix(name, "corerad_monitor_")
							var keys []string
							for k := range g {
								keys = append(keys, k)
							}
							for k := range w {
								if _, ok := g[k]; !ok {
									keys = append(keys, k)
								}
							}
							sort.Strings(keys)
							var diff []string
							for _, k := range keys {
								gv, gok := g[k]
								wv, wok := w[k]
								if gok != wok || gv != wv {
									diff = append(diff, fmt.Sprintf("{%s}: got %v(%t) want %v(%t)", k, gv, gok, wv, wok))
								}
							}
							bad("C18:"+short, "after message %d (%s): %s differs: %s", i, msg, name, strings.Join(diff, "; "))
						}
					}
					if ret, err := m.returned(); ret {
						bad("C18:monitor-stopped", "Monitor.Run returned (%v) after message %d (%s)", err, i, msg)
						break
					}
				}
				m.cancel()
				vsched.Sleep(time.Second)
				x.Finish()
			})
		},
	}
	return sc
}

func TestVerifC18(t *testing.T) {
	r := ev.Begin("C18", "messages")
	defer r.End(t)
	r.Rule = "messages fed to the real Monitor.Run (real listener, memory metrics, virtual clock): (a) every single event = message shape (RA: M,O x lifetime {0,30s} x prefixes {none, P1, P1 infinite/zero, P1+P2, P1 with host bits, P1/48, wire-patched length byte 200 followed by P2} x unknown option {no,yes}; RS; NS; NA) x sender {fe80::1%eth0, fe80::1, fe80::2%eth0, 2001:db8::1%eth0, ::%eth0} x gap {0, 1.5s}; (b) all sequences of length<=L over a 18-event sub-alphabet (16 messages + a link flap that makes the monitor re-initialise + the wall clock stepped back by 10 min) chosen so that labels collide (same sender with/without zone, same prefix with other lifetimes/flags, lifetime 0 after non-zero, the same RA again later, RS/NS from an RA's sender); (e) every pair of the sub-alphabet under a clock that advances 400 ms / 1.1 s per reading (all timestamps of one message stem from one of the readings taken while it was handled); (d) 80 and 300 distinct senders on one interface followed by RAs from the last and the first; (c) every pair of the sub-alphabet with one message reaching the socket at the instant of a link flap (counted iff ReadFrom handed it over), and for 6 of them every goroutine schedule with <=2 deviations; oracle: the eight corerad_monitor_* series equal a map-based model after every message, Run never returns; non-trivial = every case; distinct = distinct sequence"
	if r.Replay != nil {
		var c c18Case
		if err := json.Unmarshal(r.Replay, &c); err != nil {
			t.Fatalf("bad replay: %v", err)
		}
		x, vs := c18Run(t, c)
		r.Case(c.String(), true)
		r.Sample(c.String())
		fmt.Printf("case %s\n%s", c, x.LogString())
		for _, v := range vs {
			r.Violation(v[0], v[1], c)
		}
		return
	}
	L := 2
	if r.Thorough() {
		L = 3
	}
	if s := os.Getenv("VERIF_DEPTH"); s != "" {
		L, _ = strconv.Atoi(s)
	}
	idx := 0
	one := func(c c18Case) {
		idx++
		if !r.Mine(idx) {
			return
		}
		x, vs := c18Run(t, c)
		r.Case(c.String(), true)
		r.Count("states", 1)
		r.Count("transitions", int64(x.Steps))
		r.Count("traces_validated_against_impl", 1)
		r.Sample(c.String())
		for _, v := range vs {
			r.Violation(v[0], c.String()+": "+v[1], c)
		}
	}
	senders := []string{"fe80::1%eth0", "fe80::1", "fe80::2%eth0", "2001:db8::1%eth0", "::%eth0"}
	gaps := []time.Duration{0, 1500 * time.Millisecond}
	var shapes []c18Msg
	for _, fl := range []string{"", "M", "O", "MO"} {
		for _, life := range []int{0, 30} {
			for _, pf := range []string{"none", "p1", "p1inf", "p1p2", "p1host", "p148", "badlen+p2", "pgtv", "v0pinf", "p1p1b"} {
				for _, unk := range []bool{false, true} {
					shapes = append(shapes, c18Msg{Type: "RA", Flags: fl, Life: life, Prefixes: pf, Unknown: unk})
				}
			}
		}
	}
	shapes = append(shapes, c18Msg{Type: "RS"}, c18Msg{Type: "NS"}, c18Msg{Type: "NA"})
	for _, sh := range shapes {
		for _, s := range senders {
			for _, g := range gaps {
				m := sh
				m.Sender, m.Gap = s, g
				one(c18Case{Seq: []c18Msg{m}})
			}
		}
	}
	// Bursts: 20 / 40 / 60 messages queued on the socket at one instant.
	for _, n := range []int{20, 40, 60} {
		one(c18Case{Seq: []c18Msg{{Type: "RA", Flags: "M", Life: 30, Prefixes: "p1", Sender: "fe80::1%eth0", Burst: n}, {Type: "RS", Sender: "fe80::3%eth0"}}})
		one(c18Case{Seq: []c18Msg{{Type: "NS", Sender: "fe80::4%eth0", Burst: n}, {Type: "RA", Flags: "O", Life: 0, Prefixes: "p1p2", Sender: "fe80::1%eth0"}}})
	}
	ra := func(fl string, life int, pf, sender string, gap time.Duration) c18Msg {
		return c18Msg{Type: "RA", Flags: fl, Life: life, Prefixes: pf, Sender: sender, Gap: gap}
	}
	sub := []c18Msg{
		ra("M", 30, "p1", "fe80::1%eth0", 0),
		ra("M", 30, "p1", "fe80::1%eth0", 1500*time.Millisecond), // the same RA again, later
		ra("O", 0, "p1b", "fe80::1", 1500*time.Millisecond),      // same router without zone, lifetime 0, other prefix values
		ra("", 30, "p1p2", "fe80::2%eth0", 0),
		ra("MO", 0, "none", "fe80::2%eth0", 1500*time.Millisecond),
		ra("", 30, "p1inf", "fe80::1%eth0", 1500*time.Millisecond),
		ra("", 30, "p1host", "2001:db8::1%eth0", 0),
		ra("M", 60, "p148", "fe80::1%eth0", 0),
		{Type: "RS", Sender: "fe80::1%eth0"},
		{Type: "RS", Sender: "::%eth0", Gap: 1500 * time.Millisecond},
		{Type: "NS", Sender: "fe80::1"},
		{Type: "NS", Sender: "2001:db8::1%eth0", Gap: 1500 * time.Millisecond},
		{Type: "NS", Sender: "2001:db8::1"},
		{Type: "NA", Sender: "fe80::2%eth0"},
		ra("O", 30, "p1", "2001:db8::1", 1500*time.Millisecond),
		ra("M", 30, "p1", "fe80::1%eth0", 3*time.Second),
		{Type: "FLAP", Gap: 500 * time.Millisecond},
		{Type: "CLOCK-BACK", Gap: 500 * time.Millisecond},
	}
	// A message arriving at the instant of a link flap, after and before another message
	// (for every pair of the alphabet).
	for _, m1 := range sub {
		for _, m2 := range sub {
			if m1.Type == "FLAP" || m1.Type == "CLOCK-BACK" || m2.Type == "FLAP" || m2.Type == "CLOCK-BACK" {
				continue
			}
			mf := m2
			mf.AtFlap = true
			one(c18Case{Seq: []c18Msg{m1, mf}})
			one(c18Case{Seq: []c18Msg{mf, m1}})
		}
	}
	// ... and, for a message of each type at the flap, every goroutine schedule with at
	// most 2 deviations from the canonical one (the read returning the message before,
	// while and after the monitor is being torn down).
	nsched := int64(0)
	for _, i := range []int{0, 5, 9, 10, 12, 14} {
		mf := sub[i]
		mf.AtFlap = true
		c := c18Case{Seq: []c18Msg{sub[1], mf, sub[9]}}
		idx++
		if !r.Mine(idx) {
			continue
		}
		var out [][2]string
		sc := c18Scenario(c, &out)
		sc.Check = func(x *vsched.Exec) [][2]string {
			if x.Failure != "" {
				return append(out, [2]string{"C18:" + x.FailKind, x.Failure})
			}
			return out
		}
		st := vsched.Explore(t, sc, vsched.Options{Bound: 2, OnExec: func(x *vsched.Exec, viol [][2]string) {
			nsched++
			r.Case(c.String()+fmt.Sprint(x.Choices()), true)
			for _, v := range viol {
				cc := c
				cc.Choices = x.Choices()
				r.Violation(v[0], c.String()+" schedule "+fmt.Sprint(x.Choices())+": "+v[1], cc)
			}
		}})
		r.Count("states", st.States)
		r.Count("transitions", st.Transitions)
	}
	r.Count("schedules_explored_for_messages_at_a_link_flap", nsched)
	// A clock that advances 400 ms / 1.1 s with every reading, over every pair of the
	// sub-alphabet: the timestamps of one message all stem from one receipt time.
	for _, step := range []time.Duration{400 * time.Millisecond, 1100 * time.Millisecond} {
		for _, m1 := range sub {
			for _, m2 := range sub {
				if m1.Type == "FLAP" || m1.Type == "CLOCK-BACK" || m2.Type == "FLAP" || m2.Type == "CLOCK-BACK" {
					continue
				}
				one(c18Case{Seq: []c18Msg{m1, m2}, Step: step})
			}
		}
	}
	// Many distinct senders on one interface (more than any table or label-cardinality
	// bound would plausibly hold: 80 and 300), each counted under its own address, then an
	// RA from the last one and from the first one.
	for _, n := range []int{80, 300} {
		var c c18Case
		for i := 0; i < n; i++ {
			typ := []string{"RS", "NS", "NA"}[i%3]
			c.Seq = append(c.Seq, c18Msg{Type: typ, Sender: fmt.Sprintf("fe80::%x%%eth0", 0x1000+i)})
		}
		last, first := ra("M", 30, "p1", fmt.Sprintf("fe80::%x%%eth0", 0x1000+n-1), 0), ra("O", 60, "p1p2", "fe80::1000%eth0", 0)
		c.Seq = append(c.Seq, last, first)
		one(c)
	}
	// A message, the clock stepped back, another message (for every pair of the alphabet).
	for _, m1 := range sub {
		for _, m2 := range sub {
			if m1.Type == "FLAP" || m1.Type == "CLOCK-BACK" || m2.Type == "FLAP" || m2.Type == "CLOCK-BACK" {
				continue
			}
			one(c18Case{Seq: []c18Msg{m1, {Type: "CLOCK-BACK", Gap: 500 * time.Millisecond}, m2}})
		}
	}
	enum.Sequences(len(sub), L, func(seq []int) bool {
		if len(seq) < 2 {
			return true
		}
		var c c18Case
		for _, s := range seq {
			c.Seq = append(c.Seq, sub[s])
		}
		one(c)
		return true
	})
	r.Max("max_depth", int64(L))
}
