//go:build verif

package corerad

import (
	"encoding/json"
	"fmt"
	"os"
	"strconv"
	"strings"
	"testing"
	"time"

	"github.com/mdlayher/corerad/verifrt/ev"
	"github.com/mdlayher/corerad/verifrt/vsched"
)

// exploreCases is the common driver of the SCHED harnesses: for every case it
// checks that the default schedule is reproducible, then explores all schedules
// within the deviation bound and records coverage and violations. A replay
// file holds the case and the choice list.
type exploreReplay[T any] struct {
	Case    T     `json:"case"`
	Choices []int `json:"choices"`
}

type exploreOpts struct {
	Bound     int
	NoEnvCost bool
	Budget    time.Duration // per case
}

func exploreCases[T any](t *testing.T, r *ev.Run, cases []T, name func(T) string, build func(T) *vsched.Scenario, opt exploreOpts) {
	if r.Replay != nil {
		var rp exploreReplay[T]
		if err := json.Unmarshal(r.Replay, &rp); err != nil {
			t.Fatalf("bad replay: %v", err)
		}
		sc := build(rp.Case)
		x := vsched.RunOnce(t, sc, rp.Choices)
		r.Case(name(rp.Case)+fmt.Sprint(rp.Choices), true)
		r.Sample(map[string]any{"case": rp.Case, "choices": rp.Choices})
		fmt.Printf("replay %s choices %v\n%s", name(rp.Case), rp.Choices, x.LogString())
		if x.Failure != "" {
			fmt.Printf("failure (%s): %s\n", x.FailKind, x.Failure)
		}
		for _, v := range sc.Check(x) {
			r.Violation(v[0], v[1], rp)
		}
		return
	}
	if s := os.Getenv("VERIF_BOUND"); s != "" {
		opt.Bound, _ = strconv.Atoi(s)
	}
	only := os.Getenv("VERIF_CASE")
	for _, c := range cases {
		c := c
		nm := name(c)
		if only != "" && !strings.Contains(nm, only) {
			continue
		}
		sc := build(c)
		a, b := vsched.RunOnce(t, sc, nil), vsched.RunOnce(t, sc, nil)
		if a.Outcome() != b.Outcome() || fmt.Sprint(a.Choices()) != fmt.Sprint(b.Choices()) {
			r.Violation("MACHINERY:nondeterminism", fmt.Sprintf("case %s: default schedule not reproducible:\n%s\nvs\n%s", nm, a.LogString(), b.LogString()), nil)
			continue
		}
		nex := 0
		st := vsched.Explore(t, sc, vsched.Options{
			Bound: opt.Bound, Shard: r.Shard, Shards: r.Shards, NoEnvCost: opt.NoEnvCost, Budget: opt.Budget,
			OnExec: func(x *vsched.Exec, viol [][2]string) {
				nex++
				r.Case(nm+fmt.Sprint(x.Choices()), true)
				if nex <= 2 {
					r.Sample(map[string]any{"case": nm, "choices": x.Choices(), "log": strings.Split(strings.TrimSpace(x.LogString()), "\n")})
				}
				for _, v := range viol {
					r.Violation(v[0], "case "+nm+": "+v[1]+"\nchoices "+fmt.Sprint(x.Choices())+"\n"+x.LogString(), exploreReplay[T]{Case: c, Choices: x.Choices()})
				}
			},
		})
		r.Count("states", st.States)
		r.Count("transitions", st.Transitions)
		r.Count("traces_validated_against_impl", st.Executions)
		r.Max("max_depth", int64(st.MaxDepth))
		r.Count("leaked_goroutines", st.Leaked)
		r.Count("distinct_outcomes", int64(len(st.Outcomes)))
		r.Note("%s: %d executions, %d distinct observation logs, depth %d", nm, st.Executions, len(st.Outcomes), st.MaxDepth)
		if st.Capped != "" {
			r.Capped(nm + ": " + st.Capped)
		}
	}
	r.Max("max_bound_completed", int64(opt.Bound))
}
