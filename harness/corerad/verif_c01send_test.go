//go:build verif

package corerad

import (
	"encoding/json"
	"fmt"
	"os"
	"reflect"
	"strings"
	"testing"
	"time"

	"github.com/mdlayher/corerad/internal/config"
	"github.com/mdlayher/corerad/internal/netstate"
	"github.com/mdlayher/corerad/internal/system"
	"github.com/mdlayher/corerad/verifrt/ev"
	"github.com/mdlayher/corerad/verifrt/ref"
	"github.com/mdlayher/corerad/verifrt/vsched"
)

// C01, sending path: what the real Advertiser.Run hands to Conn.WriteTo (initial,
// periodic, solicited and final RAs) is the RA the configuration calls for at
// that moment. Binds the pure-function check (part 'build') to the daemon.

type c01SendCase struct {
	Variants []string `json:"stanzas"`
	Fwd      bool     `json:"forwarding"`
}

func c01SendRun(t *testing.T, c c01SendCase) (x *vsched.Exec, out [][2]string) {
	bad := func(sig, format string, a ...any) {
		out = append(out, [2]string{sig, ev.JSON(c) + ": " + fmt.Sprintf(format, a...)})
	}
	cc := c17Case{Variants: c.Variants}
	doc := cc.doc()
	doc.Ifaces = doc.Ifaces[:1]
	doc.Ifaces[0].Scalars["max_interval"] = "4s"
	delete(doc.Ifaces[0].Scalars, "default_lifetime")
	v, wantCfg, why := ref.Parse(doc, c17Epoch)
	if v != ref.Accept {
		panic(why)
	}
	cfg, err := config.Parse(strings.NewReader(doc.TOML()), c17Epoch)
	if err != nil {
		return nil, [][2]string{{"C01:send:config-rejected", err.Error()}}
	}
	var a *advWorld
	sc := &vsched.Scenario{
		Name:    "c01send",
		Horizon: 5 * time.Minute,
		Setup: func(x *vsched.Exec) {
			system.VerifSetAddresser(c17Addresser{})
			a = newAdvWorld(cfg.Interfaces[0], c.Fwd, true)
			x.Spawn("advertiser", a.run)
			x.Spawn("driver", func() {
				defer a.done()
				defer system.VerifSetAddresser(nil)
				vsched.Sleep(3500 * time.Millisecond)
				a.inject(rsFrom("fe80::5", true))
				vsched.Sleep(500 * time.Millisecond)
				// Another router's RA (equal to ours, received through the wire) makes the
				// advertiser build its own RA for the consistency check.
				{
					st := ref.State{Name: "eth0", MAC: a.macOf(0).String(), Forwarding: true, Routes: []string{"2001:db8:f000::/48"}}
					st.Addrs, _ = c17Addresser{}.AddressesByIndex(1)
					st.Clock = a.now()
					if peer, ok := ref.RA(wantCfg.Interfaces[0], &st, c17Epoch); ok {
						if wp, err := c12Wire(peer); err == nil {
							a.inject(inMsg{m: wp, hop: 255, from: rsFrom("fe80::7", false).from})
						}
					}
				}
				vsched.Sleep(4500 * time.Millisecond)
				// A link change: the interface is re-initialised (and has another MAC).
				vsched.Send("harness:link-change", a.watchC, netstate.LinkDown)
				vsched.Sleep(3500 * time.Millisecond)
				a.inject(rsFrom("fe80::6", true))
				vsched.Sleep(time.Second)
				a.term.set(os.Interrupt)
				a.cancel()
				vsched.Sleep(time.Second)
				x.Finish()
			})
		},
	}
	x = vsched.RunOnce(t, sc, nil)
	if x.Failure != "" {
		bad("C01:send:"+x.FailKind, "%s", x.Failure)
		return x, out
	}
	ws := a.Writes()
	if len(ws) < 4 {
		bad("C01:send:too-few", "only %d RAs were transmitted", len(ws))
	}
	rs := ref.State{Name: "eth0", Forwarding: c.Fwd, Routes: []string{"2001:db8:f000::/48"}}
	rs.Addrs, _ = c17Addresser{}.AddressesByIndex(1)
	kinds := map[string]bool{}
	for i, w := range ws {
		rs.Clock = w.T // the bubble's clock starts at the epoch
		rs.MAC = a.macOf(w.Conn).String()
		ifi := wantCfg.Interfaces[0]
		kind := "periodic"
		switch {
		case i == 0 || ws[i-1].Conn != w.Conn:
			kind = "initial"
			if i > 0 {
				kind = "initial-after-reinit"
			}
		case !isAllNodes(w.Dst):
			kind = "solicited"
		case i == len(ws)-1:
			kind = "final"
			ifi.DefaultLifetime = 0
		}
		kinds[kind] = true
		want, ok := ref.RA(ifi, &rs, c17Epoch)
		if !ok {
			bad("C01:send:harness", "reference RA generation failed")
			break
		}
		if !reflect.DeepEqual(w.RA, want) {
			bad("C01:send:payload:"+kind, "%s RA #%d to %s at %s: %+v\nwant %+v", kind, i, w.Dst, w.T, w.RA, want)
		}
	}
	for _, k := range []string{"initial", "initial-after-reinit", "periodic", "solicited", "final"} {
		if !kinds[k] {
			bad("C01:send:missing-"+k, "no %s RA was transmitted", k)
		}
	}
	return x, out
}

func TestVerifC01Send(t *testing.T) {
	r := ev.Begin("C01", "send")
	defer r.End(t)
	r.Rule = "the real Advertiser.Run (instrumented, virtual clock starting at the configuration epoch, canonical schedule) for configurations = no stanza / each of 14 stanza variants alone / all together / all minus each, x forwarding {on,off}: every message handed to Conn.WriteTo (initial, periodic, solicited, final) must deep-equal the reference RA for that instant (deprecated lifetimes count down with the virtual clock); non-trivial = configuration has a stanza; distinct = distinct case"
	if r.Replay != nil {
		var c c01SendCase
		if err := json.Unmarshal(r.Replay, &c); err != nil {
			t.Fatalf("bad replay: %v", err)
		}
		x, vs := c01SendRun(t, c)
		r.Case(ev.JSON(c), true)
		r.Sample(c)
		if x != nil {
			fmt.Print(x.LogString())
		}
		for _, v := range vs {
			r.Violation(v[0], v[1], c)
		}
		return
	}
	all := c17Variants()
	var sets [][]string
	sets = append(sets, nil)
	var names []string
	for _, v := range all {
		sets = append(sets, []string{v.Name})
		names = append(names, v.Name)
	}
	sets = append(sets, names)
	for i := range all {
		var s []string
		for j, v := range all {
			if j != i {
				s = append(s, v.Name)
			}
		}
		sets = append(sets, s)
	}
	idx := 0
	for _, vs := range sets {
		for _, fwd := range []bool{true, false} {
			idx++
			if !r.Mine(idx) {
				continue
			}
			c := c01SendCase{Variants: vs, Fwd: fwd}
			x, viol := c01SendRun(t, c)
			r.Case(ev.JSON(c), len(vs) > 0)
			r.Sample(c)
			if x != nil {
				r.Count("transitions", int64(x.Steps))
			}
			for _, v := range viol {
				r.Violation(v[0], v[1], c)
			}
		}
	}
}
