//go:build verif

package corerad

import (
	"bytes"
	"encoding/json"
	"fmt"
	"log"
	"net/netip"
	"sort"
	"strings"
	"testing"
	"time"

	"github.com/mdlayher/corerad/internal/config"
	"github.com/mdlayher/corerad/internal/plugin"
	"github.com/mdlayher/corerad/internal/system"
	"github.com/mdlayher/corerad/verifrt/enum"
	"github.com/mdlayher/corerad/verifrt/ev"
	"github.com/mdlayher/metricslite"
	"github.com/mdlayher/ndp"
)

// C12, sequence part: the RA a received advertisement is compared with is
// CoreRAD's own RA *at that moment*. One Advertiser handles a sequence of
// received RAs while the interface's addresses (wildcard prefix) change in
// between; each report must be the one for the current own RA.

var c12SeqStates = [][]string{
	{"2001:db8:1::1/64"},
	{"2001:db8:1::1/64", "2001:db8:2::1/64"},
	{"2001:db8:3::1/64"},
}

type c12SeqStep struct {
	State int    `json:"addresses"`
	Recv  string `json:"received"` // same | stale | changed
}

type c12SeqCase struct {
	Steps []c12SeqStep `json:"steps"`
}

func c12SeqCheck(c c12SeqCase) (out [][2]string) {
	bad := func(sig, format string, a ...any) {
		out = append(out, [2]string{sig, ev.JSON(c) + ": " + fmt.Sprintf(format, a...)})
	}
	cur := 0
	pfx := &plugin.Prefix{Auto: true, Prefix: netip.MustParsePrefix("::/64"), OnLink: true, Autonomous: true,
		ValidLifetime: 100 * time.Second, PreferredLifetime: 50 * time.Second,
		Addrs: func() ([]system.IP, error) {
			var ips []system.IP
			for _, a := range c12SeqStates[cur] {
				ips = append(ips, system.IP{Address: netip.MustParsePrefix(a)})
			}
			return ips, nil
		}}
	ifi := config.Interface{Name: "eth0", Advertise: true, MinInterval: 200 * time.Second, MaxInterval: 600 * time.Second, HopLimit: 64,
		DefaultLifetime: 1800 * time.Second, Preference: ndp.Medium, Plugins: []plugin.Plugin{pfx}}
	var logb bytes.Buffer
	mem := metricslite.NewMemory()
	st := system.TestState{Forwarding: true}
	cctx := NewContext(log.New(&logb, "", 0), NewMetrics(mem, "t", time.Time{}, st, []config.Interface{ifi}), st)
	a := NewAdvertiser(cctx, ifi, nil, nil, func() bool { return false })
	hook := 0
	a.OnInconsistentRA = func(_, _ *ndp.RouterAdvertisement) { hook++ }
	own := func(state int) *ndp.RouterAdvertisement {
		saved := cur
		cur = state
		defer func() { cur = saved }()
		ra, _, err := ifi.RouterAdvertisement(true)
		if err != nil {
			panic(err)
		}
		return ra
	}
	counted := map[string]float64{}
	prev := 0
	for i, s := range c.Steps {
		cur = s.State
		var recv *ndp.RouterAdvertisement
		switch s.Recv {
		case "same":
			recv = own(cur)
		case "stale":
			recv = own(prev)
			for _, o := range recv.Options { // the neighbour changed the lifetime of what we used to advertise
				if p, ok := o.(*ndp.PrefixInformation); ok {
					p.ValidLifetime += 7 * time.Second
				}
			}
		case "changed":
			recv = own(cur)
			for _, o := range recv.Options {
				if p, ok := o.(*ndp.PrefixInformation); ok {
					p.ValidLifetime += 7 * time.Second
				}
			}
		}
		recv, err := c12Wire(recv)
		if err != nil {
			panic(err)
		}
		var want []string
		for _, p := range verifyRAs(own(cur), recv) {
			want = append(want, p.Field+"|"+p.Details)
		}
		sort.Strings(want)
		hook0 := hook
		logb.Reset()
		if _, err := a.handle(recv, netip.MustParseAddr("fe80::2")); err != nil {
			bad("C12:seq:handle-error", "step %d: %v", i, err)
			return out
		}
		var logged []string
		for _, ln := range strings.Split(logb.String(), "\n") {
			if strings.Contains(ln, "inconsistency ") && strings.Contains(ln, ": \"") {
				rest := ln[strings.Index(ln, ": \"")+3:]
				field := rest[:strings.Index(rest, "\"")]
				details := ""
				if j := strings.Index(rest, "\": ("); j >= 0 {
					d := rest[j+4:]
					details = d[:strings.Index(d, ") ")]
				}
				logged = append(logged, field+"|"+details)
			}
		}
		sort.Strings(logged)
		if fmt.Sprint(logged) != fmt.Sprint(want) {
			sig := "C12:seq:missed-report"
			if len(logged) > len(want) {
				sig = "C12:seq:false-report"
			}
			bad(sig, "step %d (addresses %v, received %s): reported %v, want %v for the current own RA", i, c12SeqStates[cur], s.Recv, logged, want)
		}
		if (hook > hook0) != (len(want) > 0) {
			bad("C12:seq:hook", "step %d: hook fired=%t with %d expected problems", i, hook > hook0, len(want))
		}
		for _, wnt := range want {
			counted[wnt]++
		}
		prev = cur
	}
	got := map[string]float64{}
	for k, v := range mem.Series()[advInconsistencies].Samples {
		var field, details string
		for _, kv := range strings.Split(k, ",") {
			if strings.HasPrefix(kv, "field=") {
				field = kv[6:]
			}
			if strings.HasPrefix(kv, "details=") {
				details = kv[8:]
			}
		}
		got[field+"|"+details] = v
	}
	if fmt.Sprint(got) != fmt.Sprint(counted) {
		bad("C12:seq:metric", "inconsistencies_total %v, want %v", got, counted)
	}
	return out
}

func TestVerifC12Seq(t *testing.T) {
	r := ev.Begin("C12", "sequence")
	defer r.End(t)
	r.Rule = "sequences of 3 received RAs handled by ONE Advertiser whose wildcard prefix expands over 3 address states changing between receptions (27 state sequences) x received RA per step {equal to the current own RA, the previous state's RA with a changed lifetime, the current one with a changed lifetime} (27); oracle: each step's log lines, counter increments and hook equal verifyRAs(own RA at that moment, received); non-trivial = state changes at least once; distinct = distinct sequence"
	if r.Replay != nil {
		var c c12SeqCase
		if err := json.Unmarshal(r.Replay, &c); err != nil {
			t.Fatalf("bad replay: %v", err)
		}
		r.Case(ev.JSON(c), true)
		r.Sample(c)
		for _, v := range c12SeqCheck(c) {
			r.Violation(v[0], v[1], c)
		}
		return
	}
	kinds := []string{"same", "stale", "changed"}
	enum.Product([]int{3, 3, 3, 3, 3, 3}, func(t []int) bool {
		c := c12SeqCase{Steps: []c12SeqStep{{t[0], kinds[t[3]]}, {t[1], kinds[t[4]]}, {t[2], kinds[t[5]]}}}
		r.Case(ev.JSON(c), t[0] != t[1] || t[1] != t[2])
		r.Sample(c)
		for _, v := range c12SeqCheck(c) {
			r.Violation(v[0], v[1], c)
		}
		return true
	})
}
