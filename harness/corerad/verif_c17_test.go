//go:build verif

package corerad

import (
	"encoding/json"
	"errors"
	"fmt"
	"io"
	"log"
	"net"
	"net/http"
	"net/http/httptest"
	"net/netip"
	"os"
	"reflect"
	"sort"
	"strings"
	"syscall"
	"testing"
	"time"

	"github.com/mdlayher/corerad/internal/config"
	"github.com/mdlayher/corerad/internal/crhttp"
	"github.com/mdlayher/corerad/internal/system"
	"github.com/mdlayher/corerad/verifrt/ev"
	"github.com/mdlayher/corerad/verifrt/ref"
	"github.com/mdlayher/metricslite"
	"github.com/mdlayher/ndp"
)

// C17 part 1 (ENUM): at every lifecycle point and for every accepted
// configuration a scrape and a debug-API request complete without panicking,
// and (once the interface is prepared) report exactly the RA that would be
// sent; /metrics and /debug/pprof are served only when enabled.

type c17Variant struct {
	Name string
	f    func(i *ref.Iface)
}

func c17Variants() []c17Variant {
	T := func(kv ...any) ref.Table {
		t := ref.Table{}
		for i := 0; i+1 < len(kv); i += 2 {
			t[kv[i].(string)] = kv[i+1]
		}
		return t
	}
	return []c17Variant{
		{"prefix-static", func(i *ref.Iface) { i.Prefix = append(i.Prefix, T("prefix", "2001:db8:a::/64", "autonomous", false)) }},
		{"prefix-wildcard", func(i *ref.Iface) { i.Prefix = append(i.Prefix, T()) }},
		{"prefix-deprecated", func(i *ref.Iface) {
			i.Prefix = append(i.Prefix, T("prefix", "2001:db8:d::/64", "deprecated", true, "valid_lifetime", "2h", "preferred_lifetime", "1h"))
		}},
		{"route-static", func(i *ref.Iface) { i.Route = append(i.Route, T("prefix", "2001:db8:ffff::/48", "preference", "high")) }},
		{"route-wildcard", func(i *ref.Iface) { i.Route = append(i.Route, T("lifetime", "30m")) }},
		{"route-deprecated", func(i *ref.Iface) {
			i.Route = append(i.Route, T("prefix", "2001:db8:eeee::/48", "deprecated", true, "lifetime", "90m"))
		}},
		{"rdnss-static", func(i *ref.Iface) { i.RDNSS = append(i.RDNSS, T("servers", []string{"2001:db8::54", "2001:db8::53"})) }},
		{"rdnss-wildcard", func(i *ref.Iface) { i.RDNSS = append(i.RDNSS, T("lifetime", "1m")) }},
		{"rdnss-wildcard+static", func(i *ref.Iface) {
			i.RDNSS = append(i.RDNSS, T("servers", []string{"2001:db8::54", "::", "2001:db8::53"}, "lifetime", "2m"))
		}},
		// numeric order (::a before ::10, the wildcard's choice first) is not text order
		{"rdnss-order", func(i *ref.Iface) {
			i.RDNSS = append(i.RDNSS, T("servers", []string{"2001:db8::10", "2001:db8::a", "fd00::2"}, "lifetime", "3m"),
				T("servers", []string{"::", "2001:db8:0:1::5", "2001:0:1::5"}, "lifetime", "4m"))
		}},
		{"dnssl", func(i *ref.Iface) { i.DNSSL = append(i.DNSSL, T("domain_names", []string{"B.Example", "a.example"})) }},
		{"mtu", func(i *ref.Iface) { i.Scalars["mtu"] = 1500 }},
		{"no-lla", func(i *ref.Iface) { i.Scalars["source_lla"] = false }},
		{"captive-portal", func(i *ref.Iface) { i.Scalars["captive_portal"] = "https://example.com/portal" }},
		{"pref64", func(i *ref.Iface) { i.PREF64 = append(i.PREF64, T("prefix", "2001:db8:64::/96")) }},
		{"subsecond-lifetimes", func(i *ref.Iface) {
			i.Prefix = append(i.Prefix, T("prefix", "2001:db8:5::/64", "valid_lifetime", "600.6s", "preferred_lifetime", "300.5s"))
			i.Route = append(i.Route, T("prefix", "2001:db8:5500::/48", "lifetime", "99.999s"))
			i.RDNSS = append(i.RDNSS, T("servers", []string{"2001:db8::55"}, "lifetime", "1500ms"))
			i.DNSSL = append(i.DNSSL, T("domain_names", []string{"sub.example"}, "lifetime", "2m0.75s"))
		}},
		{"preference-low", func(i *ref.Iface) {
			i.Scalars["preference"] = "low"
			i.Route = append(i.Route, T("prefix", "2001:db8:1100::/48", "preference", "low"), T("prefix", "2001:db8:1200::/48", "preference", "medium"))
		}},
		{"header", func(i *ref.Iface) {
			i.Scalars["managed"], i.Scalars["preference"], i.Scalars["reachable_time"], i.Scalars["default_lifetime"] = true, "high", "1.5s", "1234s"
		}},
	}
}

type c17Case struct {
	Variants []string `json:"stanzas"`
	Prepared bool     `json:"prepared"`
	StateErr bool     `json:"state_read_fails"`
	ErrKind  string   `json:"state_error,omitempty"` // "" (some error) | enoent | eperm
	Fwd      bool     `json:"forwarding"`
	Prom     bool     `json:"debug_prometheus"`
	PProf    bool     `json:"debug_pprof"`
}

func (c c17Case) doc() ref.Doc {
	ifi := ref.Iface{Scalars: ref.Table{"name": "eth0", "advertise": true}}
	all := c17Variants()
	for _, n := range c.Variants {
		for _, v := range all {
			if v.Name == n {
				v.f(&ifi)
			}
		}
	}
	return ref.Doc{
		Ifaces: []ref.Iface{ifi, {Scalars: ref.Table{"name": "eth1", "monitor": true}}},
		Debug:  ref.Table{"address": "localhost:9430", "prometheus": c.Prom, "pprof": c.PProf},
	}
}

var c17Epoch = time.Date(2000, 1, 1, 0, 0, 0, 0, time.UTC)

type c17Addresser struct{}

func (c17Addresser) AddressesByIndex(int) ([]system.IP, error) {
	return []system.IP{ref.IP("2001:db8:1::1/64", "F"), ref.IP("fe80::1/64", ""), ref.IP("fd00:1::1/64", "")}, nil
}
func (c17Addresser) LoopbackRoutes() ([]system.Route, error) {
	return []system.Route{{Prefix: netip.MustParsePrefix("2001:db8:f000::/48")}}, nil
}

func c17Check(c c17Case) (out [][2]string) {
	bad := func(sig, format string, a ...any) {
		out = append(out, [2]string{sig, ev.JSON(c) + ": " + fmt.Sprintf(format, a...)})
	}
	doc := c.doc()
	v, wantCfg, why := ref.Parse(doc, c17Epoch)
	if v != ref.Accept {
		panic("C17 generator document rejected by the reference model: " + why)
	}
	cfg, err := config.Parse(strings.NewReader(doc.TOML()), c17Epoch)
	if err != nil {
		bad("C17:config-rejected", "%v", err)
		return out
	}
	st := system.TestState{Forwarding: c.Fwd, Autoconf: false}
	if c.StateErr {
		st.Error = errors.New("verif: sysctl read failed")
		switch c.ErrKind {
		case "enoent":
			st.Error = &os.PathError{Op: "open", Path: "/proc/sys/net/ipv6/conf/eth0/forwarding", Err: syscall.ENOENT}
		case "eperm":
			st.Error = &os.PathError{Op: "open", Path: "/proc/sys/net/ipv6/conf/eth0/forwarding", Err: syscall.EACCES}
		}
	}
	mac := net.HardwareAddr{2, 0, 0, 0, 0, 1}
	if c.Prepared {
		system.VerifSetAddresser(c17Addresser{})
		defer system.VerifSetAddresser(nil)
		for _, p := range cfg.Interfaces[0].Plugins {
			if err := p.Prepare(&net.Interface{Index: 1, Name: "eth0", HardwareAddr: mac}); err != nil {
				bad("C17:prepare", "%v", err)
				return out
			}
		}
	}
	rs := ref.State{Name: "eth0", MAC: mac.String(), Forwarding: c.Fwd, Routes: []string{"2001:db8:f000::/48"}}
	rs.Addrs, _ = c17Addresser{}.AddressesByIndex(1)
	rs.Clock = time.Since(c17Epoch) // plugins use time.Now after Prepare
	want, wantOK := ref.RA(wantCfg.Interfaces[0], &rs, c17Epoch)

	guard := func(what string, f func()) (panicked bool) {
		defer func() {
			if r := recover(); r != nil {
				panicked = true
				sig := "C17:panic:" + what
				msg := fmt.Sprint(r)
				switch {
				case strings.Contains(msg, "unhandled NDP option"):
					sig += ":unhandled-option"
				case strings.Contains(msg, "nil pointer") || strings.Contains(msg, "invalid memory address"):
					sig += ":nil-dereference"
				}
				bad(sig, "%s panicked: %v", what, r)
			}
		}()
		f()
		return false
	}

	// 1. Metrics: one scrape through constScrape, and Series() through metricslite.Memory.
	mem := metricslite.NewMemory()
	mm := NewMetrics(mem, "verif", time.Time{}, st, cfg.Interfaces)
	got := map[string]map[string]float64{}
	metrics := map[string]func(float64, ...string){}
	for _, name := range []string{ifiAdvertising, ifiAutoconfiguration, ifiForwarding, ifiMonitoring, advMisconfiguration, advDNSSLLifetime,
		advPrefixAutonomous, advPrefixOnLink, advPrefixValid, advPrefixPreferred, advRDNSSLifetime, advRouteLifetime} {
		name := name
		got[name] = map[string]float64{}
		metrics[name] = func(v float64, labels ...string) { got[name][strings.Join(labels, "|")] = v }
	}
	var serr error
	guard("metrics scrape", func() { serr = mm.constScrape(metrics) })
	// Looking must not change what is seen: a second scrape right away reports the same.
	if serr == nil {
		first := fmt.Sprint(got)
		for n := range got {
			got[n] = map[string]float64{}
		}
		var serr2 error
		guard("metrics scrape", func() { serr2 = mm.constScrape(metrics) })
		if second := fmt.Sprint(got); serr2 != nil || second != first {
			bad("C17:scrape-changes-state", "a second scrape differs from the first (err=%v):\n  %s\n  %s", serr2, first, second)
		}
	}
	var series map[string]metricslite.Series
	guard("metrics Series", func() { series, _ = mm.Series() })
	if serr != nil && series != nil {
		// A failed scrape must be visible as a failure to whoever scrapes (metricslite
		// marks the metric named by a *ScrapeError with the sample -1); a scrape that
		// neither reports nor fails leaves the operator with silently missing series.
		surfaced := false
		for _, se := range series {
			if v, ok := se.Samples[""]; ok && v == -1 {
				surfaced = true
			}
		}
		if !surfaced {
			bad("C17:scrape-error-not-surfaced", "the scrape failed (%v) but the metrics backend was not told: series are silently missing", serr)
		}
	}
	if !c.Prepared && !c.StateErr && serr == nil {
		// Not initialised yet, but the scrape answered: whatever it reports must still be
		// true - in particular a non-forwarding interface is a misconfiguration.
		if got[ifiForwarding]["eth0"] != b2f(c.Fwd) {
			bad("C17:unprepared:forwarding-gauge", "forwarding gauge %v with forwarding=%t", got[ifiForwarding]["eth0"], c.Fwd)
		}
		_, mis := got[advMisconfiguration]["eth0|interface_not_forwarding"]
		if wantMis := !c.Fwd && wantCfg.Interfaces[0].DefaultLifetime > 0; mis != wantMis {
			bad("C17:unprepared:misconfiguration", "scrape before initialisation succeeded but reports misconfiguration=%t with forwarding=%t (configured lifetime %s)", mis, c.Fwd, wantCfg.Interfaces[0].DefaultLifetime)
		}
	}
	if c.Prepared && !c.StateErr && wantOK {
		if serr != nil {
			bad("C17:scrape-error", "scrape failed although the interface is prepared: %v", serr)
		} else {
			wantM := map[string]map[string]float64{}
			for n := range got {
				wantM[n] = map[string]float64{}
			}
			wantM[ifiAdvertising]["eth0"], wantM[ifiAdvertising]["eth1"] = 1, 0
			wantM[ifiMonitoring]["eth0"], wantM[ifiMonitoring]["eth1"] = 0, 1
			wantM[ifiForwarding]["eth0"], wantM[ifiForwarding]["eth1"] = b2f(c.Fwd), b2f(c.Fwd)
			wantM[ifiAutoconfiguration]["eth0"], wantM[ifiAutoconfiguration]["eth1"] = 0, 0
			if !c.Fwd && wantCfg.Interfaces[0].DefaultLifetime > 0 {
				wantM[advMisconfiguration]["eth0|interface_not_forwarding"] = 1
			}
			for _, o := range want.Options {
				switch o := o.(type) {
				case *ndp.PrefixInformation:
					k := "eth0|" + netip.PrefixFrom(o.Prefix, int(o.PrefixLength)).String()
					wantM[advPrefixAutonomous][k] = b2f(o.AutonomousAddressConfiguration)
					wantM[advPrefixOnLink][k] = b2f(o.OnLink)
					wantM[advPrefixValid][k] = o.ValidLifetime.Seconds()
					wantM[advPrefixPreferred][k] = o.PreferredLifetime.Seconds()
				case *ndp.RouteInformation:
					wantM[advRouteLifetime]["eth0|"+netip.PrefixFrom(o.Prefix, int(o.PrefixLength)).String()] = o.RouteLifetime.Seconds()
				case *ndp.RecursiveDNSServer:
					var ss []string
					for _, s := range o.Servers {
						ss = append(ss, s.String())
					}
					wantM[advRDNSSLifetime]["eth0|"+strings.Join(ss, ", ")] = o.Lifetime.Seconds()
				case *ndp.DNSSearchList:
					wantM[advDNSSLLifetime]["eth0|"+strings.Join(o.DomainNames, ", ")] = o.Lifetime.Seconds()
				}
			}
			// Deprecated lifetimes count down with the real clock: compare to the second.
			round := func(m map[string]map[string]float64) {
				for _, n := range []string{advPrefixValid, advPrefixPreferred, advRouteLifetime} {
					for k, v := range m[n] {
						m[n][k] = float64(int64(v/2+0.5) * 2)
					}
				}
			}
			round(got)
			round(wantM)
			var names []string
			for n := range wantM {
				names = append(names, n)
			}
			sort.Strings(names)
			for _, n := range names {
				if !reflect.DeepEqual(got[n], wantM[n]) {
					bad("C17:metric:"+strings.TrimPrefix(n, "corerad_"), "%s samples %v, want %v", n, got[n], wantM[n])
				}
			}
		}
	}

	// 2. HTTP: API, /metrics, /debug/pprof/.
	h := crhttp.NewHandler(log.New(io.Discard, "", 0), st, *cfg, http.HandlerFunc(func(w http.ResponseWriter, r *http.Request) { _, _ = io.WriteString(w, "metrics") }))
	get := func(path string) *httptest.ResponseRecorder {
		rec := httptest.NewRecorder()
		guard("GET "+path, func() { h.ServeHTTP(rec, httptest.NewRequest("GET", path, nil)) })
		return rec
	}
	if rec := get("/metrics"); (rec.Code == 200) != c.Prom || (rec.Code != 200 && rec.Code != 404) {
		bad("C17:route:/metrics", "/metrics status %d with debug.prometheus=%t", rec.Code, c.Prom)
	}
	if rec := get("/debug/pprof/"); (rec.Code == 200) != c.PProf || (rec.Code != 200 && rec.Code != 404) {
		bad("C17:route:/debug/pprof", "/debug/pprof/ status %d with debug.pprof=%t", rec.Code, c.PProf)
	}
	rec := get("/_/api/interfaces")
	if c.StateErr && rec.Code == 200 {
		// The interface's state cannot be read: no RA can be built for it at this moment,
		// so an answer that shows one is made up.
		var body struct {
			Interfaces []struct {
				Interface     string          `json:"interface"`
				Advertisement json.RawMessage `json:"advertisement"`
			} `json:"interfaces"`
		}
		if json.Unmarshal(rec.Body.Bytes(), &body) == nil {
			for _, bi := range body.Interfaces {
				if bi.Interface == "eth0" && len(bi.Advertisement) > 0 && string(bi.Advertisement) != "null" {
					bad("C17:api:made-up-advertisement", "the interface state cannot be read (%v) but the API answered 200 with an advertisement: %s", st.Error, bi.Advertisement)
				}
			}
		}
	}
	if !c.Prepared && !c.StateErr && rec.Code == 200 {
		// Answered before initialisation: the lifetime shown must obey the forwarding rule.
		var body struct {
			Interfaces []struct {
				Advertisement *struct {
					Life int `json:"router_lifetime_seconds"`
				} `json:"advertisement"`
			} `json:"interfaces"`
		}
		wantLife := 0
		if c.Fwd {
			wantLife = int(wantCfg.Interfaces[0].DefaultLifetime / time.Second)
		}
		if json.Unmarshal(rec.Body.Bytes(), &body) == nil && len(body.Interfaces) > 0 && body.Interfaces[0].Advertisement != nil && body.Interfaces[0].Advertisement.Life != wantLife {
			bad("C17:unprepared:api-lifetime", "API answered before initialisation with router_lifetime_seconds=%d, forwarding=%t (want %d)", body.Interfaces[0].Advertisement.Life, c.Fwd, wantLife)
		}
	}
	if c.Prepared && !c.StateErr && wantOK && len(out) == 0 {
		var body struct {
			Interfaces []struct {
				Interface     string          `json:"interface"`
				Advertise     bool            `json:"advertise"`
				Advertisement json.RawMessage `json:"advertisement"`
			} `json:"interfaces"`
		}
		if rec.Code != 200 || json.Unmarshal(rec.Body.Bytes(), &body) != nil || len(body.Interfaces) != 2 {
			bad("C17:api-failed", "status %d body %s", rec.Code, rec.Body.String())
			return out
		}
		if body.Interfaces[1].Interface != "eth1" || body.Interfaces[1].Advertise || string(body.Interfaces[1].Advertisement) != "null" {
			bad("C17:api:monitor-interface", "%+v", body.Interfaces[1])
		}
		var ra struct {
			Hop     int                        `json:"current_hop_limit"`
			M       bool                       `json:"managed_configuration"`
			O       bool                       `json:"other_configuration"`
			Pref    string                     `json:"router_selection_preference"`
			Life    int                        `json:"router_lifetime_seconds"`
			Reach   int                        `json:"reachable_time_milliseconds"`
			Retrans int                        `json:"retransmit_timer_milliseconds"`
			Options map[string]json.RawMessage `json:"options"`
		}
		if err := json.Unmarshal(body.Interfaces[0].Advertisement, &ra); err != nil {
			bad("C17:api-failed", "advertisement: %v", err)
			return out
		}
		prefS := map[ndp.Preference]string{ndp.Low: "low", ndp.Medium: "medium", ndp.High: "high"}[want.RouterSelectionPreference]
		if ra.Hop != int(want.CurrentHopLimit) || ra.M != want.ManagedConfiguration || ra.O != want.OtherConfiguration || ra.Pref != prefS ||
			ra.Life != int(want.RouterLifetime.Seconds()) || ra.Reach != int(want.ReachableTime.Milliseconds()) || ra.Retrans != int(want.RetransmitTimer.Milliseconds()) {
			bad("C17:api:header", "API header %+v, RA %+v", ra, want)
		}
		raw := string(body.Interfaces[0].Advertisement)
		for _, o := range want.Options {
			var must []string
			kind := ""
			switch o := o.(type) {
			case *ndp.PrefixInformation:
				kind, must = "prefix", []string{netip.PrefixFrom(o.Prefix, int(o.PrefixLength)).String()}
				if o.ValidLifetime%time.Second != 0 { // configured (not counting down): the API shows what the wire carries
					must = append(must, fmt.Sprintf(`"valid_lifetime_seconds":%d`, int(o.ValidLifetime/time.Second)), fmt.Sprintf(`"preferred_lifetime_seconds":%d`, int(o.PreferredLifetime/time.Second)))
				}
			case *ndp.RouteInformation:
				kind, must = "route", []string{netip.PrefixFrom(o.Prefix, int(o.PrefixLength)).String(), fmt.Sprintf(`"route_lifetime_seconds":%d`, int(o.RouteLifetime.Seconds()))}
			case *ndp.RecursiveDNSServer:
				kind = "rdnss"
				for _, s := range o.Servers {
					must = append(must, `"`+s.String()+`"`)
				}
				must = append(must, fmt.Sprintf(`{"lifetime_seconds":%d,"servers":["%s"`, int(o.Lifetime/time.Second), o.Servers[0]))
			case *ndp.DNSSearchList:
				kind = "dnssl"
				for _, d := range o.DomainNames {
					must = append(must, `"`+d+`"`)
				}
				must = append(must, fmt.Sprintf(`{"lifetime_seconds":%d,"domain_names":["%s"`, int(o.Lifetime/time.Second), o.DomainNames[0]))
			case *ndp.MTU:
				kind, must = "mtu", []string{fmt.Sprintf(`"mtu":%d`, o.MTU)}
			case *ndp.LinkLayerAddress:
				kind, must = "lla", []string{o.Addr.String()}
			case *ndp.CaptivePortal:
				kind, must = "captive-portal", []string{o.URI}
			case *ndp.PREF64:
				kind, must = "pref64", []string{o.Prefix.String()}
			}
			for _, m := range must {
				if !strings.Contains(raw, m) {
					bad("C17:api:option-not-rendered:"+kind, "API rendering lacks %s for option %T %+v: %s", m, o, o, raw)
				}
			}
		}
	}
	return out
}

// c17HistoryCheck: state carried from one scrape to the next. Two advertising interfaces
// with wildcard / deprecated stanzas (a scrape fails for an interface that is not prepared
// yet) are prepared in the given order with a scrape after every step and two more at the
// end; every scrape either fails or emits each (metric, labels) once, and what a scrape
// emits equals what a *fresh* Metrics over the same interfaces emits at that moment
// (differential oracle: history must not matter).
func c17HistoryCheck(order []int, fwd bool) (out [][2]string) {
	bad := func(sig, format string, a ...any) {
		out = append(out, [2]string{sig, fmt.Sprintf("prepared in order %v, forwarding=%t: ", order, fwd) + fmt.Sprintf(format, a...)})
	}
	mk := func(name string) ref.Iface {
		return ref.Iface{Scalars: ref.Table{"name": name, "advertise": true},
			Prefix: []ref.Table{{}, {"prefix": "2001:db8:d::/64", "deprecated": true, "valid_lifetime": "2h", "preferred_lifetime": "1h"}},
			Route:  []ref.Table{{}, {"prefix": "2001:db8:ffff::/48"}}, RDNSS: []ref.Table{{}, {"servers": []string{"2001:db8::53"}, "lifetime": "1h"}},
			DNSSL: []ref.Table{{"domain_names": []string{"lan.example.com"}}}}
	}
	doc := ref.Doc{Ifaces: []ref.Iface{mk("eth0"), mk("eth2"), {Scalars: ref.Table{"name": "eth1", "monitor": true}}}}
	cfg, err := config.Parse(strings.NewReader(doc.TOML()), c17Epoch)
	if err != nil {
		return [][2]string{{"C17:history:config-rejected", err.Error()}}
	}
	st := system.TestState{Forwarding: fwd}
	system.VerifSetAddresser(c17Addresser{})
	defer system.VerifSetAddresser(nil)
	names := []string{ifiAdvertising, ifiAutoconfiguration, ifiForwarding, ifiMonitoring, advMisconfiguration, advDNSSLLifetime,
		advPrefixAutonomous, advPrefixOnLink, advPrefixValid, advPrefixPreferred, advRDNSSLifetime, advRouteLifetime}
	scrape := func(mm *Metrics) (emitted []string, err error, pv any) {
		metrics := map[string]func(float64, ...string){}
		for _, n := range names {
			n := n
			metrics[n] = func(v float64, labels ...string) {
				if n == advPrefixValid || n == advPrefixPreferred || n == advRouteLifetime {
					v = 0 // deprecated lifetimes move with the clock between two scrapes
				}
				emitted = append(emitted, fmt.Sprintf("%s{%s}=%v", n, strings.Join(labels, ","), v))
			}
		}
		defer func() { pv = recover() }()
		err = mm.constScrape(metrics)
		sort.Strings(emitted)
		return emitted, err, nil
	}
	mm := NewMetrics(metricslite.NewMemory(), "verif", time.Time{}, st, cfg.Interfaces)
	step := func(what string) {
		got, gerr, pv := scrape(mm)
		if pv != nil {
			bad("C17:history:panic", "%s: scrape panicked: %v", what, pv)
			return
		}
		fresh, ferr, _ := scrape(NewMetrics(metricslite.NewMemory(), "verif", time.Time{}, st, cfg.Interfaces))
		if (gerr == nil) != (ferr == nil) {
			bad("C17:history:error-differs", "%s: scrape error %v, a fresh Metrics gives %v", what, gerr, ferr)
			return
		}
		if gerr != nil {
			return
		}
		for i := 1; i < len(got); i++ {
			if got[i][:strings.Index(got[i], "}")] == got[i-1][:strings.Index(got[i-1], "}")] {
				bad("C17:history:duplicate-sample", "%s: %s emitted more than once in one scrape", what, got[i][:strings.Index(got[i], "}")+1])
				return
			}
		}
		if fmt.Sprint(got) != fmt.Sprint(fresh) {
			bad("C17:history:differs-from-fresh", "%s: scrape emitted\n  %v\na fresh Metrics over the same interfaces emits\n  %v", what, got, fresh)
		}
	}
	step("nothing prepared")
	for _, i := range order {
		for _, p := range cfg.Interfaces[i].Plugins {
			if err := p.Prepare(&net.Interface{Index: i + 1, Name: cfg.Interfaces[i].Name, HardwareAddr: net.HardwareAddr{2, 0, 0, 0, 0, byte(i)}}); err != nil {
				bad("C17:history:prepare", "%v", err)
				return out
			}
		}
		step(fmt.Sprintf("after preparing %s", cfg.Interfaces[i].Name))
	}
	step("again")
	step("and again")
	// Both advertising interfaces have the same configuration and see the same addresses
	// and routes: once both are prepared, what one scrape reports for eth2 is what it
	// reports for eth0 (same options, same labels, same values).
	if got, err, pv := scrape(mm); err == nil && pv == nil {
		per := map[string][]string{}
		for _, e := range got {
			for _, name := range []string{"eth0", "eth2"} {
				if strings.Contains(e, "{"+name+",") || strings.Contains(e, "{"+name+"}") {
					per[name] = append(per[name], strings.Replace(e, "{"+name, "{ethX", 1))
				}
			}
		}
		if fmt.Sprint(per["eth0"]) != fmt.Sprint(per["eth2"]) || len(per["eth0"]) < 8 {
			bad("C17:history:interfaces-differ", "identically configured interfaces, one scrape: eth0 has\n  %v\neth2 has\n  %v", per["eth0"], per["eth2"])
		}
	}
	return out
}

func TestVerifC17(t *testing.T) {
	r := ev.Begin("C17", "enum")
	defer r.End(t)
	r.Rule = "cases = configurations (no stanza; each of 18 stanza variants alone: static/wildcard/deprecated prefix and route, static/wildcard RDNSS, DNSSL, MTU, no source LLA, captive portal, PREF64, non-default header; all together; all minus each) x lifecycle {plugins never prepared, prepared through the real Prepare with the NewAddresser seam} x State reads {ok, failing (some error, ENOENT, EACCES)} x forwarding {on,off} x debug.prometheus x debug.pprof; for each: one metrics scrape (constScrape and Memory.Series) and GET /_/api/interfaces, /metrics, /debug/pprof/ on the real crhttp.Handler, under recover; oracle: no panic ever; prepared + readable state => every sample and the JSON equal the reference RA (every option kind rendered); /metrics and /debug/pprof/ are 200 iff enabled, 404 otherwise; plus scrape histories over two advertising interfaces prepared one after the other (scrape after every step): no duplicate sample, every scrape equals the scrape of a fresh Metrics (history must not matter), and the two identically configured interfaces (wildcard and static prefix, route, RDNSS; DNSSL) have identical samples in one scrape; non-trivial = configuration has a stanza; distinct = distinct case"
	if r.Replay != nil {
		var c c17Case
		if err := json.Unmarshal(r.Replay, &c); err != nil {
			t.Fatalf("bad replay: %v", err)
		}
		r.Case(ev.JSON(c), true)
		r.Sample(c)
		for _, v := range c17Check(c) {
			r.Violation(v[0], v[1], c)
		}
		return
	}
	for _, order := range [][]int{{0, 1}, {1, 0}, {0}, {1}} {
		for _, fwd := range []bool{true, false} {
			r.Case(fmt.Sprint("history ", order, fwd), true)
			for _, v := range c17HistoryCheck(order, fwd) {
				r.Violation(v[0], v[1], nil)
			}
		}
	}
	all := c17Variants()
	var sets [][]string
	sets = append(sets, nil)
	var allNames []string
	for _, v := range all {
		sets = append(sets, []string{v.Name})
		allNames = append(allNames, v.Name)
	}
	sets = append(sets, allNames)
	for i := range all {
		var s []string
		for j, v := range all {
			if j != i {
				s = append(s, v.Name)
			}
		}
		sets = append(sets, s)
	}
	for _, vs := range sets {
		for _, prep := range []bool{false, true} {
			for _, serr := range []bool{false, true} {
				for _, fwd := range []bool{true, false} {
					for _, dbg := range [][2]bool{{false, false}, {true, false}, {false, true}, {true, true}} {
						if !r.Thorough() && (dbg[0] != dbg[1]) && len(vs) > 1 {
							continue
						}
						kinds := []string{""}
						if serr && dbg[0] == dbg[1] {
							kinds = []string{"", "enoent", "eperm"}
						}
						for _, k := range kinds {
							c := c17Case{Variants: vs, Prepared: prep, StateErr: serr, ErrKind: k, Fwd: fwd, Prom: dbg[0], PProf: dbg[1]}
							r.Case(ev.JSON(c), len(vs) > 0)
							r.Sample(c)
							for _, v := range c17Check(c) {
								r.Violation(v[0], v[1], c)
							}
						}
					}
				}
			}
		}
	}
}
