//go:build verif

package corerad

// The fake environment shared by the dynamic (SEQ / SCHED) harnesses: the real
// Advertiser / Monitor / Dialer run against a recording fake connection, a
// mutable recording State, memory metrics and a captured logger. Every seam
// call is a scheduling point and an observation in the execution's log.

import (
	"bytes"
	"context"
	"errors"
	"fmt"
	"log"
	"net"
	"net/netip"
	"strings"
	"sync"
	"time"

	"github.com/mdlayher/corerad/internal/config"
	"github.com/mdlayher/corerad/internal/netstate"
	"github.com/mdlayher/corerad/internal/system"
	"github.com/mdlayher/corerad/verifrt/vsched"
	"github.com/mdlayher/metricslite"
	"github.com/mdlayher/ndp"
	"golang.org/x/net/ipv6"
)

type lockedBuf struct {
	mu sync.Mutex
	b  bytes.Buffer
}

func (l *lockedBuf) Write(p []byte) (int, error) {
	l.mu.Lock()
	defer l.mu.Unlock()
	return l.b.Write(p)
}
func (l *lockedBuf) String() string {
	l.mu.Lock()
	defer l.mu.Unlock()
	return l.b.String()
}
func (l *lockedBuf) Lines() []string {
	s := strings.TrimRight(l.String(), "\n")
	if s == "" {
		return nil
	}
	return strings.Split(s, "\n")
}

type timeoutErr struct{}

func (timeoutErr) Error() string   { return "verif: i/o timeout" }
func (timeoutErr) Timeout() bool   { return true }
func (timeoutErr) Temporary() bool { return true }

var _ net.Error = timeoutErr{}

type inMsg struct {
	m    ndp.Message
	hop  int
	from netip.Addr
	err  error
}

type wrec struct {
	T          time.Duration
	Conn       int
	Dst        netip.Addr
	RA         *ndp.RouterAdvertisement
	Err        error
	AfterClose bool
}

type fconn struct {
	w              *world
	id             int
	in             chan inMsg
	mu             sync.Mutex
	dl             chan struct{}
	dlShut         bool
	closed         bool
	nclose, nleave int
}

func (c *fconn) dlchan() chan struct{} {
	c.mu.Lock()
	defer c.mu.Unlock()
	return c.dl
}

func (c *fconn) isClosed() bool {
	c.mu.Lock()
	defer c.mu.Unlock()
	return c.closed
}

func (c *fconn) ReadFrom() (ndp.Message, *ipv6.ControlMessage, netip.Addr, error) {
	vsched.Point("conn.ReadFrom")
	if c.isClosed() {
		vsched.Obs("io-after-close", "ReadFrom on conn %d", c.id)
	}
	vsched.Obs("read-begin", "conn=%d", c.id)
	dl := c.dlchan()
	s := vsched.Select("conn.ReadFrom.wait", false, vsched.RecvCase(c.in), vsched.RecvCase(dl))
	select {
	case m := <-vsched.MR(s, 0, c.in):
		vsched.Woke(s, "conn.ReadFrom.wait")
		if m.err != nil {
			vsched.Obs("read-error", "conn=%d %v", c.id, m.err)
			return nil, nil, netip.Addr{}, m.err
		}
		vsched.Obs("read", "conn=%d %s hop=%d from=%s", c.id, m.m.Type(), m.hop, m.from)
		c.w.mu.Lock()
		c.w.nread++
		c.w.mu.Unlock()
		return m.m, &ipv6.ControlMessage{HopLimit: m.hop}, m.from, nil
	case <-vsched.MR(s, 1, dl):
		vsched.Woke(s, "conn.ReadFrom.wait")
		vsched.Obs("read-timeout", "conn=%d", c.id)
		return nil, nil, netip.Addr{}, timeoutErr{}
	}
}

func (c *fconn) SetReadDeadline(t time.Time) error {
	vsched.Point("conn.SetReadDeadline")
	c.mu.Lock()
	past := !t.IsZero() && !t.After(time.Now())
	if past {
		if !c.dlShut {
			c.dlShut = true
			close(c.dl)
		}
	} else if c.dlShut {
		c.dl = make(chan struct{})
		c.dlShut = false
	}
	c.mu.Unlock()
	vsched.Obs("deadline", "conn=%d past=%t", c.id, past)
	return nil
}

func (c *fconn) WriteTo(m ndp.Message, _ *ipv6.ControlMessage, dst netip.Addr) error {
	vsched.Point("conn.WriteTo")
	after := c.isClosed()
	ra, _ := m.(*ndp.RouterAdvertisement)
	life := "?"
	if ra != nil {
		life = ra.RouterLifetime.String()
	}
	vsched.Obs("write-begin", "conn=%d dst=%s lifetime=%s", c.id, dst, life)
	tb := c.w.now() // the instant the packet is handed to the socket
	c.w.mu.Lock()
	c.w.nWrite++
	nw, hw := c.w.nWrite, c.w.hookWrite
	c.w.mu.Unlock()
	if hw != nil {
		hw(nw, dst)
	}
	if after {
		vsched.Obs("io-after-close", "WriteTo on conn %d dst=%s", c.id, dst)
	}
	var err error
	if c.w.writeFault != nil {
		err = c.w.writeFault(c, dst)
	}
	if err == nil && c.w.writeFaultRA != nil {
		err = c.w.writeFaultRA(c, dst, ra)
	}
	if c.w.latency {
		// Transmit latency: the call is in flight while others may run.
		vsched.Point("conn.WriteTo:inflight")
	}
	if c.w.writeTime > 0 {
		vsched.Sleep(c.w.writeTime)
	}
	c.w.mu.Lock()
	c.w.writes = append(c.w.writes, wrec{T: tb, Conn: c.id, Dst: dst, RA: ra, Err: err, AfterClose: after})
	c.w.mu.Unlock()
	vsched.Obs("write-end", "conn=%d dst=%s err=%v", c.id, dst, err)
	return err
}

func (c *fconn) LeaveGroup(netip.Addr) error {
	vsched.Point("conn.LeaveGroup")
	c.mu.Lock()
	c.nleave++
	c.mu.Unlock()
	vsched.Obs("leave-group", "conn=%d", c.id)
	return nil
}

func (c *fconn) Close() error {
	vsched.Point("conn.Close")
	c.mu.Lock()
	c.closed = true
	c.nclose++
	c.mu.Unlock()
	vsched.Obs("conn-close", "conn=%d", c.id)
	return nil
}

type fstate struct {
	w        *world
	mu       sync.Mutex
	fwd      map[string]bool
	autoconf map[string]bool
	fwdErr   error
}

func (s *fstate) IPv6Forwarding(iface string) (bool, error) {
	vsched.Point("state.IPv6Forwarding")
	s.mu.Lock()
	v, err := s.fwd[iface], s.fwdErr
	s.mu.Unlock()
	vsched.Obs("fwd-read", "%s=%t err=%v", iface, v, err)
	s.w.mu.Lock()
	s.w.nFwd++
	nf, hf := s.w.nFwd, s.w.hookFwd
	s.w.mu.Unlock()
	if hf != nil {
		hf(nf)
	}
	return v, err
}
func (s *fstate) IPv6Autoconf(iface string) (bool, error) {
	vsched.Point("state.IPv6Autoconf")
	s.mu.Lock()
	v := s.autoconf[iface]
	s.mu.Unlock()
	vsched.Obs("autoconf-read", "%s=%t", iface, v)
	return v, nil
}
func (s *fstate) SetIPv6Autoconf(iface string, enable bool) error {
	vsched.Point("state.SetIPv6Autoconf")
	s.mu.Lock()
	s.autoconf[iface] = enable
	s.mu.Unlock()
	vsched.Obs("autoconf-set", "%s=%t", iface, enable)
	return nil
}
func (s *fstate) setFwd(iface string, v bool) {
	s.mu.Lock()
	s.fwd[iface] = v
	s.mu.Unlock()
	vsched.Obs("fwd-set", "%s=%t", iface, v)
}

type world struct {
	mu     sync.Mutex
	start  time.Time
	conns  []*fconn
	writes []wrec
	st     *fstate
	mem    *metricslite.Memory
	mm     *Metrics
	logb   *lockedBuf
	cctx   *Context
	mac    net.HardwareAddr

	// dialFault(n) is asked before the n-th open (0-based); non-nil fails it.
	dialFault  func(n int) error
	writeFault func(c *fconn, dst netip.Addr) error
	// writeFaultRA is like writeFault but also sees the advertisement.
	writeFaultRA func(c *fconn, dst netip.Addr, ra *ndp.RouterAdvertisement) error
	latency      bool
	// writeTime: every transmission stays in flight for this long (virtual time).
	writeTime time.Duration
	// hooks called (in the calling goroutine) when the n-th (1-based) WriteTo
	// begins / forwarding read happens: used to arm harness threads at
	// constructed instants.
	hookWrite    func(n int, dst netip.Addr)
	hookFwd      func(n int)
	nWrite, nFwd int

	ndial int
	// nread: messages handed to the code under test by a successful ReadFrom.
	nread int
}

func (w *world) reads() int {
	w.mu.Lock()
	defer w.mu.Unlock()
	return w.nread
}

func (w *world) now() time.Duration { return time.Since(w.start) }

// macOf is the hardware address the interface has while connection id is current.
func (w *world) macOf(id int) net.HardwareAddr {
	m := append(net.HardwareAddr(nil), w.mac...)
	m[5] = byte(1 + id)
	return m
}

func (w *world) conn() *fconn {
	w.mu.Lock()
	defer w.mu.Unlock()
	if len(w.conns) == 0 {
		return nil
	}
	return w.conns[len(w.conns)-1]
}

func (w *world) Writes() []wrec {
	w.mu.Lock()
	defer w.mu.Unlock()
	return append([]wrec(nil), w.writes...)
}

// newWorld builds the fake environment and installs the dial seams. ifis are
// the interfaces the metrics know about.
func newWorld(ifis []config.Interface, fwd bool) *world {
	w := &world{start: time.Now(), logb: &lockedBuf{}, mac: net.HardwareAddr{2, 0, 0, 0, 0, 1}}
	w.st = &fstate{w: w, fwd: map[string]bool{}, autoconf: map[string]bool{}}
	for _, i := range ifis {
		w.st.fwd[i.Name] = fwd
		w.st.autoconf[i.Name] = true
	}
	w.mem = metricslite.NewMemory()
	w.mm = NewMetrics(w.mem, "verif", time.Time{}, w.st, ifis)
	w.cctx = NewContext(log.New(w.logb, "", 0), w.mm, w.st)
	system.VerifSetDialSeams(
		func(name string) (*net.Interface, error) {
			vsched.Point("dial.lookupInterface")
			w.mu.Lock()
			n := w.ndial
			w.ndial++
			w.mu.Unlock()
			vsched.Obs("dial", "attempt=%d iface=%s", n, name)
			if w.dialFault != nil {
				if err := w.dialFault(n); err != nil {
					vsched.Obs("dial-failed", "attempt=%d %v", n, err)
					return nil, err
				}
			}
			// Every (re-)dial sees the interface with a different hardware address, so
			// that state bound to the interface at an earlier dial is visible.
			w.mu.Lock()
			mac := w.macOf(len(w.conns))
			w.mu.Unlock()
			return &net.Interface{Index: 1, Name: name, HardwareAddr: mac, Flags: net.FlagUp, MTU: 1500}, nil
		},
		func(*net.Interface, func() ([]net.Addr, error)) error { return nil },
		func(ifi *net.Interface) (system.VerifNDPConn, netip.Addr, error) {
			w.mu.Lock()
			c := &fconn{w: w, id: len(w.conns), in: make(chan inMsg, 256), dl: make(chan struct{})}
			w.conns = append(w.conns, c)
			w.mu.Unlock()
			vsched.Obs("conn-open", "conn=%d", c.id)
			return c, netip.MustParseAddr("fe80::1"), nil
		},
	)
	return w
}

func (w *world) done() { system.VerifSetDialSeams(nil, nil, nil) }

// inject queues a message on the current connection (if any).
func (w *world) inject(m inMsg) bool {
	c := w.conn()
	if c == nil || c.isClosed() {
		vsched.Obs("inject-dropped", "no open connection")
		return false
	}
	vsched.Point("harness:inject")
	select {
	case c.in <- m:
		vsched.Obs("inject", "conn=%d %s", c.id, describeIn(m))
		return true
	default:
		vsched.Obs("inject-dropped", "queue full")
		return false
	}
}

func describeIn(m inMsg) string {
	if m.err != nil {
		return "error " + m.err.Error()
	}
	return fmt.Sprintf("%s hop=%d from=%s", m.m.Type(), m.hop, m.from)
}

func rsFrom(src string, slla bool) inMsg {
	rs := &ndp.RouterSolicitation{}
	if slla {
		rs.Options = []ndp.Option{&ndp.LinkLayerAddress{Direction: ndp.Source, Addr: net.HardwareAddr{2, 0, 0, 0, 0, 0x99}}}
	}
	return inMsg{m: rs, hop: 255, from: netip.MustParseAddr(src).WithZone("eth0")}
}

var errInjected = errors.New("verif: injected I/O error")

// advWorld: one advertising interface with the real Advertiser + real Dialer.
type advWorld struct {
	*world
	cfg    config.Interface
	adv    *Advertiser
	term   *terminator
	watchC chan netstate.Change
	ctx    context.Context
	cancel context.CancelFunc

	runMu  sync.Mutex
	runRet bool
	runErr error
	runAt  time.Duration
}

func newAdvWorld(cfg config.Interface, fwd bool, watch bool) *advWorld {
	return newAdvWorldIfis(cfg, []config.Interface{cfg}, fwd, watch)
}

// newAdvWorldIfis: as newAdvWorld, with metrics built over all of ifis (as main.go does).
func newAdvWorldIfis(cfg config.Interface, ifis []config.Interface, fwd bool, watch bool) *advWorld {
	a := &advWorld{world: newWorld(ifis, fwd), cfg: cfg, term: &terminator{}}
	if watch {
		a.watchC = make(chan netstate.Change, 8)
	}
	d := system.NewDialer(cfg.Name, a.st, system.Advertise, log.New(a.logb, "", 0))
	var wc <-chan netstate.Change
	if a.watchC != nil {
		wc = a.watchC
	}
	a.adv = NewAdvertiser(a.cctx, cfg, d, wc, a.term.terminate)
	a.ctx, a.cancel = context.WithCancel(context.Background())
	return a
}

// run is the body of the advertiser thread.
func (a *advWorld) run() {
	err := a.adv.Run(a.ctx)
	a.runMu.Lock()
	a.runRet, a.runErr, a.runAt = true, err, a.now()
	a.runMu.Unlock()
	vsched.Obs("run-returned", "%v", err)
}

func (a *advWorld) returned() (bool, error, time.Duration) {
	a.runMu.Lock()
	defer a.runMu.Unlock()
	return a.runRet, a.runErr, a.runAt
}

func staticCfg(name string, min, max time.Duration) config.Interface {
	return config.Interface{
		Name: name, Advertise: true, MinInterval: min, MaxInterval: max,
		HopLimit: 64, DefaultLifetime: 1800 * time.Second, Preference: ndp.Medium,
	}
}

func isAllNodes(a netip.Addr) bool { return a == netip.IPv6LinkLocalAllNodes() }

// monWorld: one monitoring interface with the real Monitor + real Dialer.
type monWorld struct {
	*world
	mon    *Monitor
	watchC chan netstate.Change
	ctx    context.Context
	cancel context.CancelFunc

	runMu  sync.Mutex
	runRet bool
	runErr error
}

func newMonWorld(name string, watch bool) *monWorld {
	ifi := config.Interface{Name: name, Monitor: true}
	m := &monWorld{world: newWorld([]config.Interface{ifi}, false)}
	if watch {
		m.watchC = make(chan netstate.Change, 8)
	}
	d := system.NewDialer(name, m.st, system.Monitor, log.New(m.logb, "", 0))
	var wc <-chan netstate.Change
	if m.watchC != nil {
		wc = m.watchC
	}
	m.mon = NewMonitor(m.cctx, name, d, wc, false)
	m.ctx, m.cancel = context.WithCancel(context.Background())
	return m
}

func (m *monWorld) run() {
	err := m.mon.Run(m.ctx)
	m.runMu.Lock()
	m.runRet, m.runErr = true, err
	m.runMu.Unlock()
	vsched.Obs("run-returned", "%v", err)
}

func (m *monWorld) returned() (bool, error) {
	m.runMu.Lock()
	defer m.runMu.Unlock()
	return m.runRet, m.runErr
}

// sample returns the value of one series sample ("" labels key as metricslite builds it).
func sample(ss map[string]metricslite.Series, name, key string) (float64, bool) {
	s, ok := ss[name]
	if !ok {
		return 0, false
	}
	v, ok := s.Samples[key]
	return v, ok
}
