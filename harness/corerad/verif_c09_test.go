//go:build verif

package corerad

import (
	"encoding/json"
	"errors"
	"fmt"
	"net/netip"
	"os"
	"strconv"
	"strings"
	"testing"
	"time"

	"github.com/mdlayher/corerad/verifrt/enum"
	"github.com/mdlayher/corerad/verifrt/ev"
	"github.com/mdlayher/corerad/verifrt/vsched"
	"github.com/mdlayher/metricslite"
	"github.com/mdlayher/ndp"
)

// C09: invalid NDP messages (hop limit != 255, or a type other than RS/RA on an
// advertiser) are counted and otherwise ignored, and no number or pattern of
// them stops the advertiser / monitor from serving the valid ones that follow.

type c09Msg struct {
	Type string `json:"type"` // RS RA NS NA
	Hop  int    `json:"hop"`
	// StateFault: the forwarding sysctl cannot be read while this message arrives and is
	// handled (it can again 10 ms later): an ignored message needs no system state.
	StateFault bool `json:"while_forwarding_unreadable,omitempty"`
}

func (m c09Msg) in() inMsg {
	if m.Type == "TO" {
		return inMsg{err: timeoutErr{}} // a transient receive timeout
	}
	from := netip.MustParseAddr("fe80::1").WithZone("eth0")
	var msg ndp.Message
	switch m.Type {
	case "RS":
		msg = &ndp.RouterSolicitation{}
	case "RA":
		// Another router's RA: consistent with ours except what is never compared.
		msg = &ndp.RouterAdvertisement{CurrentHopLimit: 64, RouterLifetime: 30 * time.Second}
		from = netip.MustParseAddr("fe80::2").WithZone("eth0")
	case "NS":
		msg = &ndp.NeighborSolicitation{TargetAddress: netip.MustParseAddr("fe80::9")}
	case "NS0":
		// A duplicate-address-detection probe: neighbor solicitation from the unspecified address.
		msg = &ndp.NeighborSolicitation{TargetAddress: netip.MustParseAddr("fe80::9")}
		from = netip.MustParseAddr("::").WithZone("eth0")
	case "NA":
		msg = &ndp.NeighborAdvertisement{TargetAddress: netip.MustParseAddr("fe80::9")}
	}
	return inMsg{m: msg, hop: m.Hop, from: from}
}

func (m c09Msg) typeLabel() string {
	return map[string]string{"RS": "router solicitation", "RA": "router advertisement", "NS": "neighbor solicitation", "NS0": "neighbor solicitation", "NA": "neighbor advertisement"}[m.Type]
}

type c09Case struct {
	Monitor bool     `json:"monitor"`
	Verbose bool     `json:"verbose,omitempty"`
	Seq     []c09Msg `json:"messages"`
}

func (c c09Case) String() string {
	var s []string
	for _, m := range c.Seq {
		if m.StateFault {
			s = append(s, fmt.Sprintf("%s/%d(state unreadable)", m.Type, m.Hop))
			continue
		}
		s = append(s, fmt.Sprintf("%s/%d", m.Type, m.Hop))
	}
	k := "adv"
	if c.Monitor {
		k = "mon"
	}
	if c.Verbose {
		k += "(verbose)"
	}
	return k + ":" + strings.Join(s, " ")
}

type c09Result struct {
	series   map[string]metricslite.Series
	returned bool
	runErr   error
	writes   []wrec
	dials    int
}

func c09Scenario(c c09Case, res *c09Result) *vsched.Scenario {
	return &vsched.Scenario{
		Name:    "c09",
		Horizon: 10 * time.Minute,
		Setup: func(x *vsched.Exec) {
			var w *world
			var cancel func()
			var returned func() (bool, error)
			if c.Monitor {
				m := newMonWorld("eth0", false)
				m.mon.verbose = c.Verbose
				w, cancel = m.world, m.cancel
				returned = m.returned
				x.Spawn("monitor", m.run)
			} else {
				// Long intervals: no periodic RA interferes within the script.
				vcfg := staticCfg("eth0", 200*time.Second, 600*time.Second)
				vcfg.Verbose = c.Verbose
				a := newAdvWorld(vcfg, true, false)
				w, cancel = a.world, a.cancel
				returned = func() (bool, error) { r, e, _ := a.returned(); return r, e }
				x.Spawn("advertiser", a.run)
			}
			x.Spawn("driver", func() {
				defer w.done()
				vsched.Sleep(10 * time.Second) // past the rate-limited first periodic RA
				for _, m := range c.Seq {
					if m.StateFault {
						w.st.mu.Lock()
						w.st.fwdErr = errors.New("verif: too many open files")
						w.st.mu.Unlock()
					}
					w.inject(m.in())
					vsched.Sleep(10 * time.Millisecond)
					if m.StateFault {
						w.st.mu.Lock()
						w.st.fwdErr = nil
						w.st.mu.Unlock()
					}
				}
				vsched.Sleep(2 * time.Second)
				res.returned, res.runErr = returned()
				res.series = w.mem.Series()
				res.writes = w.Writes()
				w.mu.Lock()
				res.dials = w.ndial
				w.mu.Unlock()
				vsched.Obs("script-end", "")
				cancel()
				vsched.Sleep(2 * time.Second)
				x.Finish()
			})
		},
	}
}

func c09Check(c c09Case, x *vsched.Exec, res *c09Result) (out [][2]string) {
	bad := func(sig, format string, a ...any) {
		out = append(out, [2]string{sig, fmt.Sprintf(format, a...)})
	}
	if x.Failure != "" {
		bad("C09:"+x.FailKind, "%s", x.Failure)
		return out
	}
	if res.series == nil {
		bad("C09:harness", "script did not complete")
		return out
	}
	if res.returned {
		bad("C09:task-stopped", "Run returned (%v) although only invalid messages could have disturbed it", res.runErr)
	}
	if res.dials != 1 {
		bad("C09:re-dialled", "interface was dialled %d times", res.dials)
	}
	valid := func(m c09Msg) bool {
		if m.Hop != 255 {
			return false
		}
		return c.Monitor || m.Type == "RS" || m.Type == "RA"
	}
	wantInvalid := map[string]float64{}
	wantRecv := map[string]float64{}
	wantUnicast := 0
	for _, m := range c.Seq {
		if m.Type == "TO" {
			continue
		}
		switch {
		case valid(m):
			wantRecv[m.typeLabel()]++
			if !c.Monitor && m.Type == "RS" {
				wantUnicast++
			}
		default:
			wantInvalid[m.typeLabel()]++
			// An advertiser receives (and counts as received) a well-formed message of a
			// type it does not serve before it ignores it; the statement only fixes the
			// invalid counter, so received-by-type is compared for RS/RA only.
		}
	}
	for _, typ := range []string{"router solicitation", "router advertisement", "neighbor solicitation", "neighbor advertisement"} {
		got, _ := sample(res.series, msgInvalid, "interface=eth0,message="+typ)
		if got != wantInvalid[typ] {
			bad("C09:invalid-counter", "messages_received_invalid_total{%s} = %v, want %v", typ, got, wantInvalid[typ])
		}
	}
	// Responsiveness: every message is read within the legitimate receive back-off
	// (at most 4 timeouts here; their waits 0+50+100+150 ms may add up to 300 ms).
	var injT, readT []time.Duration
	for _, e := range x.Log {
		if e.Kind == "inject" && !strings.Contains(e.Detail, "error") {
			injT = append(injT, e.T)
		}
		if e.Kind == "read" {
			readT = append(readT, e.T)
		}
	}
	for i := range injT {
		if i >= len(readT) {
			bad("C09:message-not-read", "message %d injected at %s was never read", i, injT[i])
			break
		}
		if d := readT[i] - injT[i]; d > 310*time.Millisecond {
			bad("C09:listener-stalled", "message %d injected at %s was read %s later (the receive back-off adds up to at most 300ms here)", i, injT[i], d)
			break
		}
	}
	if c.Monitor {
		for _, typ := range []string{"router solicitation", "router advertisement", "neighbor solicitation", "neighbor advertisement"} {
			var got float64
			for k, v := range res.series[monReceived].Samples {
				if strings.HasSuffix(k, "message="+typ) {
					got += v
				}
			}
			if got != wantRecv[typ] {
				bad("C09:monitor-received", "monitor_messages_received_total{%s} = %v, want %v (invalid messages must not produce monitor metrics)", typ, got, wantRecv[typ])
			}
		}
		if len(res.writes) != 0 {
			bad("C09:monitor-transmitted", "monitor transmitted %d packets", len(res.writes))
		}
		return out
	}
	for _, typ := range []string{"router solicitation", "router advertisement"} {
		got, _ := sample(res.series, "corerad_advertiser_messages_received_total", "interface=eth0,message="+typ)
		if got != wantRecv[typ] {
			bad("C09:handled-count", "advertiser_messages_received_total{%s} = %v, want %v", typ, got, wantRecv[typ])
		}
	}
	gotU := 0
	for _, w := range res.writes {
		if w.T > 5*time.Second && !isAllNodes(w.Dst) {
			gotU++
		}
		// No periodic RA is due during the script (intervals of 200-600 s; the first one,
		// capped at 16 s, comes after it) and no message of the alphabet is a solicitation
		// from the unspecified address: a multicast RA now was triggered by an invalid message.
		if w.T > 5*time.Second && isAllNodes(w.Dst) {
			bad("C09:invalid-triggered-ra", "a multicast RA was transmitted at %s although nothing valid asked for one", w.T)
			break
		}
	}
	if gotU != wantUnicast {
		sig := "C09:valid-not-served"
		if gotU > wantUnicast {
			sig = "C09:invalid-triggered-ra"
		}
		bad(sig, "%d valid solicitations, %d unicast RAs after the script began", wantUnicast, gotU)
	}
	return out
}

func c09Run(t *testing.T, c c09Case) (*vsched.Exec, [][2]string) {
	var res c09Result
	x := vsched.RunOnce(t, c09Scenario(c, &res), nil)
	return x, c09Check(c, x, &res)
}

func TestVerifC09(t *testing.T) {
	r := ev.Begin("C09", "sequences")
	defer r.End(t)
	r.Rule = "message sequences fed to the real advertiser and the real monitor (with and without verbose logging) (instrumented, virtual clock, canonical schedule): (a) every single message type {RS,RA,NS,NA} x every hop limit 0..255; (b) all sequences of length<=L over {valid RS, RS hop 64, NS hop 255, RA hop 1, transient receive timeout (at most 4)} followed by a valid RS, and (length<=3; thorough: all) ending there with the listener left waiting; (d) on the advertiser, NS / NA / DAD probes (hop limit 255 and 64) and bad-hop RS/RA arriving while the forwarding sysctl is unreadable, between and before valid RS; (c) runs of 1..12 consecutive invalid messages (pure, mixed, with a timeout inside; retry budget is 5) ending there and followed by a valid RS; counters are read while the task is still running; oracle: invalid counter = number of invalid messages by type, handled/monitor counters = valid ones, one unicast RA per valid RS, every message read within 310ms of its arrival (receive back-off never grows with invalid traffic), Run still running and no re-dial at the end; states = sequences executed; non-trivial = sequence contains an invalid message; distinct = distinct (mode, sequence)"
	if r.Replay != nil {
		var c c09Case
		if err := json.Unmarshal(r.Replay, &c); err != nil {
			t.Fatalf("bad replay: %v", err)
		}
		x, vs := c09Run(t, c)
		r.Case(c.String(), true)
		r.Sample(map[string]any{"case": c.String(), "log": strings.Split(x.LogString(), "\n")})
		fmt.Printf("case %s\n%s", c, x.LogString())
		for _, v := range vs {
			r.Violation(v[0], v[1], c)
		}
		return
	}
	L := 5
	if r.Thorough() {
		L = 7
	}
	if s := os.Getenv("VERIF_DEPTH"); s != "" {
		L, _ = strconv.Atoi(s)
	}
	idx := 0
	one := func(c c09Case) {
		idx++
		if !r.Mine(idx) {
			return
		}
		x, vs := c09Run(t, c)
		nontrivial := false
		for _, m := range c.Seq {
			if m.Hop != 255 || (!c.Monitor && (m.Type == "NS" || m.Type == "NA")) {
				nontrivial = true
			}
		}
		r.Case(c.String(), nontrivial)
		r.Count("states", 1)
		r.Count("transitions", int64(x.Steps))
		r.Count("traces_validated_against_impl", 1)
		r.Outcome(fmt.Sprint(len(vs) == 0))
		r.Sample(c.String())
		for _, v := range vs {
			r.Violation(v[0], c.String()+": "+v[1], c)
		}
	}
	for _, mon := range []bool{false, true} {
		for _, typ := range []string{"RS", "RA", "NS", "NS0", "NA"} {
			for h := 0; h <= 255; h++ {
				if !r.Thorough() && h > 3 && h < 252 && h != 64 && h != 128 {
					continue
				}
				one(c09Case{Monitor: mon, Seq: []c09Msg{{Type: typ, Hop: h}, {Type: "RS", Hop: 255}}})
				if h == 64 || h == 0 || h == 254 {
					one(c09Case{Monitor: mon, Verbose: true, Seq: []c09Msg{{Type: typ, Hop: h}, {Type: "RS", Hop: 255}}})
				}
			}
		}
		// Long runs of consecutive invalid messages (well beyond the retry budget of 5),
		// pure and mixed, with and without a transient timeout inside.
		for k := 1; k <= 12; k++ {
			for _, kind := range []string{"rs", "ra", "mixed", "mixed+timeout"} {
				var c c09Case
				c.Monitor = mon
				for j := 0; j < k; j++ {
					switch {
					case kind == "rs" || (kind != "ra" && j%2 == 0):
						c.Seq = append(c.Seq, c09Msg{Type: "RS", Hop: 64})
					default:
						c.Seq = append(c.Seq, c09Msg{Type: "RA", Hop: 1})
					}
					if kind == "mixed+timeout" && j == k/2 {
						c.Seq = append(c.Seq, c09Msg{Type: "TO"})
					}
				}
				one(c) // the run of invalid messages is the last thing received
				c.Seq = append(append([]c09Msg(nil), c.Seq...), c09Msg{Type: "RS", Hop: 255})
				one(c)
				if k <= 6 {
					c.Verbose = true // verbose logging must not change what is delivered
					one(c)
				}
			}
		}
		alpha := []c09Msg{{Type: "RS", Hop: 255}, {Type: "RS", Hop: 64}, {Type: "NS", Hop: 255}, {Type: "NS0", Hop: 255}, {Type: "RA", Hop: 1}, {Type: "TO"}}
		if !mon {
			// (Advertiser only: messages it ignores, arriving while the system state is unreadable.)
			for _, typ := range []string{"NS", "NA", "NS0"} {
				for _, hop := range []int{255, 64} {
					one(c09Case{Seq: []c09Msg{{Type: "RS", Hop: 255}, {Type: typ, Hop: hop, StateFault: true}, {Type: "RS", Hop: 255}}})
					one(c09Case{Seq: []c09Msg{{Type: typ, Hop: hop, StateFault: true}, {Type: typ, Hop: hop, StateFault: true}}})
				}
			}
			one(c09Case{Seq: []c09Msg{{Type: "RS", Hop: 64, StateFault: true}, {Type: "RA", Hop: 1, StateFault: true}, {Type: "RS", Hop: 255}}})
		}
		enum.Sequences(len(alpha), L, func(seq []int) bool {
			if len(seq) == 0 {
				return true
			}
			var c c09Case
			c.Monitor = mon
			nto := 0
			for _, s := range seq {
				c.Seq = append(c.Seq, alpha[s])
				if alpha[s].Type == "TO" {
					nto++
				}
			}
			if nto > 4 {
				return true // five timeouts legitimately exhaust the retry budget (C10's subject)
			}
			// The same history ending here (the listener is left waiting for the next
			// message: what was received must already be counted), and followed by a
			// valid solicitation.
			if len(seq) <= 3 || r.Thorough() {
				one(c)
			}
			c.Seq = append(append([]c09Msg(nil), c.Seq...), c09Msg{Type: "RS", Hop: 255})
			one(c)
			return !r.OverBudget()
		})
	}
	if r.OverBudget() {
		r.Capped("wall-clock budget reached")
	}
	r.Max("max_depth", int64(L+1))
}
