//go:build verif

package corerad

import (
	"context"
	"encoding/json"
	"errors"
	"fmt"
	"io"
	"log"
	"net"
	"net/http"
	"strings"
	"testing"
	"testing/synctest"
	"time"

	"github.com/mdlayher/corerad/internal/config"
	"github.com/mdlayher/corerad/verifrt/enum"
	"github.com/mdlayher/corerad/verifrt/ev"
)

// C20 part 1 (ENUM): BuildTasks yields one task per advertising or monitoring
// interface (none for an interface that does neither), the debug HTTP server
// iff an address is configured, and the link watcher; serve() retries listener
// errors up to 40 times, delay apart, and returns nil on cancellation.

type c20Build struct {
	Modes []string `json:"interface_modes"` // advertise | monitor | neither
	Debug bool     `json:"debug_address"`
}

func c20BuildCheck(c c20Build) (out [][2]string) {
	bad := func(sig, format string, a ...any) {
		out = append(out, [2]string{sig, ev.JSON(c) + ": " + fmt.Sprintf(format, a...)})
	}
	var cfg config.Config
	var want []string
	for i, m := range c.Modes {
		ifi := config.Interface{Name: fmt.Sprintf("eth%d", i), Advertise: m == "advertise", Monitor: m == "monitor"}
		cfg.Interfaces = append(cfg.Interfaces, ifi)
		switch m {
		case "advertise":
			want = append(want, fmt.Sprintf("*corerad.Advertiser advertiser %q", ifi.Name))
		case "monitor":
			want = append(want, fmt.Sprintf("*corerad.Monitor monitor %q", ifi.Name))
		}
	}
	if c.Debug {
		cfg.Debug = config.Debug{Address: "localhost:9430"}
		want = append(want, `*corerad.httpTask debug HTTP server "localhost:9430"`)
	}
	want = append(want, "*corerad.watcherTask link state watcher")
	s := NewServer(NewContext(log.New(io.Discard, "", 0), nil, nil))
	var got []string
	var pv any
	func() {
		defer func() { pv = recover() }()
		for _, t := range s.BuildTasks(cfg, http.NotFoundHandler()) {
			got = append(got, fmt.Sprintf("%T %s", t, t))
		}
	}()
	if pv != nil {
		bad("C20:build:panic", "BuildTasks panicked: %v", pv)
		return out
	}
	if fmt.Sprint(got) != fmt.Sprint(want) {
		sig := "C20:build:tasks"
		if len(got) > len(want) {
			sig = "C20:build:extra-task"
		} else if len(got) < len(want) {
			sig = "C20:build:missing-task"
		}
		bad(sig, "tasks %q, want %q", got, want)
	}
	return out
}

type c20Serve struct {
	Answers []string `json:"listener_answers"` // operror | closed | other | cancel+operror
}

func c20ServeCheck(t *testing.T, c c20Serve) (out [][2]string) {
	bad := func(sig, format string, a ...any) {
		out = append(out, [2]string{sig, ev.JSON(c) + ": " + fmt.Sprintf(format, a...)})
	}
	synctest.Test(t, func(t *testing.T) {
		ctx, cancel := context.WithCancel(context.Background())
		defer cancel()
		start := time.Now()
		var calls []time.Duration
		otherErr := errors.New("verif: other listener error")
		err := serve(ctx, log.New(io.Discard, "", 0), 3*time.Second, func() error {
			i := len(calls)
			calls = append(calls, time.Since(start))
			a := "operror"
			if i < len(c.Answers) {
				a = c.Answers[i]
			}
			switch a {
			case "closed":
				return http.ErrServerClosed
			case "other":
				return otherErr
			case "cancel+operror":
				cancel()
			}
			return &net.OpError{Op: "listen", Net: "tcp", Err: errors.New("address already in use")}
		})
		took := time.Since(start)
		// Reference.
		wantCalls, wantErr := 0, "timed out"
		cancelled := false
		for i := 0; i < 40; i++ {
			wantCalls++
			a := "operror"
			if i < len(c.Answers) {
				a = c.Answers[i]
			}
			if a == "closed" {
				wantErr = "<nil>"
				break
			}
			if a == "other" {
				wantErr = otherErr.Error()
				break
			}
			if a == "cancel+operror" {
				wantErr = "<nil>"
				cancelled = true
				break
			}
		}
		if len(calls) != wantCalls {
			bad("C20:serve:attempts", "listener function called %d times, want %d", len(calls), wantCalls)
		}
		for i := range calls {
			if calls[i] != time.Duration(i)*3*time.Second {
				bad("C20:serve:delay", "attempt %d at %s, want %s", i, calls[i], time.Duration(i)*3*time.Second)
				break
			}
		}
		got := fmt.Sprint(err)
		if (wantErr == "<nil>") != (err == nil) || (err != nil && !strings.Contains(got, wantErr)) {
			bad("C20:serve:result", "serve returned %q, want %q", got, wantErr)
		}
		if cancelled && took != calls[len(calls)-1] {
			bad("C20:serve:cancel-not-prompt", "serve returned %s after the cancelling attempt", took-calls[len(calls)-1])
		}
	})
	return out
}

func TestVerifC20(t *testing.T) {
	r := ev.Begin("C20", "enum")
	defer r.End(t)
	r.Rule = "BuildTasks: all configurations with 1..3 interfaces x {advertise, monitor, neither} x debug address {set, empty} (78 configurations), oracle on the types and String()s of the returned tasks in order; serve(): every listener answer sequence of length<=4 over {net.OpError, ErrServerClosed, other, cancel} followed by OpErrors up to the 40-attempt budget, under a virtual clock, against a reference of attempts, 3s spacing and result; non-trivial = every case; distinct = distinct case"
	if r.Replay != nil {
		var raw map[string]json.RawMessage
		_ = json.Unmarshal(r.Replay, &raw)
		if _, ok := raw["interface_modes"]; ok {
			var c c20Build
			_ = json.Unmarshal(r.Replay, &c)
			r.Case(ev.JSON(c), true)
			r.Sample(c)
			for _, v := range c20BuildCheck(c) {
				r.Violation(v[0], v[1], c)
			}
		} else {
			var c c20Serve
			_ = json.Unmarshal(r.Replay, &c)
			r.Case(ev.JSON(c), true)
			r.Sample(c)
			for _, v := range c20ServeCheck(t, c) {
				r.Violation(v[0], v[1], c)
			}
		}
		return
	}
	modes := []string{"advertise", "monitor", "neither"}
	for n := 1; n <= 3; n++ {
		dims := make([]int, n)
		for i := range dims {
			dims[i] = 3
		}
		enum.Product(dims, func(tp []int) bool {
			for _, dbg := range []bool{false, true} {
				c := c20Build{Debug: dbg}
				for _, m := range tp {
					c.Modes = append(c.Modes, modes[m])
				}
				r.Case(ev.JSON(c), true)
				r.Sample(c)
				for _, v := range c20BuildCheck(c) {
					r.Violation(v[0], v[1], c)
				}
			}
			return true
		})
	}
	ans := []string{"operror", "closed", "other", "cancel+operror"}
	enum.Sequences(len(ans), 4, func(seq []int) bool {
		c := c20Serve{}
		for _, s := range seq {
			c.Answers = append(c.Answers, ans[s])
		}
		r.Case(ev.JSON(c), true)
		r.Sample(c)
		for _, v := range c20ServeCheck(t, c) {
			r.Violation(v[0], v[1], c)
		}
		return true
	})
}
