//go:build verif && vsched

package corerad

import (
	"context"
	"errors"
	"fmt"
	"os"
	"sort"
	"strings"
	"syscall"
	"testing"
	"time"

	"github.com/mdlayher/corerad/internal/config"
	"github.com/mdlayher/corerad/internal/netstate"
	"github.com/mdlayher/corerad/verifrt/ev"
	"github.com/mdlayher/corerad/verifrt/sdnotify"
	"github.com/mdlayher/corerad/verifrt/vsched"
)

// C10, wiring: "a link-state change promptly stops every activity of that interface's
// task" end to end. The tasks are the ones the real BuildTasks makes for an advertising,
// a monitoring and an idle interface, supervised by the real Serve, subscribed to the
// real Watcher whose event source is the harness. A change on one interface must tear
// down and re-establish exactly that interface's task, a change nobody subscribed to
// (link up; the idle interface) nothing.

type c10WiringCase struct {
	Name  string     `json:"name"`
	Kind  string     `json:"interface"` // adv: advertising eth0 + idle eth2; mon: monitoring eth1 + idle eth2
	Steps [][]string `json:"batches"`   // each batch: "iface:down" | "iface:up"
	// WatchFails: after the batches the event source fails with an error (C20 part).
	WatchFails bool `json:"watch_fails,omitempty"`
}

func c10WiringCases() []c10WiringCase {
	// One subscribed interface per scenario (the Watcher keeps subscribers in Go maps,
	// whose iteration order the explorer does not control; with one key every execution
	// is reproducible), next to an idle one nobody subscribes for.
	return []c10WiringCase{
		{Name: "advertiser", Kind: "adv", Steps: [][]string{{"eth0:down"}, {"eth2:down", "eth0:up"}, {"eth0:down"}}},
		{Name: "monitor", Kind: "mon", Steps: [][]string{{"eth1:down"}, {"eth1:down"}, {"eth2:down", "eth1:up"}}},
	}
}

func c10WiringScenario(c c10WiringCase) *vsched.Scenario {
	var w *world
	sc := &vsched.Scenario{
		Name:    c.Name,
		Horizon: 5 * time.Minute,
		Setup: func(x *vsched.Exec) {
			ifis := []config.Interface{staticCfg("eth0", 4*time.Second, 4*time.Second), {Name: "eth2"}}
			if c.Kind == "mon" {
				ifis = []config.Interface{{Name: "eth1", Monitor: true}, {Name: "eth2"}}
			}
			w = newWorld(ifis, true)
			batchC := make(chan map[string][]netstate.Change)
			srv := NewServer(w.cctx)
			srv.w = netstate.VerifNewWatcher(func(ctx context.Context, notify func(map[string][]netstate.Change)) error {
				for {
					s := vsched.Select("harness:watch", false, vsched.RecvCase(batchC), vsched.RecvCase(ctx.Done()))
					select {
					case b := <-vsched.MR(s, 0, batchC):
						vsched.Woke(s, "harness:watch")
						if b == nil {
							vsched.Obs("watch-failed", "")
							return errors.New("verif: netlink socket failed")
						}
						// One interface per notification, in name order: the Watcher ranges over
						// the batch (a Go map) in an order the explorer does not control.
						var names []string
						for n := range b {
							names = append(names, n)
						}
						sort.Strings(names)
						for _, n := range names {
							notify(map[string][]netstate.Change{n: b[n]})
						}
					case <-vsched.MR(s, 1, ctx.Done()):
						vsched.Woke(s, "harness:watch")
						return nil
					}
				}
			})
			tasks := srv.BuildTasks(config.Config{Interfaces: ifis}, nil)
			vsched.Obs("tasks", "%d", len(tasks))
			sigC := make(chan os.Signal, 1)
			x.Spawn("serve", func() {
				err := srv.Serve(sigC, &sdnotify.Notifier{}, tasks)
				vsched.Obs("serve-returned", "%v", err)
			})
			x.Spawn("driver", func() {
				defer w.done()
				vsched.Sleep(5 * time.Second)
				vsched.Mark()
				for i, b := range c.Steps {
					m := map[string][]netstate.Change{}
					for _, e := range b {
						f := strings.Split(e, ":")
						ch := netstate.LinkDown
						if f[1] == "up" {
							ch = netstate.LinkUp
						}
						m[f[0]] = append(m[f[0]], ch)
					}
					vsched.Obs("batch", "%d %v", i, b)
					vsched.Send("harness:batch", batchC, m)
					vsched.Sleep(2 * time.Second)
					vsched.Obs("batch-settled", "%d", i)
				}
				if c.WatchFails {
					vsched.Send("harness:batch", batchC, map[string][]netstate.Change(nil))
				} else {
					vsched.Obs("signal-sent", "TERM")
					vsched.Send("harness:signal", sigC, os.Signal(syscall.SIGTERM))
				}
				vsched.Sleep(2 * time.Second)
				x.Finish()
			})
		},
	}
	sc.Check = func(x *vsched.Exec) [][2]string { return c10WiringCheck(c, x) }
	return sc
}

// c10WiringCheck: the re-dial behaviour only (what C10 states).
func c10WiringCheck(c c10WiringCase, x *vsched.Exec) (out [][2]string) {
	bad := func(sig, format string, a ...any) {
		out = append(out, [2]string{sig, fmt.Sprintf(format, a...)})
	}
	if x.Failure != "" {
		return [][2]string{{"C10:wiring:" + x.FailKind, x.Failure}}
	}
	dials := map[string]int{}
	want := map[string]int{"eth0": 1, "eth1": 1}
	if c.Kind == "mon" {
		want["eth0"] = 0
	} else {
		want["eth1"] = 0
	}
	for _, e := range x.Log {
		switch e.Kind {
		case "dial":
			for _, f := range strings.Fields(e.Detail) {
				if strings.HasPrefix(f, "iface=") {
					dials[f[6:]]++
				}
			}
		case "batch":
			var i int
			fmt.Sscanf(e.Detail, "%d", &i)
			for _, ev := range c.Steps[i] {
				f := strings.Split(ev, ":")
				if f[1] == "down" && (f[0] == "eth0" || f[0] == "eth1") {
					want[f[0]]++
				}
			}
		case "batch-settled":
			for _, ifi := range []string{"eth0", "eth1", "eth2"} {
				if dials[ifi] != want[ifi] {
					bad("C10:wiring:redial:"+ifi, "2s after batch %s: %s was dialled %d time(s), want %d (a link-down on an interface re-establishes exactly that interface's task)", e.Detail, ifi, dials[ifi], want[ifi])
				}
			}
		}
	}
	return out
}

// c20WiringCheck: supervision of the real task set (what C20 states): one task per
// advertising/monitoring interface plus the link watcher, overall readiness announced
// once every task is ready, success on a signal, the watcher's failure reported after
// every task has returned.
func c20WiringCheck(c c10WiringCase, x *vsched.Exec) (out [][2]string) {
	bad := func(sig, format string, a ...any) {
		out = append(out, [2]string{sig, fmt.Sprintf(format, a...)})
	}
	if x.Failure != "" {
		return [][2]string{{"C20:wiring:" + x.FailKind, x.Failure}}
	}
	returned, ready, firstBatch := false, 0, false
	for _, e := range x.Log {
		switch e.Kind {
		case "tasks":
			if e.Detail != "2" { // the interface's task and the link watcher (no debug server configured)
				bad("C20:wiring:tasks", "BuildTasks made %s tasks for {one serving interface, one idle}, want 2", e.Detail)
			}
		case "notify":
			if strings.Contains(e.Detail, "READY=1") {
				ready++
			}
		case "batch":
			if !firstBatch {
				firstBatch = true
				if ready != 1 {
					bad("C20:wiring:ready", "5s after start, with every task initialised, READY=1 had been announced %d time(s)", ready)
				}
			}
		case "serve-returned":
			returned = true
			if c.WatchFails {
				if !strings.Contains(e.Detail, "netlink socket failed") {
					bad("C20:wiring:fatal-error-not-returned", "the link watcher failed but Serve returned %s", e.Detail)
				}
			} else if e.Detail != "<nil>" {
				bad("C20:wiring:serve", "Serve returned %s after SIGTERM", e.Detail)
			}
		}
	}
	if !returned {
		bad("C20:wiring:serve-did-not-return", "Serve did not return within 2s of the signal / the watcher's failure")
	}
	if ready > 1 {
		bad("C20:wiring:ready", "READY=1 announced %d times", ready)
	}
	return out
}

func TestVerifC20Wiring(t *testing.T) {
	r := ev.Begin("C20", "wiring")
	defer r.End(t)
	r.Rule = "executions = goroutine schedules within the deviation bound of the real Serve supervising the tasks the real BuildTasks makes for {advertising eth0 | monitoring eth1, plus idle eth2} with the real Watcher (scripted event source; 2 scripts ending in SIGTERM, 1 ending in a failure of the event source); oracle: 2 tasks, READY=1 exactly once within 5s, Serve returns nil after SIGTERM within 2s, returns the watcher's error when it fails"
	bound := 1
	if r.Thorough() {
		bound = 2
	}
	cases := append(c10WiringCases(), c10WiringCase{Name: "watcher-fails", Kind: "adv", Steps: [][]string{{"eth0:down"}}, WatchFails: true})
	build := func(c c10WiringCase) *vsched.Scenario {
		sc := c10WiringScenario(c)
		sc.Check = func(x *vsched.Exec) [][2]string { return c20WiringCheck(c, x) }
		return sc
	}
	exploreCases(t, r, cases, func(c c10WiringCase) string { return c.Name }, build, exploreOpts{Bound: bound, Budget: 120 * time.Second})
}

func TestVerifC10Wiring(t *testing.T) {
	r := ev.Begin("C10", "wiring")
	defer r.End(t)
	r.Rule = "executions = goroutine schedules within the deviation bound of the real Serve supervising the tasks the real BuildTasks makes for {advertising eth0 | monitoring eth1, plus idle eth2} subscribed to the real Watcher (instrumented), whose event source delivers scripted batches of link changes (2 scripts); oracle: 2s after each batch every interface has been dialled exactly 1 + (number of link-down changes it received so far) times, an idle interface never"
	bound := 1
	if r.Thorough() {
		bound = 2
	}
	exploreCases(t, r, c10WiringCases(), func(c c10WiringCase) string { return c.Name }, c10WiringScenario, exploreOpts{Bound: bound, Budget: 120 * time.Second})
}
