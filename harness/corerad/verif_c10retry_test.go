//go:build verif

package corerad

import (
	"context"
	"errors"
	"fmt"
	"io"
	"log"
	"net/netip"
	"strings"
	"testing"
	"time"

	"github.com/mdlayher/corerad/internal/system"
	"github.com/mdlayher/corerad/verifrt/ev"
	"github.com/mdlayher/corerad/verifrt/vsched"
	"github.com/mdlayher/ndp"
	"golang.org/x/net/ipv6"
)

// C10 part 1b: receiveRetry - receive timeouts are retried up to 5 times with
// increasing back-off (0, 50, 100, 150, 200 ms) before counting as an error;
// any other error is returned at once; invalid messages are skipped; a valid
// message is returned; cancellation returns promptly.

type retryConn struct {
	reads     []time.Duration
	ctxCancel func()
}

func (c *retryConn) ReadFrom() (ndp.Message, *ipv6.ControlMessage, netip.Addr, error) {
	a := []string{"valid", "timeout", "bad-hop", "other-error", "cancel+timeout"}[vsched.Choose("ReadFrom", 5)]
	vsched.Obs("read", "%s", a)
	from := netip.MustParseAddr("fe80::1")
	switch a {
	case "timeout":
		return nil, nil, netip.Addr{}, timeoutErr{}
	case "cancel+timeout":
		c.ctxCancel()
		return nil, nil, netip.Addr{}, timeoutErr{}
	case "bad-hop":
		return &ndp.RouterSolicitation{}, &ipv6.ControlMessage{HopLimit: 3}, from, nil
	case "other-error":
		return nil, nil, netip.Addr{}, errors.New("verif: read failed")
	}
	return &ndp.RouterSolicitation{}, &ipv6.ControlMessage{HopLimit: 255}, from, nil
}
func (c *retryConn) SetReadDeadline(time.Time) error                             { return nil }
func (c *retryConn) WriteTo(ndp.Message, *ipv6.ControlMessage, netip.Addr) error { return nil }

var _ system.Conn = &retryConn{}

type c10RetryCase struct {
	Name string `json:"name"`
}

func c10RetryScenario(c c10RetryCase) *vsched.Scenario {
	sc := &vsched.Scenario{
		Name:    c.Name,
		Horizon: time.Minute,
		Setup: func(x *vsched.Exec) {
			ctx, cancel := context.WithCancel(context.Background())
			conn := &retryConn{ctxCancel: func() { vsched.Obs("cancel", ""); cancel() }}
			l := newListener(NewContext(log.New(io.Discard, "", 0), nil, nil), "eth0", conn)
			x.Spawn("listener", func() {
				m, _, err := l.receiveRetry(ctx)
				vsched.Obs("returned", "msg=%t err=%v", m != nil, err)
				cancel()
				x.Finish()
			})
		},
	}
	sc.Check = func(x *vsched.Exec) (out [][2]string) {
		bad := func(sig, format string, args ...any) {
			out = append(out, [2]string{sig, fmt.Sprintf(format, args...)})
		}
		if x.Failure != "" {
			bad("C10:retry:"+x.FailKind, "%s", x.Failure)
			return out
		}
		// Reference model over the answer sequence.
		timeouts := 0
		var lastT time.Duration
		var lastWasTimeout bool
		var prevWait time.Duration
		cancelled := false
		want := ""
		for _, e := range x.Log {
			switch e.Kind {
			case "cancel":
				cancelled = true
			case "read":
				if want != "" {
					bad("C10:retry:read-after-done", "ReadFrom called after the outcome %q was determined", want)
				}
				if lastWasTimeout {
					// "with increasing back-off": the wait before each retry is longer than the
					// one before the previous retry (the values themselves are not stated; the
					// implementation's are 0, 50, 100, 150 ms).
					got := e.T - lastT
					if timeouts >= 2 && got <= prevWait {
						bad("C10:retry:back-off", "the retry after timeout %d waited %s, the one before it %s: the back-off must increase", timeouts, got, prevWait)
					}
					prevWait = got
				}
				lastT, lastWasTimeout = e.T, false
				switch e.Detail {
				case "valid":
					want = "msg"
				case "other-error":
					want = "err:verif: read failed"
				case "timeout", "cancel+timeout":
					if e.Detail == "cancel+timeout" || cancelled {
						want = "err:context canceled"
						break
					}
					timeouts++
					lastWasTimeout = true
					if timeouts == 5 {
						want = "err:exhausted receive retries"
					}
				}
			case "returned":
				got := e.Detail
				switch {
				case want == "msg":
					if !strings.HasPrefix(got, "msg=true err=<nil>") {
						bad("C10:retry:result", "returned %q, want the valid message", got)
					}
				case strings.HasPrefix(want, "err:"):
					if !strings.Contains(got, strings.TrimPrefix(want, "err:")) {
						bad("C10:retry:result", "returned %q, want error %q", got, strings.TrimPrefix(want, "err:"))
					}
					if want == "err:exhausted receive retries" {
						// the last back-off (200ms) may or may not be waited out before giving up
					}
				default:
					bad("C10:retry:result", "returned %q although the outcome was not determined", got)
				}
				if cancelled && e.T-lastT > 0 && strings.Contains(got, "context canceled") {
					bad("C10:retry:cancel-not-prompt", "returned %s after the cancelling read", e.T-lastT)
				}
			}
		}
		return out
	}
	return sc
}

func TestVerifC10Retry(t *testing.T) {
	r := ev.Begin("C10", "retry")
	defer r.End(t)
	r.Rule = "executions = every ReadFrom answer sequence {valid message, timeout, bad hop limit, other error, cancel+timeout} through the real receiveRetry, with at most K non-default answers after any number of default (... ) - enumerated fully by depth because every sequence ends within 5 timeouts: all sequences; oracle: reference model of the retry budget (5 timeouts, waits (i)*50ms in virtual time, invalid messages do not consume it, other errors returned at once, cancellation prompt)"
	exploreCases(t, r, []c10RetryCase{{Name: "receiveRetry"}}, func(c c10RetryCase) string { return c.Name }, c10RetryScenario, exploreOpts{Bound: 6, NoEnvCost: false})
}
