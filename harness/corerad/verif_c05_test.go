//go:build verif && !vsched

package corerad

import (
	"context"
	"encoding/json"
	"fmt"
	"math/rand"
	"net/netip"
	"reflect"
	"strings"
	"testing"
	"testing/synctest"
	"time"

	"github.com/mdlayher/corerad/internal/config"
	"github.com/mdlayher/corerad/verifrt/ev"
)

// C05: every wait chosen between unsolicited RAs lies in [Min,Max] to 1 s
// granularity, the first 3 are capped at 16 s, choosing never fails / is never
// non-positive, for every pair the configuration accepts; the loop keeps
// requesting RAs until stopped.

// c05Src is a scripted rand.Source: Int63 returns the next scripted value
// (stock math/rand: Int63n(n) == v for 0 <= v < n).
type c05Src struct {
	vals  []int64
	calls int
}

func (s *c05Src) Int63() int64 {
	v := s.vals[s.calls%len(s.vals)]
	s.calls++
	return v
}
func (s *c05Src) Seed(int64) {}

type c05Case struct {
	Min  time.Duration `json:"min"`
	Max  time.Duration `json:"max"`
	I    int           `json:"index"`
	Draw int64         `json:"draw_ns"`
}

func c05Draws(min, max time.Duration) []int64 {
	rng := int64(max - min)
	if rng <= 0 {
		return []int64{0}
	}
	half := int64(500 * time.Millisecond)
	cand := []int64{0, 1, half - 1, half, rng / 2, rng - 2, rng - 1}
	var out []int64
	seen := map[int64]bool{}
	for _, c := range cand {
		if c >= 0 && c < rng && !seen[c] {
			seen[c] = true
			out = append(out, c)
		}
	}
	return out
}

var c05Indices = []int{0, 1, 2, 3, 4, 1000}

func c05Check(c c05Case) (sig, msg string) {
	src := &c05Src{vals: []int64{c.Draw}}
	var d time.Duration
	var pv any
	func() {
		defer func() { pv = recover() }()
		d = multicastDelay(rand.New(src), c.I, c.Min, c.Max)
	}()
	desc := fmt.Sprintf("multicastDelay(i=%d, min=%s, max=%s) with draw %dns", c.I, c.Min, c.Max, c.Draw)
	switch {
	case pv != nil:
		return "C05:panic", fmt.Sprintf("%s panicked: %v", desc, pv)
	case src.calls > 1:
		return "C05:redraw", fmt.Sprintf("%s consumed %d draws", desc, src.calls)
	case d <= 0:
		return "C05:non-positive", fmt.Sprintf("%s = %s", desc, d)
	case d%time.Second != 0:
		return "C05:not-whole-second", fmt.Sprintf("%s = %s", desc, d)
	}
	lo := c.Min.Truncate(time.Second)
	hi := c.Max.Truncate(time.Second)
	if hi != c.Max {
		hi += time.Second
	}
	capped := c.I < 3
	if capped && hi > 16*time.Second {
		hi = 16 * time.Second
	}
	if capped && lo > 16*time.Second {
		lo = 16 * time.Second
	}
	if d < lo {
		return "C05:below-min", fmt.Sprintf("%s = %s < %s", desc, d, lo)
	}
	if d > hi {
		if capped && d > 16*time.Second {
			return "C05:initial-cap", fmt.Sprintf("%s = %s exceeds the 16s cap of the first 3 advertisements", desc, d)
		}
		return "C05:above-max", fmt.Sprintf("%s = %s > %s", desc, d, hi)
	}
	return "", ""
}

func c05ParsePair(maxS, minS string) (min, max time.Duration, ok bool) {
	doc := fmt.Sprintf("[[interfaces]]\nname = \"eth0\"\nadvertise = true\nmax_interval = %q\n", maxS)
	if minS != "" {
		doc += fmt.Sprintf("min_interval = %q\n", minS)
	}
	cfg, err := config.Parse(strings.NewReader(doc), time.Unix(1, 0))
	if err != nil {
		return 0, 0, false
	}
	return cfg.Interfaces[0].MinInterval, cfg.Interfaces[0].MaxInterval, true
}

func TestVerifC05(t *testing.T) {
	r := ev.Begin("C05", "delay")
	defer r.End(t)
	r.Rule = "cases = every whole-second (min,max) pair the configuration accepts (max 4..1800 s, min 3..floor(0.75*max) s; the range ends are confirmed through config.Parse for every max; quick: max stride 7), min=max for max<9 s, and every fractional pair of a 12x14 grid that config.Parse accepts, x index {0,1,2,3,4,1000} x draws {0, 1, 0.5s-1, 0.5s, range/2, range-2, range-1} injected through a scripted rand.Source; oracle: positive whole seconds within [floor(min), ceil(max)], <=16 s for index<3, one draw, no panic; non-trivial = min<max; distinct = distinct (min,max,index,draw)"
	r.Assumptions = []string{"stock math/rand: Int63n(n) returns the source value v unchanged for 0 <= v < n (scripted source)"}

	if r.Replay != nil {
		var c c05Case
		if err := json.Unmarshal(r.Replay, &c); err != nil {
			t.Fatalf("bad replay: %v", err)
		}
		r.Case(ev.JSON(c), true)
		r.Sample(c)
		if sig, msg := c05Check(c); sig != "" {
			r.Violation(sig, msg, c)
		}
		return
	}
	pair := func(min, max time.Duration) {
		for _, i := range c05Indices {
			for _, dr := range c05Draws(min, max) {
				c := c05Case{Min: min, Max: max, I: i, Draw: dr}
				r.Case(fmt.Sprintf("%d %d %d %d", min, max, i, dr), min < max)
				if sig, msg := c05Check(c); sig != "" {
					r.Violation(sig, msg, c)
				}
			}
		}
	}
	stride := 7
	if r.Thorough() {
		stride = 1
	}
	npairs := int64(0)
	for mx := 4; mx <= 1800; mx += stride {
		if !r.Mine(mx) {
			continue
		}
		maxS := fmt.Sprintf("%ds", mx)
		// The accepted range of whole-second mins for this max, from the real parser.
		upper := mx * 3 / 4
		for _, probe := range []struct {
			min    int
			accept bool
		}{{2, false}, {3, upper >= 3}, {upper, upper >= 3}, {upper + 1, false}} {
			_, _, ok := c05ParsePair(maxS, fmt.Sprintf("%ds", probe.min))
			if ok != probe.accept {
				r.Violation("C05:accepted-range", fmt.Sprintf("max=%s min=%ds: parser accept=%t, pair generator assumes %t", maxS, probe.min, ok, probe.accept), nil)
			}
		}
		// The default pair.
		if dmin, dmax, ok := c05ParsePair(maxS, ""); ok {
			pair(dmin, dmax)
			npairs++
		} else {
			r.Violation("C05:default-rejected", "max="+maxS+" with default min rejected", nil)
		}
		for mn := 3; mn <= upper; mn++ {
			pair(time.Duration(mn)*time.Second, time.Duration(mx)*time.Second)
			npairs++
		}
		r.Sample(map[string]any{"max": maxS, "min_range_s": []int{3, upper}})
	}
	// Fractional grid through the parser.
	if r.Mine(0) {
		maxes := []string{"4s", "4.000000001s", "4.5s", "4.999999999s", "5s", "5.5s", "8.5s", "8.999999999s", "9s", "9.5s", "17.5s", "1799.5s"}
		mins := []string{"", "3s", "3.000000001s", "3.2s", "3.5s", "3.9s", "3.999999999s", "4s", "4.1s", "6.5s", "12.9s", "13.1s", "1349.5s", "1349.999999999s"}
		for _, mx := range maxes {
			for _, mn := range mins {
				if min, max, ok := c05ParsePair(mx, mn); ok {
					pair(min, max)
					npairs++
					r.Sample(map[string]any{"max": mx, "min": mn, "parsed": []string{min.String(), max.String()}})
				}
			}
		}
	}
	r.Count("accepted_pairs", npairs)
	if stride != 1 {
		r.Note("quick tier: whole-second max_interval stride %d (thorough: all 1797 values, ~1.2M pairs)", stride)
	}
}

// --- the real multicast() loop under virtual time -----------------------------

type c05LoopCase struct {
	Min    time.Duration `json:"min"`
	Max    time.Duration `json:"max"`
	Offset time.Duration `json:"start_offset"`
	N      int           `json:"waits"`
	// The consumer of the requests takes request number StallAt only after Stall (the
	// scheduler is busy): the loop's send blocks that long.
	// Lifetime: the interface's default_lifetime (the waits do not depend on it).
	Lifetime time.Duration `json:"default_lifetime,omitempty"`
	StallAt  int           `json:"stall_at,omitempty"`
	Stall    time.Duration `json:"stall,omitempty"`
}

func c05Loop(t *testing.T, c c05LoopCase) (viol [][2]string, gaps []time.Duration) {
	synctest.Test(t, func(t *testing.T) {
		time.Sleep(c.Offset)
		a := NewAdvertiser(NewContext(nil, nil, nil), config.Interface{Name: "eth0", Advertise: true, MinInterval: c.Min, MaxInterval: c.Max, DefaultLifetime: c.Lifetime, HopLimit: 64}, nil, nil, func() bool { return false })
		ctx, cancel := context.WithCancel(context.Background())
		ipC := make(chan netip.Addr, 16)
		if c.Stall > 0 {
			ipC = make(chan netip.Addr) // the loop's send blocks until the request is taken
		}
		start := time.Now()
		done := make(chan struct{})
		go func() { defer close(done); c05Multicast(a, ctx, ipC) }()
		var at []time.Time
		bad := func(sig, format string, x ...any) {
			viol = append(viol, [2]string{sig, fmt.Sprintf("%s: ", ev.JSON(c)) + fmt.Sprintf(format, x...)})
		}
		var offered []time.Time // when the loop is next seen offering a request after a stall
		for len(at) <= c.N {
			if c.Stall > 0 && len(at) == c.StallAt {
				time.Sleep(c.Stall)
			}
			select {
			case ip := <-ipC:
				if ip != netip.IPv6LinkLocalAllNodes() {
					bad("C05:loop-destination", "request for %s", ip)
				}
				at = append(at, time.Now())
			case <-time.After(2*c.Max + 2*time.Second):
				bad("C05:loop-stalled", "no RA request within 2*max after %d requests", len(at))
				cancel()
				<-done
				return
			}
		}
		_ = offered
		// (When the first request comes is not stated: only that requests start and recur.)
		if d := at[0].Sub(start); d > c.Max && !(c.Stall > 0 && c.StallAt == 0) {
			bad("C05:loop-first-request", "first request only %s after start (> max)", d)
		}
		for i := 1; i < len(at); i++ {
			g := at[i].Sub(at[i-1])
			gaps = append(gaps, g)
			if g%time.Second != 0 {
				bad("C05:loop-granularity", "wait %d was %s, not a whole number of seconds", i-1, g)
			}
			lo, hi := c.Min.Truncate(time.Second), c.Max
			if hi%time.Second != 0 {
				hi = hi.Truncate(time.Second) + time.Second
			}
			if i-1 < 3 && hi > 16*time.Second {
				hi = 16 * time.Second
			}
			if i-1 < 3 && lo > 16*time.Second {
				lo = 16 * time.Second
			}
			if c.Stall > 0 && i == c.StallAt {
				// The request before this gap was available on time but taken late: the gap
				// between two *takings* is wait + lateness here; only the lower bound applies.
				if g < lo {
					bad("C05:loop-bounds", "wait %d was %s, below %s", i-1, g, lo)
				}
				continue
			}
			if g < lo || g > hi || g <= 0 {
				bad("C05:loop-bounds", "wait %d was %s, outside [%s,%s]", i-1, g, lo, hi)
			}
		}
		cancel()
		synctest.Wait()
		select {
		case <-done:
		default:
			bad("C05:loop-not-stopped", "multicast() still running after cancellation")
			time.Sleep(2 * c.Max)
		}
		time.Sleep(2 * c.Max)
		select {
		case ip := <-ipC:
			bad("C05:loop-request-after-stop", "request for %s after cancellation", ip)
		default:
		}
		<-done
	})
	return viol, gaps
}

func TestVerifC05Loop(t *testing.T) {
	r := ev.Begin("C05", "loop")
	defer r.End(t)
	r.Rule = "the real Advertiser.multicast loop under a virtual clock (testing/synctest): 26 (min,max) pairs x 3 start instants (= PRNG seeds) x 6 waits, 3 pairs x 600 consecutive waits, every pair x default_lifetime {max_interval, 3*max, 9000 s}, and 3 pairs x a request taken late (by 0.5, 2.5, 7 intervals; at request 1, 2, 4) over an unbuffered channel; oracle: requests start within max, every wait is a whole number of seconds within the bounds (<=16s for the first three), requests recur and stop at cancellation; non-trivial = every run; distinct = distinct (pair, offset)"
	if !c05MulticastSig() {
		r.Capped("Advertiser.multicast no longer has the signature (context.Context, chan<- netip.Addr): this narrow-seam part is skipped, part 'recur' drives the loop through the whole Advertiser")
		return
	}
	if r.Replay != nil {
		var c c05LoopCase
		if err := json.Unmarshal(r.Replay, &c); err != nil {
			t.Fatalf("bad replay: %v", err)
		}
		r.Case(ev.JSON(c), true)
		r.Sample(c)
		vs, _ := c05Loop(t, c)
		for _, v := range vs {
			r.Violation(v[0], v[1], c)
		}
		return
	}
	s := time.Second
	pairs := [][2]time.Duration{{3 * s, 4 * s}, {4 * s, 4 * s}, {8 * s, 8 * s}, {3 * s, 9 * s}, {6 * s, 9 * s}, {3 * s, 16 * s}, {12 * s, 16 * s}, {3 * s, 17 * s}, {12 * s, 17 * s},
		{15 * s, 20 * s}, {16 * s, 22 * s}, {17 * s, 23 * s}, {9 * s, 30 * s}, {198 * s, 600 * s}, {3 * s, 600 * s}, {450 * s, 600 * s}, {3 * s, 1800 * s}, {594 * s, 1800 * s}, {1350 * s, 1800 * s},
		{4500 * time.Millisecond, 4500 * time.Millisecond}, {3 * s, 4500 * time.Millisecond}, {3400 * time.Millisecond, 10200 * time.Millisecond}, {3 * s, 4000000001}, {3 * s, 5 * s}, {13 * s, 18 * s}, {5 * s, 8 * s}}
	var cases []c05LoopCase
	for _, p := range pairs {
		for _, off := range []time.Duration{0, 1, 12345678901} {
			cases = append(cases, c05LoopCase{Min: p[0], Max: p[1], Offset: off, N: 6})
		}
	}
	// Every router lifetime the configuration accepts next to the pair, at its ends: the
	// smallest (= max_interval, rounded up to a whole second), the default 3*max, 9000 s.
	for _, p := range pairs {
		lo := (p[1] + s - 1) / s * s
		for _, lt := range []time.Duration{lo, 3 * p[1], 9000 * s} {
			if lt >= p[1] && lt <= 9000*s {
				cases = append(cases, c05LoopCase{Min: p[0], Max: p[1], Offset: 987654321, N: 6, Lifetime: lt})
			}
		}
	}
	// Long runs: every wait of 600 consecutive ones (indices beyond any small counter).
	for _, p := range [][2]time.Duration{{20 * s, 30 * s}, {198 * s, 600 * s}, {3 * s, 4 * s}} {
		cases = append(cases, c05LoopCase{Min: p[0], Max: p[1], N: 600})
	}
	// A request taken late by 0.5 / 2.5 / 7 intervals (the send blocks): the waits after it
	// are still whole waits, not shortened to "catch up".
	for _, p := range [][2]time.Duration{{4 * s, 4 * s}, {3 * s, 4 * s}, {20 * s, 30 * s}} {
		for _, at := range []int{1, 2, 4} {
			for _, k := range []time.Duration{p[1] / 2, p[1] * 5 / 2, 7 * p[1]} {
				cases = append(cases, c05LoopCase{Min: p[0], Max: p[1], N: 8, StallAt: at, Stall: k})
			}
		}
	}
	for _, c := range cases {
		{
			r.Case(ev.JSON(c), true)
			vs, gaps := c05Loop(t, c)
			r.Sample(map[string]any{"case": c, "waits": fmt.Sprint(gaps)})
			r.Count("transitions", int64(len(gaps)))
			for _, v := range vs {
				r.Violation(v[0], v[1], c)
			}
		}
	}
}

// c05MulticastSig reports whether Advertiser.multicast still has the signature this
// narrow-seam part drives, (context.Context, chan<- netip.Addr); when a change to the
// code under test gives it another one, the parts that call it directly are skipped
// (and say so in the evidence) and the whole-Advertiser 'recur' part decides alone.
func c05MulticastSig() bool {
	var a *Advertiser
	ft := reflect.TypeOf(a.multicast)
	return ft.NumIn() == 2 && ft.NumOut() == 0
}

func c05Multicast(a *Advertiser, ctx context.Context, ipC chan netip.Addr) {
	f := reflect.ValueOf(a.multicast)
	f.Call([]reflect.Value{reflect.ValueOf(ctx), reflect.ValueOf(ipC).Convert(f.Type().In(1))})
}
