//go:build verif && vsched

package corerad

import (
	"context"
	"fmt"
	"io"
	"log"
	"net"
	"net/http"
	"os"
	"strings"
	"sync"
	"syscall"
	"testing"
	"testing/synctest"
	"time"

	"github.com/mdlayher/corerad/internal/config"
	"github.com/mdlayher/corerad/internal/crhttp"
	"github.com/mdlayher/corerad/internal/system"
	"github.com/mdlayher/corerad/verifrt/ev"
	"github.com/mdlayher/corerad/verifrt/sdnotify"
)

// C20, the debug HTTP server task for real: "plus the debug HTTP server when an address
// is configured". The task BuildTasks makes is run by the real Serve on a loopback
// socket (real time, no scheduler: net/http is outside the instrumented code): it must
// report ready, answer requests, stop on a signal with Serve returning success, and
// have released the address by then. Only generous liveness deadlines (30 s) are used.

type c20HTTPCase struct {
	Prometheus bool   `json:"prometheus"`
	PProf      bool   `json:"pprof"`
	Signal     string `json:"signal"`
	// InFlight: what a client has in progress when the signal arrives: "" (nothing),
	// "handler" (a /metrics request whose handler has not finished and will not by
	// itself), "partial" (a connection that has sent half a request).
	InFlight string `json:"in_flight,omitempty"`
}

func c20HTTPCheck(c c20HTTPCase) (out [][2]string) {
	bad := func(sig, format string, a ...any) {
		out = append(out, [2]string{sig, ev.JSON(c) + ": " + fmt.Sprintf(format, a...)})
	}
	l, err := net.Listen("tcp", "127.0.0.1:0")
	if err != nil {
		return [][2]string{{"MACHINERY:no-loopback", err.Error()}}
	}
	addr := l.Addr().String()
	l.Close()

	ll := log.New(io.Discard, "", 0)
	st := system.TestState{Forwarding: true}
	cfg := config.Config{Debug: config.Debug{Address: addr, Prometheus: c.Prometheus, PProf: c.PProf}}
	entered, release := make(chan struct{}, 1), make(chan struct{})
	defer close(release)
	prom := http.HandlerFunc(func(w http.ResponseWriter, r *http.Request) {
		if r.URL.Query().Get("block") != "" {
			entered <- struct{}{}
			<-release
		}
		io.WriteString(w, "# metrics\n")
	})
	s := NewServer(NewContext(ll, nil, st))
	s.w = nil // no link watcher: this case is about the HTTP task alone
	tasks := s.BuildTasks(cfg, crhttp.NewHandler(ll, st, cfg, prom))
	if len(tasks) != 1 {
		bad("C20:http:tasks", "BuildTasks made %d tasks for a configuration with only a debug address, want 1", len(tasks))
		return out
	}
	sigC := make(chan os.Signal, 1)
	retC := make(chan error, 1)
	go func() { retC <- s.Serve(sigC, &sdnotify.Notifier{}, tasks) }()

	select {
	case <-tasks[0].Ready():
	case err := <-retC:
		bad("C20:http:serve-returned-early", "Serve returned %v before the HTTP task was ready", err)
		return out
	case <-time.After(30 * time.Second):
		bad("C20:http:never-ready", "the debug HTTP server task did not report ready")
		sigC <- syscall.SIGTERM
		return out
	}
	cl := &http.Client{Timeout: 30 * time.Second}
	get := func(path string) int {
		resp, err := cl.Get("http://" + addr + path)
		if err != nil {
			bad("C20:http:request", "GET %s: %v", path, err)
			return -1
		}
		io.Copy(io.Discard, resp.Body)
		resp.Body.Close()
		return resp.StatusCode
	}
	if code := get("/_/api/interfaces"); code != 200 && code != -1 {
		bad("C20:http:api", "GET /_/api/interfaces: status %d", code)
	}
	switch c.InFlight {
	case "handler":
		go func() {
			if resp, err := (&http.Client{}).Get("http://" + addr + "/metrics?block=1"); err == nil {
				resp.Body.Close()
			}
		}()
		select {
		case <-entered:
		case <-time.After(30 * time.Second):
			bad("C20:http:request", "GET /metrics never reached the handler")
		}
	case "partial":
		if conn, err := net.Dial("tcp", addr); err != nil {
			bad("C20:http:request", "dial: %v", err)
		} else {
			defer conn.Close()
			io.WriteString(conn, "GET /_/api/interfaces HTTP/1.1\r\nHost: x\r\nX-Half")
			time.Sleep(50 * time.Millisecond) // let the server read it (liveness only: either way the oracle below holds)
		}
	}
	sig := map[string]os.Signal{"TERM": syscall.SIGTERM, "HUP": syscall.SIGHUP}[c.Signal]
	sigC <- sig
	select {
	case err := <-retC:
		if err != nil {
			bad("C20:http:serve-error", "Serve returned %v after %s", err, c.Signal)
		}
	case <-time.After(30 * time.Second):
		bad("C20:http:serve-did-not-return", "Serve did not return after %s", c.Signal)
		return out
	}
	if want := c.Signal != "HUP"; s.t.terminate() != want {
		bad("C20:http:terminate-flag", "terminate() = %t after %s", !want, c.Signal)
	}
	// The address is free again.
	l2, err := net.Listen("tcp", addr)
	if err != nil {
		bad("C20:http:address-not-released", "after Serve returned the debug address is still taken: %v", err)
	} else {
		l2.Close()
	}
	return out
}

// c20Sentinel is a second task: ready at once, runs until cancelled.
type c20Sentinel struct {
	mu        sync.Mutex
	cancelled bool
	returned  bool
}

func (s *c20Sentinel) Run(ctx context.Context) error {
	<-ctx.Done()
	s.mu.Lock()
	s.cancelled, s.returned = true, true
	s.mu.Unlock()
	return nil
}
func (s *c20Sentinel) Ready() <-chan struct{} { c := make(chan struct{}); close(c); return c }
func (s *c20Sentinel) String() string         { return "verif sentinel task" }

// c20HTTPNeverListens: the debug address cannot be bound (another process holds it) for
// as long as the task keeps trying (40 attempts, 3 s apart; under a virtual clock). That is
// a fatal error of the HTTP task: every other task is cancelled and Serve returns it.
func c20HTTPNeverListens(t *testing.T) (out [][2]string) {
	bad := func(sig, format string, a ...any) {
		out = append(out, [2]string{sig, fmt.Sprintf(format, a...)})
	}
	held, err := net.Listen("tcp", "127.0.0.1:0")
	if err != nil {
		return [][2]string{{"MACHINERY:no-loopback", err.Error()}}
	}
	defer held.Close()
	addr := held.Addr().String()
	// Serve legitimately leaves goroutines behind when it returns an error before every
	// task was ready (the readiness announcer, the signal receiver: the process exits
	// then); the bubble reports them when it ends, which is not a finding.
	defer func() {
		if pv := recover(); pv != nil && !strings.Contains(fmt.Sprint(pv), "blocked goroutines remain") {
			panic(pv)
		}
	}()
	synctest.Test(t, func(t *testing.T) {
		ll := log.New(io.Discard, "", 0)
		st := system.TestState{Forwarding: true}
		cfg := config.Config{Debug: config.Debug{Address: addr}}
		s := NewServer(NewContext(ll, nil, st))
		s.w = nil
		tasks := s.BuildTasks(cfg, crhttp.NewHandler(ll, st, cfg, nil))
		if len(tasks) != 1 {
			bad("C20:http:tasks", "BuildTasks made %d tasks, want 1", len(tasks))
			return
		}
		sen := &c20Sentinel{}
		sigC := make(chan os.Signal, 1)
		var (
			mu     sync.Mutex
			ret    bool
			retErr error
		)
		go func() {
			err := s.Serve(sigC, &sdnotify.Notifier{}, append(tasks, sen))
			mu.Lock()
			ret, retErr = true, err
			mu.Unlock()
		}()
		time.Sleep(10 * time.Minute) // virtual: far beyond 40 attempts x 3 s
		synctest.Wait()
		mu.Lock()
		r, e := ret, retErr
		mu.Unlock()
		sen.mu.Lock()
		cancelled := sen.cancelled
		sen.mu.Unlock()
		switch {
		case !r:
			bad("C20:http:listen-failure-not-fatal", "the debug address %s could not be bound for 10 minutes: Serve is still running (other task cancelled: %t) - the HTTP task's fatal error cancelled nothing or was never delivered", addr, cancelled)
			sigC <- syscall.SIGTERM // let everything end
			time.Sleep(time.Minute)
			synctest.Wait()
		case e == nil:
			bad("C20:http:listen-failure-not-reported", "the debug address could never be bound but Serve returned nil")
		case !cancelled:
			bad("C20:http:listen-failure-not-fatal", "Serve returned %v while the other task was never cancelled", e)
		}
	})
	return out
}

func TestVerifC20HTTP(t *testing.T) {
	r := ev.Begin("C20", "http")
	defer r.End(t)
	r.Rule = "the real debug HTTP server task made by BuildTasks, run by the real Serve on a loopback socket in real time: {prometheus, pprof} x {SIGTERM, SIGHUP} x {no request in progress, a /metrics request whose handler does not finish by itself, a connection that has sent half a request} (20 cases) + the debug address held by another socket for all 40 listen attempts (virtual clock): Serve returns that error and the other task was cancelled: exactly one task, reports ready, answers the API, Serve returns nil on the signal, the address is released; non-trivial = every case"
	r.Assumptions = []string{"loopback TCP is available; liveness deadlines of 30 s of real time (a miss means a hang, not a slow machine)"}
	r.Case("debug address never available", true)
	for _, v := range c20HTTPNeverListens(t) {
		r.Violation(v[0], v[1], nil)
	}
	for _, p := range []bool{false, true} {
		for _, q := range []bool{false, true} {
			for _, sig := range []string{"TERM", "HUP"} {
				for _, inf := range []string{"", "handler", "partial"} {
					if inf == "handler" && !p {
						continue
					}
					c := c20HTTPCase{Prometheus: p, PProf: q, Signal: sig, InFlight: inf}
					r.Case(ev.JSON(c), true)
					r.Sample(c)
					for _, v := range c20HTTPCheck(c) {
						r.Violation(v[0], v[1], c)
					}
				}
			}
		}
	}
}
