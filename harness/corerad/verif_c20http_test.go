//go:build verif && vsched

package corerad

import (
	"fmt"
	"io"
	"log"
	"net"
	"net/http"
	"os"
	"syscall"
	"testing"
	"time"

	"github.com/mdlayher/corerad/internal/config"
	"github.com/mdlayher/corerad/internal/crhttp"
	"github.com/mdlayher/corerad/internal/system"
	"github.com/mdlayher/corerad/verifrt/ev"
	"github.com/mdlayher/corerad/verifrt/sdnotify"
)

// C20, the debug HTTP server task for real: "plus the debug HTTP server when an address
// is configured". The task BuildTasks makes is run by the real Serve on a loopback
// socket (real time, no scheduler: net/http is outside the instrumented code): it must
// report ready, answer requests, stop on a signal with Serve returning success, and
// have released the address by then. Only generous liveness deadlines (30 s) are used.

type c20HTTPCase struct {
	Prometheus bool   `json:"prometheus"`
	PProf      bool   `json:"pprof"`
	Signal     string `json:"signal"`
	// InFlight: what a client has in progress when the signal arrives: "" (nothing),
	// "handler" (a /metrics request whose handler has not finished and will not by
	// itself), "partial" (a connection that has sent half a request).
	InFlight string `json:"in_flight,omitempty"`
}

func c20HTTPCheck(c c20HTTPCase) (out [][2]string) {
	bad := func(sig, format string, a ...any) {
		out = append(out, [2]string{sig, ev.JSON(c) + ": " + fmt.Sprintf(format, a...)})
	}
	l, err := net.Listen("tcp", "127.0.0.1:0")
	if err != nil {
		return [][2]string{{"MACHINERY:no-loopback", err.Error()}}
	}
	addr := l.Addr().String()
	l.Close()

	ll := log.New(io.Discard, "", 0)
	st := system.TestState{Forwarding: true}
	cfg := config.Config{Debug: config.Debug{Address: addr, Prometheus: c.Prometheus, PProf: c.PProf}}
	entered, release := make(chan struct{}, 1), make(chan struct{})
	defer close(release)
	prom := http.HandlerFunc(func(w http.ResponseWriter, r *http.Request) {
		if r.URL.Query().Get("block") != "" {
			entered <- struct{}{}
			<-release
		}
		io.WriteString(w, "# metrics\n")
	})
	s := NewServer(NewContext(ll, nil, st))
	s.w = nil // no link watcher: this case is about the HTTP task alone
	tasks := s.BuildTasks(cfg, crhttp.NewHandler(ll, st, cfg, prom))
	if len(tasks) != 1 {
		bad("C20:http:tasks", "BuildTasks made %d tasks for a configuration with only a debug address, want 1", len(tasks))
		return out
	}
	sigC := make(chan os.Signal, 1)
	retC := make(chan error, 1)
	go func() { retC <- s.Serve(sigC, &sdnotify.Notifier{}, tasks) }()

	select {
	case <-tasks[0].Ready():
	case err := <-retC:
		bad("C20:http:serve-returned-early", "Serve returned %v before the HTTP task was ready", err)
		return out
	case <-time.After(30 * time.Second):
		bad("C20:http:never-ready", "the debug HTTP server task did not report ready")
		sigC <- syscall.SIGTERM
		return out
	}
	cl := &http.Client{Timeout: 30 * time.Second}
	get := func(path string) int {
		resp, err := cl.Get("http://" + addr + path)
		if err != nil {
			bad("C20:http:request", "GET %s: %v", path, err)
			return -1
		}
		io.Copy(io.Discard, resp.Body)
		resp.Body.Close()
		return resp.StatusCode
	}
	if code := get("/_/api/interfaces"); code != 200 && code != -1 {
		bad("C20:http:api", "GET /_/api/interfaces: status %d", code)
	}
	switch c.InFlight {
	case "handler":
		go func() {
			if resp, err := (&http.Client{}).Get("http://" + addr + "/metrics?block=1"); err == nil {
				resp.Body.Close()
			}
		}()
		select {
		case <-entered:
		case <-time.After(30 * time.Second):
			bad("C20:http:request", "GET /metrics never reached the handler")
		}
	case "partial":
		if conn, err := net.Dial("tcp", addr); err != nil {
			bad("C20:http:request", "dial: %v", err)
		} else {
			defer conn.Close()
			io.WriteString(conn, "GET /_/api/interfaces HTTP/1.1\r\nHost: x\r\nX-Half")
			time.Sleep(50 * time.Millisecond) // let the server read it (liveness only: either way the oracle below holds)
		}
	}
	sig := map[string]os.Signal{"TERM": syscall.SIGTERM, "HUP": syscall.SIGHUP}[c.Signal]
	sigC <- sig
	select {
	case err := <-retC:
		if err != nil {
			bad("C20:http:serve-error", "Serve returned %v after %s", err, c.Signal)
		}
	case <-time.After(30 * time.Second):
		bad("C20:http:serve-did-not-return", "Serve did not return after %s", c.Signal)
		return out
	}
	if want := c.Signal != "HUP"; s.t.terminate() != want {
		bad("C20:http:terminate-flag", "terminate() = %t after %s", !want, c.Signal)
	}
	// The address is free again.
	l2, err := net.Listen("tcp", addr)
	if err != nil {
		bad("C20:http:address-not-released", "after Serve returned the debug address is still taken: %v", err)
	} else {
		l2.Close()
	}
	return out
}

func TestVerifC20HTTP(t *testing.T) {
	r := ev.Begin("C20", "http")
	defer r.End(t)
	r.Rule = "the real debug HTTP server task made by BuildTasks, run by the real Serve on a loopback socket in real time: {prometheus, pprof} x {SIGTERM, SIGHUP} x {no request in progress, a /metrics request whose handler does not finish by itself, a connection that has sent half a request} (20 cases): exactly one task, reports ready, answers the API, Serve returns nil on the signal, the address is released; non-trivial = every case"
	r.Assumptions = []string{"loopback TCP is available; liveness deadlines of 30 s of real time (a miss means a hang, not a slow machine)"}
	for _, p := range []bool{false, true} {
		for _, q := range []bool{false, true} {
			for _, sig := range []string{"TERM", "HUP"} {
				for _, inf := range []string{"", "handler", "partial"} {
					if inf == "handler" && !p {
						continue
					}
					c := c20HTTPCase{Prometheus: p, PProf: q, Signal: sig, InFlight: inf}
					r.Case(ev.JSON(c), true)
					r.Sample(c)
					for _, v := range c20HTTPCheck(c) {
						r.Violation(v[0], v[1], c)
					}
				}
			}
		}
	}
}
