//go:build verif && vsched

package corerad

import (
	"encoding/json"
	"fmt"
	"net"
	"net/http/httptest"
	"net/netip"
	"sort"
	"strings"
	"sync"
	"testing"
	"time"

	"github.com/mdlayher/corerad/internal/config"
	"github.com/mdlayher/corerad/internal/crhttp"
	"github.com/mdlayher/corerad/internal/netstate"
	"github.com/mdlayher/corerad/internal/system"
	"github.com/mdlayher/corerad/verifrt/ev"
	"github.com/mdlayher/corerad/verifrt/ref"
	"github.com/mdlayher/corerad/verifrt/vsched"
	"github.com/mdlayher/ndp"
)

// C17 part 2 (SCHED): scrapes and debug-API requests racing the advertiser's
// initialisation (interface not ready once), advertising and re-initialisation
// after a link change: never a panic or a hang; a request is either an error
// (only while the interface has never been initialised) or reports the RA.

type c17SchedCase struct {
	Name  string `json:"name"`
	Phase string `json:"phase"` // start | reinit
}

func c17SchedScenario(c c17SchedCase) *vsched.Scenario {
	doc := ref.Doc{Ifaces: []ref.Iface{{
		Scalars: ref.Table{"name": "eth0", "advertise": true, "max_interval": "4s"},
		Prefix:  []ref.Table{{}, {"prefix": "2001:db8:d::/64", "deprecated": true, "valid_lifetime": "2h", "preferred_lifetime": "1h"}},
		Route:   []ref.Table{{}},
		RDNSS:   []ref.Table{{}},
		PREF64:  []ref.Table{{}},
	}}}
	v, wantCfg, why := ref.Parse(doc, c17Epoch)
	if v != ref.Accept {
		panic(why)
	}
	var (
		a       *advWorld
		hmu     sync.Mutex // the harness's own bookkeeping, shared by the request threads (free-running race pass)
		results []string
	)
	addResult := func(r string) {
		hmu.Lock()
		results = append(results, r)
		hmu.Unlock()
	}
	sc := &vsched.Scenario{
		Name:    c.Name,
		Horizon: 5 * time.Minute,
		Setup: func(x *vsched.Exec) {
			hmu.Lock()
			results = nil
			hmu.Unlock()
			cfg, err := config.Parse(strings.NewReader(doc.TOML()), c17Epoch)
			if err != nil {
				panic(err)
			}
			system.VerifSetAddresser(c17Addresser{})
			a = newAdvWorldIfis(cfg.Interfaces[0], cfg.Interfaces, true, true)
			a.dialFault = func(n int) error {
				if n == 0 {
					return fmt.Errorf("interface not ready: %w", system.ErrLinkNotReady)
				}
				return nil
			}
			h := crhttp.NewHandler(a.cctx.ll, a.st, *cfg, nil)
			prepared := false
			initialised := func() bool {
				if c.Phase == "prepare" {
					hmu.Lock()
					defer hmu.Unlock()
					return prepared
				}
				return len(a.Writes()) > 0
			}
			rs := ref.State{Name: "eth0", MAC: a.macOf(0).String(), Forwarding: true, Routes: []string{"2001:db8:f000::/48"}}
			rs.Addrs, _ = c17Addresser{}.AddressesByIndex(1)
			wantPrefixes := func() []string {
				hmu.Lock()
				defer hmu.Unlock()
				rs.Clock = time.Since(c17Epoch)
				ra, _ := ref.RA(wantCfg.Interfaces[0], &rs, c17Epoch)
				var ps []string
				for _, o := range ra.Options {
					if p, ok := o.(*ndp.PrefixInformation); ok {
						ps = append(ps, netip.PrefixFrom(p.Prefix, int(p.PrefixLength)).String())
					}
				}
				sort.Strings(ps)
				return ps
			}
			scrape := func(tag string) {
				wasInit := initialised()
				vsched.Point("harness:scrape")
				var got []string
				metrics := map[string]func(float64, ...string){}
				for _, name := range []string{ifiAdvertising, ifiAutoconfiguration, ifiForwarding, ifiMonitoring, advMisconfiguration, advDNSSLLifetime,
					advPrefixAutonomous, advPrefixOnLink, advPrefixValid, advPrefixPreferred, advRDNSSLifetime, advRouteLifetime} {
					name := name
					metrics[name] = func(v float64, labels ...string) {
						if name == advPrefixValid {
							got = append(got, labels[1])
						}
					}
				}
				err := a.mm.constScrape(metrics)
				sort.Strings(got)
				switch {
				case err != nil && wasInit:
					addResult(fmt.Sprintf("BAD scrape %s failed after initialisation: %v", tag, err))
				case err == nil && fmt.Sprint(got) != fmt.Sprint(wantPrefixes()):
					addResult(fmt.Sprintf("BAD scrape %s prefixes %v want %v", tag, got, wantPrefixes()))
				default:
					addResult(fmt.Sprintf("ok scrape %s err=%v", tag, err != nil))
				}
				vsched.Obs("scrape", "%s err=%v", tag, err != nil)
			}
			api := func(tag string) {
				wasInit := initialised()
				vsched.Point("harness:api")
				rec := httptest.NewRecorder()
				h.ServeHTTP(rec, httptest.NewRequest("GET", "/_/api/interfaces", nil))
				ok := rec.Code == 200
				switch {
				case !ok && wasInit:
					addResult(fmt.Sprintf("BAD api %s status %d after initialisation: %s", tag, rec.Code, rec.Body.String()))
				case ok:
					var body struct {
						Interfaces []struct {
							Advertisement struct {
								Life    int `json:"router_lifetime_seconds"`
								Options struct {
									Prefixes []struct {
										Prefix string `json:"prefix"`
									} `json:"prefixes"`
								} `json:"options"`
							} `json:"advertisement"`
						} `json:"interfaces"`
					}
					_ = json.Unmarshal(rec.Body.Bytes(), &body)
					var ps []string
					if len(body.Interfaces) == 1 {
						for _, p := range body.Interfaces[0].Advertisement.Options.Prefixes {
							ps = append(ps, p.Prefix)
						}
					}
					sort.Strings(ps)
					if len(body.Interfaces) != 1 || body.Interfaces[0].Advertisement.Life != 12 || fmt.Sprint(ps) != fmt.Sprint(wantPrefixes()) || !strings.Contains(rec.Body.String(), "64:ff9b::/96") {
						addResult(fmt.Sprintf("BAD api %s body %s", tag, rec.Body.String()))
					} else {
						addResult("ok api " + tag)
					}
				default:
					addResult("ok api " + tag + " (error before initialisation)")
				}
				vsched.Obs("api", "%s status=%d", tag, rec.Code)
			}
			if c.Phase != "prepare" {
				x.Spawn("advertiser", a.run)
			}
			x.Spawn("scraper", func() {
				if c.Phase == "reinit" {
					vsched.Sleep(5 * time.Second)
				}
				scrape("1")
				scrape("2")
			})
			x.Spawn("api-client", func() {
				if c.Phase == "reinit" {
					vsched.Sleep(5 * time.Second)
				}
				api("1")
				api("2")
			})
			if c.Phase == "prepare" {
				// No advertiser: a thread (re)binds the interface's plugins as Run does at
				// every (re)initialisation, twice, while the requests are being served. It is
				// started after the request threads: in the canonical schedule they go first,
				// and one delay of a request in mid-flight lets the re-binding overtake it.
				x.Spawn("preparer", func() {
					for round := 0; round < 2; round++ {
						nif := &net.Interface{Index: 1, Name: "eth0", HardwareAddr: a.macOf(round)}
						for _, p := range cfg.Interfaces[0].Plugins {
							if err := p.Prepare(nif); err != nil {
								panic(err)
							}
						}
						hmu.Lock()
						prepared = true
						hmu.Unlock()
						vsched.Obs("prepared", "round=%d", round)
					}
				})
			}
			x.Spawn("driver", func() {
				defer a.done()
				defer system.VerifSetAddresser(nil)
				if c.Phase == "reinit" {
					vsched.Sleep(5 * time.Second)
					vsched.Mark()
					vsched.Send("harness:link-change", a.watchC, netstate.LinkDown)
				}
				// (phase "start": no Mark - every choice point from the beginning is branched on.)
				vsched.Sleep(3 * time.Second)
				if c.Phase == "prepare" {
					rs.MAC = a.macOf(1).String()
				}
				scrape("final")
				api("final")
				a.cancel()
				vsched.Sleep(time.Second)
				x.Finish()
			})
		},
	}
	sc.Check = func(x *vsched.Exec) (out [][2]string) {
		if x.Failure != "" {
			sig := "C17:sched:" + x.FailKind
			if strings.Contains(x.Failure, "unhandled NDP option") {
				sig += ":unhandled-option"
			} else if strings.Contains(x.Failure, "nil pointer") {
				sig += ":nil-dereference"
			}
			return [][2]string{{sig, x.Failure}}
		}
		n := 0
		for _, r := range results {
			if strings.HasPrefix(r, "BAD") {
				kind := strings.Fields(r)[1]
				out = append(out, [2]string{"C17:sched:" + kind, r})
			}
			n++
		}
		if n != 6 {
			out = append(out, [2]string{"C17:sched:request-did-not-complete", fmt.Sprintf("%d of 6 requests completed: %v", n, results)})
		}
		if c.Phase == "prepare" {
			return out
		}
		if ret, err, _ := a.returned(); !ret || err != nil {
			out = append(out, [2]string{"C17:sched:run", fmt.Sprintf("Run returned=%t err=%v", ret, err)})
		}
		return out
	}
	return sc
}

var c17SchedCases = []c17SchedCase{{"start", "start"}, {"reinit", "reinit"}, {"prepare", "prepare"}}

func TestVerifC17Sched(t *testing.T) {
	r := ev.Begin("C17", "sched")
	defer r.End(t)
	r.Rule = "executions = goroutine schedules within the deviation bound of the instrumented real Advertiser (wildcard prefix/route/RDNSS, deprecated prefix, PREF64; interface not ready on the first dial) with a scraper thread (2 scrapes) and an API client (2 requests) started (a) together with Run, (b) together with a link change that forces re-initialisation, (c) together with a thread that re-binds (Prepare) all plugins of the interface twice, plus one final scrape/request; oracle: no panic, no hang, all 6 requests complete; an error only while nothing has ever been sent; otherwise the advertised prefixes, router lifetime and PREF64 equal the reference RA"
	bound := 1
	if r.Thorough() {
		bound = 2
	}
	cases := c17SchedCases
	exploreCases(t, r, cases, func(c c17SchedCase) string { return c.Name }, c17SchedScenario, exploreOpts{Bound: bound, Budget: 120 * time.Second})
}
