//go:build verif

package corerad

import (
	"errors"
	"fmt"
	"net"
	"net/netip"
	"os"
	"strings"
	"syscall"
	"testing"
	"time"

	"github.com/mdlayher/corerad/internal/netstate"
	"github.com/mdlayher/corerad/internal/system"
	"github.com/mdlayher/corerad/verifrt/ev"
	"github.com/mdlayher/corerad/verifrt/vsched"
)

// C10 part 2 (teardown): a receive or transmit error, exhaustion of receive
// retries or a link-state change stops every activity of the interface's task
// together and promptly; the task is re-established when the cause is
// recoverable and ends with an error otherwise; nothing touches the old
// connection afterwards; cancellation always gives a prompt clean return.

type c10Case struct {
	Name     string `json:"name"`
	Monitor  bool   `json:"monitor"`
	Fault    string `json:"fault"`     // read-syscall read-other write-syscall write-other timeouts link-change
	Redial   string `json:"redial"`    // ok | notready-once
	CancelAt string `json:"cancel_at"` // "" | "after-fault" | "in-backoff"
	// UnicastOnly: the advertising interface is in unicast-only mode (no multicast RA is
	// ever sent; failures are handled like on any other interface).
	UnicastOnly bool `json:"unicast_only,omitempty"`
}

func c10Cases() []c10Case {
	var cs []c10Case
	for _, mon := range []bool{false, true} {
		for _, f := range []string{"read-syscall", "read-other", "write-syscall", "write-other", "write5-syscall", "write5-other", "timeouts", "link-change", "link-change-then-close", "link-change+rs", "link-change-at-tx", "isolated-timeouts", "read-enfile", "read-eintr"} {
			if mon && strings.HasPrefix(f, "write") {
				continue
			}
			for _, rd := range []string{"ok", "notready-once"} {
				recoverable := c10Recoverable(f)
				if !recoverable && rd != "ok" {
					continue
				}
				k := "adv"
				if mon {
					k = "mon"
				}
				cs = append(cs, c10Case{Name: k + "/" + f + "/" + rd, Monitor: mon, Fault: f, Redial: rd})
				if recoverable && rd == "notready-once" {
					cs = append(cs, c10Case{Name: k + "/" + f + "/" + rd + "/cancel-in-backoff", Monitor: mon, Fault: f, Redial: rd, CancelAt: "in-backoff"})
				}
			}
		}
	}
	cs = append(cs, c10Case{Name: "adv/read-other/ok/cancel-after-fault", Fault: "read-other", Redial: "ok", CancelAt: "after-fault"})
	for _, f := range []string{"link-change", "read-syscall", "read-other", "timeouts", "link-change-then-close"} {
		cs = append(cs, c10Case{Name: "adv-unicast-only/" + f + "/ok", Fault: f, Redial: "ok", UnicastOnly: true})
	}
	// A solicited answer fails to transmit while a rate-limited multicast RA is still
	// queued in the scheduler: the queued work must not keep the failed task alive.
	cs = append(cs, c10Case{Name: "adv/write-unicast-pending-other/ok", Fault: "write-unicast-pending-other", Redial: "ok"},
		c10Case{Name: "adv/write-unicast-pending-syscall/ok", Fault: "write-unicast-pending-syscall", Redial: "ok"})
	// Two solicited answers are pending when transmissions start to fail: both fail.
	cs = append(cs, c10Case{Name: "adv/two-writes-fail-syscall/ok", Fault: "two-writes-fail-syscall", Redial: "ok"},
		c10Case{Name: "adv/two-writes-fail-other/ok", Fault: "two-writes-fail-other", Redial: "ok"})
	return cs
}

func c10Recoverable(f string) bool {
	return f == "read-syscall" || f == "read-enfile" || f == "read-eintr" || f == "write-syscall" || f == "write5-syscall" || f == "link-change" || f == "link-change+rs" || f == "link-change-at-tx" || f == "link-change-then-close" || f == "write-unicast-pending-syscall" || f == "two-writes-fail-syscall"
}

func c10Scenario(c c10Case) *vsched.Scenario {
	var (
		w        *world
		returned func() (bool, error)
		faultAt  time.Duration // (kept for messages)
	)
	sc := &vsched.Scenario{
		Name:    c.Name,
		Horizon: 5 * time.Minute,
		Setup: func(x *vsched.Exec) {
			var cancel func()
			var watchC chan netstate.Change
			var inject func(inMsg) bool
			if c.Monitor {
				m := newMonWorld("eth0", true)
				w, cancel, watchC, inject = m.world, m.cancel, m.watchC, m.inject
				returned = m.returned
				x.Spawn("task", m.run)
			} else {
				acfg := staticCfg("eth0", 4*time.Second, 4*time.Second)
				acfg.UnicastOnly = c.UnicastOnly
				a := newAdvWorld(acfg, true, true)
				w, cancel, watchC, inject = a.world, a.cancel, a.watchC, a.inject
				returned = func() (bool, error) { r, e, _ := a.returned(); return r, e }
				x.Spawn("task", a.run)
			}
			sysErr := os.NewSyscallError("recvmsg", syscall.ENETDOWN)
			other := errors.New("verif: injected failure")
			w.dialFault = func(n int) error {
				if n == 1 && c.Redial == "notready-once" {
					return fmt.Errorf("interface not ready: %w", system.ErrLinkNotReady)
				}
				return nil
			}
			nw := 0
			w.writeFault = func(fc *fconn, dst netip.Addr) error {
				if fc.id != 0 || !(strings.HasPrefix(c.Fault, "write") || strings.HasPrefix(c.Fault, "two-writes-fail")) {
					return nil
				}
				if strings.HasPrefix(c.Fault, "two-writes-fail") {
					if dst.IsMulticast() {
						return nil
					}
					faultAt = w.now()
					vsched.Obs("fault", "%s", c.Fault)
					if strings.HasSuffix(c.Fault, "syscall") {
						return os.NewSyscallError("sendmsg", syscall.ENETDOWN)
					}
					return other
				}
				if strings.HasPrefix(c.Fault, "write-unicast-pending") {
					if dst.IsMulticast() {
						return nil
					}
					faultAt = w.now()
					vsched.Obs("fault", "%s", c.Fault)
					if strings.HasSuffix(c.Fault, "syscall") {
						return os.NewSyscallError("sendmsg", syscall.ENETDOWN)
					}
					return other
				}
				nw++
				// initial RA, first periodic RA, then this one fails; "write5-*": the RAs at 3, 6
				// and 9 s were held back by the rate limit, the one at 12 s is the first that is
				// due at once (no timer in between).
				failAt := 3
				if strings.HasPrefix(c.Fault, "write5") {
					failAt = 5
				}
				if nw == failAt {
					faultAt = w.now()
					vsched.Obs("fault", "%s", c.Fault)
					if strings.HasSuffix(c.Fault, "syscall") {
						return os.NewSyscallError("sendmsg", syscall.ENETDOWN)
					}
					return other
				}
				return nil
			}
			x.Spawn("driver", func() {
				defer w.done()
				vsched.Sleep(5 * time.Second)
				if c.Fault == "link-change-at-tx" {
					// The link change arrives at the very instant a rate-limited multicast RA
					// (requested at 8s, held back until 9s) is due: its worker may be anywhere
					// between its "still running?" check and its transmission.
					vsched.Sleep(4 * time.Second)
				}
				vsched.Mark()
				if !strings.HasPrefix(c.Fault, "write") && !strings.HasPrefix(c.Fault, "two-writes-fail") {
					faultAt = w.now()
					vsched.Obs("fault", "%s", c.Fault)
				}
				switch c.Fault {
				case "read-syscall":
					inject(inMsg{err: sysErr})
				case "read-other":
					inject(inMsg{err: other})
				case "read-enfile", "read-eintr":
					// A receive error whose errno calls itself "temporary" (ENFILE, EINTR) is still a
					// receive error, not a timeout: the session ends and the interface is re-dialled.
					en := syscall.ENFILE
					if c.Fault == "read-eintr" {
						en = syscall.EINTR
					}
					inject(inMsg{err: &net.OpError{Op: "read", Net: "ip6:ipv6-icmp", Err: os.NewSyscallError("recvmsg", en)}})
				case "timeouts":
					for i := 0; i < 5; i++ {
						inject(inMsg{err: timeoutErr{}})
					}
				case "isolated-timeouts":
					// Eight receive timeouts, each followed by a successfully received message:
					// every one is retried and none counts as an error (the budget of 5 is per
					// receive, not per connection).
					for i := 0; i < 8; i++ {
						inject(inMsg{err: timeoutErr{}})
						vsched.Sleep(300 * time.Millisecond)
						inject(rsFrom(fmt.Sprintf("fe80::%x", 0x20+i), true))
						vsched.Sleep(300 * time.Millisecond)
					}
				case "link-change", "link-change-at-tx":
					vsched.Send("harness:link-change", watchC, netstate.LinkDown)
				case "link-change+rs":
					// A solicitation is read from the socket just as the link change ends the
					// session (the scheduler may already have stopped consuming requests).
					vsched.Send("harness:link-change", watchC, netstate.LinkDown)
					inject(rsFrom("fe80::5", true))
				case "link-change-then-close":
					// The watcher reports a change and then halts (closes its channels).
					vsched.Send("harness:link-change", watchC, netstate.LinkDown)
					vsched.Close("harness:watcher-halts", watchC)
				case "two-writes-fail-syscall", "two-writes-fail-other":
					vsched.Sleep(1500 * time.Millisecond) // 6.5s: no multicast RA is due around here
					inject(rsFrom("fe80::5", true))
					inject(rsFrom("fe80::6", true)) // both answers are due at once; both transmissions fail
				case "write-unicast-pending-other", "write-unicast-pending-syscall":
					vsched.Sleep(1100 * time.Millisecond) // a multicast RA went out at 6s
					inject(rsFrom("::", false))           // its answer is held back until 9s
					vsched.Sleep(100 * time.Millisecond)
					inject(rsFrom("fe80::5", true)) // this answer's transmission fails
				default: // write faults happen on the periodic RA due at 6s (write5: at 12s)
					vsched.Sleep(time.Second)
					if strings.HasPrefix(c.Fault, "write5") {
						vsched.Sleep(6 * time.Second)
					}
				}
				switch c.CancelAt {
				case "after-fault":
					vsched.Obs("cancel", "")
					cancel()
				case "in-backoff":
					vsched.Sleep(100 * time.Millisecond) // first retry (0 delay) failed; next is due at +250ms
					vsched.Obs("cancel", "")
					cancel()
				}
				if c.CancelAt == "" && c10Recoverable(c.Fault) && !c.Monitor {
					// The re-established advertiser must really serve again: a solicitation
					// after the re-dial, and time for the first periodic RA of the new connection.
					vsched.Sleep(1500 * time.Millisecond)
					inject(rsFrom("fe80::9", true))
					vsched.Sleep(2500 * time.Millisecond)
				} else {
					vsched.Sleep(3 * time.Second)
				}
				vsched.Obs("script-end", "")
				if c.CancelAt == "" {
					cancel()
				}
				vsched.Sleep(2 * time.Second)
				x.Finish()
			})
		},
	}
	sc.Check = func(x *vsched.Exec) (out [][2]string) {
		bad := func(sig, format string, args ...any) {
			out = append(out, [2]string{sig, fmt.Sprintf(format, args...)})
		}
		if x.Failure != "" {
			bad("C10:"+x.FailKind, "%s", x.Failure)
			return out
		}
		var (
			faultIdx, closeIdx, open1Idx, retIdx, endIdx, cancelIdx = -1, -1, -1, -1, -1, -1
			retT, open1T, cancelT                                   time.Duration
			retDetail                                               string
		)
		closes := map[string]int{}
		leaves := map[string]int{}
		for i, e := range x.Log {
			switch e.Kind {
			case "fault":
				if faultIdx < 0 {
					faultIdx = i
				}
			case "conn-close":
				closes[e.Detail]++
				if e.Detail == "conn=0" && closeIdx < 0 {
					closeIdx = i
				}
			case "leave-group":
				leaves[e.Detail]++
			case "conn-open":
				if e.Detail == "conn=1" {
					open1Idx, open1T = i, e.T
				}
			case "run-returned":
				retIdx, retT, retDetail = i, e.T, e.Detail
			case "script-end":
				endIdx = i
			case "cancel":
				cancelIdx, cancelT = i, e.T
			}
		}
		_ = faultAt
		if faultIdx < 0 {
			bad("C10:harness", "fault was never injected")
			return out
		}
		// Nothing touches the old connection once it is closed / the next one is opened / Run returned.
		for i, e := range x.Log {
			if e.Kind == "io-after-close" {
				bad("C10:io-on-closed-connection", "%s", e.Detail)
			}
			if (e.Kind == "read-begin" || e.Kind == "write-begin") && strings.Contains(e.Detail, "conn=0") {
				if open1Idx >= 0 && i > open1Idx {
					bad("C10:io-on-old-connection", "%s %s after the interface was re-dialled", e.Kind, e.Detail)
				}
			}
			if (e.Kind == "read-begin" || e.Kind == "write-begin") && retIdx >= 0 && i > retIdx {
				bad("C10:io-after-return", "%s %s after Run returned", e.Kind, e.Detail)
			}
		}
		for k, n := range closes {
			if n != 1 || leaves[k] != 1 {
				bad("C10:cleanup-count", "%s: closed %d times, left the group %d times", k, n, leaves[k])
			}
		}
		switch {
		case c.Fault == "isolated-timeouts":
			// Not a failure at all: the task keeps its connection and keeps running.
			if closeIdx >= 0 && closeIdx < endIdx || open1Idx >= 0 {
				bad("C10:torn-down-without-failure", "isolated, successfully retried receive timeouts: the connection was closed / re-dialled (closed=%t re-dialled=%t returned=%q)", closeIdx >= 0, open1Idx >= 0, retDetail)
			}
			if retIdx >= 0 && retIdx < endIdx {
				bad("C10:torn-down-without-failure", "isolated, successfully retried receive timeouts: Run returned %q", retDetail)
			}
		case c.CancelAt != "":
			// Cancellation: prompt clean return, whatever state the task is in.
			if retIdx < 0 || retIdx < cancelIdx {
				if c.CancelAt == "after-fault" && retIdx >= 0 && retDetail != "<nil>" {
					break // the fault's own (unrecoverable) error won the race: acceptable
				}
				bad("C10:cancel-not-prompt", "Run has not returned after cancellation")
			} else if retT-cancelT > time.Second {
				bad("C10:cancel-not-prompt", "Run returned %s after cancellation", retT-cancelT)
			} else if retDetail != "<nil>" && c.CancelAt == "in-backoff" {
				bad("C10:cancel-error", "cancellation during back-off returned %s, want nil", retDetail)
			}
		case c10Recoverable(c.Fault):
			// Re-established: the old connection is cleaned up, a new one opened within
			// the back-off policy (0 or 250ms), and it gets an initial RA.
			if closeIdx < 0 || open1Idx < 0 {
				bad("C10:not-reestablished", "after a recoverable %s the interface was not re-dialled (old connection closed=%t, new connection opened=%t, Run returned=%q) - the task is half-alive or gone", c.Fault, closeIdx >= 0, open1Idx >= 0, retDetail)
				break
			}
			if closeIdx > open1Idx {
				bad("C10:reopen-before-cleanup", "new connection opened before the old one was cleaned up")
			}
			limit := 1 * time.Second
			if d := open1T - x.Log[faultIdx].T; d > limit {
				bad("C10:slow-recovery", "re-dial %s after the fault", d)
			}
			if !c.Monitor {
				got := false
				for _, wr := range w.Writes() {
					if wr.Conn == 1 && isAllNodes(wr.Dst) && wr.T == open1T {
						got = true
					}
				}
				if !got && !c.UnicastOnly {
					bad("C10:no-initial-ra-after-redial", "the re-established connection did not get an initial multicast RA")
				}
				nm, nu := 0, 0
				for _, wr := range w.Writes() {
					if wr.Conn == 1 && wr.Err == nil && wr.T < x.Log[endIdx].T {
						if isAllNodes(wr.Dst) {
							nm++
						} else if wr.Dst.String() == "fe80::9" {
							nu++
						}
					}
				}
				if c.UnicastOnly {
					if nm != 0 || nu != 1 {
						bad("C10:not-serving-after-redial", "unicast-only: after the re-dial the new connection carried %d multicast RAs (want none) and %d answers to the solicitation sent 1.5s after the fault (want 1)", nm, nu)
					}
				} else if nm < 2 || nu != 1 {
					bad("C10:not-serving-after-redial", "after the re-dial the new connection carried %d multicast RAs (want the initial one and at least one periodic) and %d answers to the solicitation sent 1.5s after the fault (want 1): the task looks alive but does not serve", nm, nu)
				}
			}
			if retIdx >= 0 && retIdx < endIdx {
				bad("C10:gave-up", "Run returned %q after a recoverable fault", retDetail)
			}
		default:
			// Unrecoverable: ends with a reported error, promptly, after cleaning up.
			if retIdx < 0 || retIdx > endIdx {
				bad("C10:half-alive", "after %s the task neither stopped nor re-dialled: Run still running %s later (returned=%q)", c.Fault, 3*time.Second, retDetail)
				break
			}
			if retDetail == "<nil>" {
				bad("C10:error-not-reported", "Run returned nil after %s", c.Fault)
			}
			if d := retT - x.Log[faultIdx].T; d > time.Second {
				bad("C10:slow-stop", "Run returned %s after the fault", d)
			}
			if closeIdx < 0 || closeIdx > retIdx {
				bad("C10:no-cleanup", "connection not cleaned up before Run returned")
			}
		}
		if ret, _ := returned(); !ret {
			bad("C10:never-returned", "Run did not return even after the final cancellation")
		}
		return out
	}
	return sc
}

func TestVerifC10(t *testing.T) {
	r := ev.Begin("C10", "teardown")
	defer r.End(t)
	r.Rule = "executions = goroutine schedules within the deviation bound of the instrumented real Advertiser and Monitor (real Dialer, real dial() over fakes) with one fault injected while running: ReadFrom error (syscall ENETDOWN / ENFILE / EINTR / other), 3rd WriteTo error (syscall / other), five receive timeouts, eight isolated receive timeouts each followed by a received message (no failure: nothing may be torn down), a link-state change (also followed by the watcher halting, together with a solicitation, and at the instant a held-back multicast RA is due; the last two also at bound 2 in the quick tier); x re-dial answers {ok, link-not-ready once}; x cancellation {none, right after the fault, during the back-off}; + 5 of the faults on a unicast-only advertiser; oracle on the ordered log: recoverable => old connection cleaned up (left group + closed once) then a new one opened within 1s, given an initial RA, a periodic RA and an answer to a solicitation sent after the re-dial, unrecoverable => Run returns an error within 1s after cleanup, never any I/O on the old connection after close / re-dial / return, cancellation => return within 1s (nil during back-off)"
	opts := exploreOpts{Bound: 1}
	if r.Thorough() {
		opts.Bound = 2
		opts.Budget = 60 * time.Second
	}
	exploreCases(t, r, c10Cases(), func(c c10Case) string { return c.Name }, c10Scenario, opts)
	if !r.Thorough() && r.Replay == nil {
		// Quick tier: the faults that race with a transmission worker (a worker between its
		// "still running?" check and its WriteTo while the session is torn down needs two
		// deviations) also at bound 2.
		var cs []c10Case
		for _, c := range c10Cases() {
			if !c.Monitor && c.Redial == "ok" && (c.Fault == "link-change+rs" || c.Fault == "link-change-at-tx" || strings.HasPrefix(c.Fault, "two-writes-fail")) {
				cs = append(cs, c)
			}
		}
		exploreCases(t, r, cs, func(c c10Case) string { return c.Name + "@2" }, c10Scenario, exploreOpts{Bound: 2})
	}
}
