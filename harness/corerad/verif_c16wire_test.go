//go:build verif && vsched

package corerad

import (
	"encoding/json"
	"fmt"
	"net/netip"
	"strings"
	"testing"
	"time"

	"github.com/mdlayher/corerad/internal/plugin"
	"github.com/mdlayher/corerad/internal/system"
	"github.com/mdlayher/corerad/verifrt/enum"
	"github.com/mdlayher/corerad/verifrt/ev"
	"github.com/mdlayher/ndp"
)

// C16 on the wire: "the lifetimes advertised at time t" - t is when the RA is
// transmitted. The whole real Advertiser runs under the virtual clock with a
// deprecated prefix and a deprecated route whose deadlines fall inside the run;
// solicitations (rate-limited multicast answers wait up to 3 s, unicast answers
// up to 0.5 s), transient send failures and link changes arrive in every order.
// Every RA handed to WriteTo must carry exactly the time remaining at that
// instant, never more than the RA before it, and zero from the deadline on.

const (
	c16Valid = 20 * time.Second
	c16Pref  = 10 * time.Second
	c16Route = 15 * time.Second
)

func c16Plugins() []plugin.Plugin {
	epoch := time.Now() // inside the bubble: the virtual clock's start
	return []plugin.Plugin{
		// The ::/64 wildcard comes first and also expands to the deprecated stanza's /64 (the
		// interface has an address in it): both options are advertised, each with its own lifetimes.
		&plugin.Prefix{Auto: true, Prefix: netip.MustParsePrefix("::/64"), OnLink: true, Autonomous: true,
			ValidLifetime: 2 * time.Hour, PreferredLifetime: time.Hour},
		&plugin.Prefix{Prefix: netip.MustParsePrefix("2001:db8:d::/64"), OnLink: true, Autonomous: true,
			ValidLifetime: c16Valid, PreferredLifetime: c16Pref, Deprecated: true, Epoch: epoch},
		&plugin.Prefix{Prefix: netip.MustParsePrefix("2001:db8:c::/64"), OnLink: true, Autonomous: true,
			ValidLifetime: time.Hour, PreferredLifetime: time.Minute},
		&plugin.Route{Prefix: netip.MustParsePrefix("2001:db8:e::/48"), Preference: ndp.Medium,
			Lifetime: c16Route, Deprecated: true, Epoch: epoch},
	}
}

// c16PluginsStatic: the same deprecated stanzas on an interface without any wildcard
// (nothing about it depends on the system's addresses or routes - only on the clock).
func c16PluginsStatic() []plugin.Plugin {
	var out []plugin.Plugin
	for _, p := range c16Plugins() {
		if px, ok := p.(*plugin.Prefix); ok && px.Auto {
			// in its place, a static non-deprecated prefix with the wildcard's constants
			out = append(out, &plugin.Prefix{Prefix: netip.MustParsePrefix("2001:db8:d::/64"), OnLink: true, Autonomous: true,
				ValidLifetime: 2 * time.Hour, PreferredLifetime: time.Hour})
			continue
		}
		out = append(out, p)
	}
	return out
}

func c16Clamp(d time.Duration) time.Duration {
	if d < 0 {
		return 0
	}
	return d
}

type c16Addresser struct{}

func (c16Addresser) AddressesByIndex(int) ([]system.IP, error) {
	return []system.IP{{Address: netip.MustParsePrefix("2001:db8:d::1/64")}, {Address: netip.MustParsePrefix("fe80::1/64")}}, nil
}
func (c16Addresser) LoopbackRoutes() ([]system.Route, error) { return nil, nil }

func c16WireRun(t *testing.T, c c06Case) (steps int, log string, out [][2]string) {
	c.plugins = c16Plugins
	if c.StaticOnly {
		c.plugins = c16PluginsStatic
	}
	system.VerifSetAddresser(c16Addresser{})
	defer system.VerifSetAddresser(nil)
	x, a, _ := c06Run(t, c)
	if x.Failure != "" {
		return x.Steps, x.LogString(), [][2]string{{"C16:wire:" + x.FailKind, x.Failure}}
	}
	bad := func(sig, format string, args ...any) {
		out = append(out, [2]string{sig, fmt.Sprintf(format, args...)})
	}
	var lastV, lastP, lastR time.Duration = -1, -1, -1
	n := 0
	for i, w := range a.Writes() {
		if w.RA == nil {
			continue
		}
		var v, p, r time.Duration = -1, -1, -1
		nwild := 0
		for _, o := range w.RA.Options {
			switch o := o.(type) {
			case *ndp.PrefixInformation:
				if o.Prefix == netip.MustParseAddr("2001:db8:d::") && o.ValidLifetime == 2*time.Hour && o.PreferredLifetime == time.Hour && nwild == 0 {
					nwild++ // the wildcard's option for the same /64: constants
				} else if o.Prefix == netip.MustParseAddr("2001:db8:d::") {
					v, p = o.ValidLifetime, o.PreferredLifetime
				} else if o.ValidLifetime != time.Hour || o.PreferredLifetime != time.Minute {
					bad("C16:wire:constant-changed", "RA #%d at %s: non-deprecated prefix advertises %s/%s", i, w.T, o.ValidLifetime, o.PreferredLifetime)
				}
			case *ndp.RouteInformation:
				r = o.RouteLifetime
			}
		}
		if nwild != 1 {
			bad("C16:wire:wildcard-option", "RA #%d at %s: %d options of the ::/64 wildcard for 2001:db8:d::/64 with its constant lifetimes, want 1", i, w.T, nwild)
		}
		if v < 0 || r < 0 {
			bad("C16:wire:option-missing", "RA #%d at %s to %s lacks the deprecated prefix or route", i, w.T, w.Dst)
			continue
		}
		n++
		wv, wp, wr := c16Clamp(c16Valid-w.T), c16Clamp(c16Pref-w.T), c16Clamp(c16Route-w.T)
		if v != wv || p != wp || r != wr {
			bad("C16:wire:not-remaining-time", "RA #%d to %s transmitted at %s carries valid=%s preferred=%s route=%s, remaining time is %s/%s/%s", i, w.Dst, w.T, v, p, r, wv, wp, wr)
		}
		if lastV >= 0 && (v > lastV || p > lastP || r > lastR) {
			bad("C16:wire:increased", "RA #%d at %s carries %s/%s/%s after %s/%s/%s", i, w.T, v, p, r, lastV, lastP, lastR)
		}
		if p > v {
			bad("C16:wire:preferred-exceeds-valid", "RA #%d at %s: preferred %s > valid %s", i, w.T, p, v)
		}
		lastV, lastP, lastR = v, p, r
	}
	if n < 3 {
		bad("C16:wire:harness", "only %d RAs observed", n)
	}
	return x.Steps, x.LogString(), out
}

func TestVerifC16Wire(t *testing.T) {
	r := ev.Begin("C16", "wire")
	defer r.End(t)
	r.Rule = "histories = all sequences of <=K events over {solicitation from ::, unicast solicitation, link change (re-initialisation), transient failure of the next scheduled multicast RA, IPv6 forwarding of the interface flips off/on} x gap {0.1, 2.9, 3.1, 6 s}, injected into the real Advertiser (min=max=4s; deprecated prefix valid 20s / preferred 10s, deprecated route 15s, epoch = start of the virtual clock; one non-deprecated prefix; and the ::/64 wildcard listed first, which expands to the deprecated stanza's /64 too; and, for histories of <=2 events in the quick tier, the same interface with a static prefix in the wildcard's place: no wildcard at all) and followed by 8 quiet seconds; plus 60 histories of 2-3 solicitations 0-19 ms apart (just after the start and just before each deadline) while every transmission stays in flight for 20 ms; oracle on every RA handed to WriteTo: lifetimes = max(0, deadline - transmission time) exactly, never above the previous RA's, preferred<=valid, constants for the non-deprecated prefix; states = histories; non-trivial = history has >=1 event; distinct = distinct history"
	r.Assumptions = []string{"canonical goroutine schedule per history", "random delay draws at their default (0) answer"}
	if r.Replay != nil {
		var c c06Case
		if err := json.Unmarshal(r.Replay, &c); err != nil {
			t.Fatalf("bad replay: %v", err)
		}
		_, log, vs := c16WireRun(t, c)
		r.Case(c.String(), true)
		r.Sample(map[string]any{"history": c.String(), "log": strings.Split(log, "\n")})
		fmt.Printf("history %s\n%s", c, log)
		for _, v := range vs {
			r.Violation(v[0], v[1], c)
		}
		return
	}
	K := 3
	if r.Thorough() {
		K = 4
	}
	gaps := []time.Duration{100 * time.Millisecond, 2900 * time.Millisecond, 3100 * time.Millisecond, 6 * time.Second}
	n := 5 * len(gaps)
	idx := 0
	enum.Sequences(n, K, func(seq []int) bool {
		idx++
		if !r.Mine(idx) {
			return true
		}
		if r.OverBudget() {
			r.Capped("wall-clock budget reached before all histories were run")
			return false
		}
		c := c06Case{}
		for _, s := range seq {
			e := c06Event{Gap: gaps[s%len(gaps)]}
			switch s / len(gaps) {
			case 0:
				e.Multicast = true
			case 2:
				e.Reinit = true
			case 3:
				e.WriteErr = true
			case 4:
				e.FwdFlip = true
			}
			c.Events = append(c.Events, e)
		}
		for _, static := range []bool{false, true} {
			if static && len(seq) > 2 && !r.Thorough() {
				continue // quick tier: the all-static interface for histories of <=2 events
			}
			c.StaticOnly = static
			steps, _, vs := c16WireRun(t, c)
			r.Case(c.String(), len(seq) > 0)
			r.Count("states", 1)
			r.Count("transitions", int64(steps))
			r.Outcome(fmt.Sprint(len(vs) == 0))
			r.Sample(map[string]any{"history": c.String(), "steps": steps})
			for _, v := range vs {
				r.Violation(v[0], "history "+c.String()+": "+v[1], c)
			}
		}
		return true
	})
	// Transmissions that take time (20 ms in flight each) while further answers become due:
	// every RA still carries the time remaining at the instant IT is handed to the socket
	// (an RA built while another one was in flight and sent later would be stale).
	ms := time.Millisecond
	for _, kinds := range [][]bool{{false, false}, {false, true}, {true, false}, {false, false, false}, {false, true, false}} {
		for _, gap := range []time.Duration{0, ms, 5 * ms, 19 * ms} {
			for _, first := range []time.Duration{100 * ms, 9990 * ms, 14990 * ms} {
				idx++
				if !r.Mine(idx) {
					continue
				}
				c := c06Case{WriteTime: 20 * ms}
				for i, m := range kinds {
					g := gap
					if i == 0 {
						g = first
					}
					c.Events = append(c.Events, c06Event{Multicast: m, Gap: g})
				}
				steps, _, vs := c16WireRun(t, c)
				r.Case(c.String(), true)
				r.Count("states", 1)
				r.Count("transitions", int64(steps))
				for _, v := range vs {
					r.Violation(v[0], "history "+c.String()+": "+v[1], c)
				}
			}
		}
	}
	r.Max("max_depth", int64(K))
}
