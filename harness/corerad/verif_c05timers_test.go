//go:build verif && !vsched

package corerad

import (
	"context"
	"fmt"
	"io"
	"log"
	"net/netip"
	"sync"
	"testing"
	"time"

	"github.com/mdlayher/corerad/internal/config"
	"github.com/mdlayher/corerad/internal/system"
	"github.com/mdlayher/corerad/verifrt/ev"
)

// C05 in real time, with the timer semantics the module is built with in production
// (go.mod says go 1.22: a timer's channel keeps a tick that was not received; every other
// part runs under testing/synctest, which requires the newer semantics). One Advertiser
// value serves several sessions in a row (what the Dialer does on every re-initialisation):
// a session is ended while the loop is waiting, the next one starts after a pause, and in
// every session every wait between consecutive requests is at least min.
//
// The oracle only uses bounds that slowness of the machine cannot violate: requests are
// taken over an unbuffered channel; with b(k) read before request k is awaited and a(k+1)
// after request k+1 was taken, a(k+1) - b(k) >= (true wait k) >= min on correct code
// whatever the scheduling delays, so a(k+1) - b(k) < min proves a short wait.

type c05TimerCase struct {
	Interval time.Duration   `json:"min_max_interval"`
	RunFor   []time.Duration `json:"session_lengths"`
	Pause    []time.Duration `json:"pauses_between_sessions"`
}

func c05TimersRun(c c05TimerCase) (out [][2]string) {
	st := system.TestState{Forwarding: true}
	cctx := NewContext(log.New(io.Discard, "", 0), nil, st)
	a := NewAdvertiser(cctx, config.Interface{Name: "eth0", Advertise: true, MinInterval: c.Interval, MaxInterval: c.Interval, HopLimit: 64, DefaultLifetime: 1800 * time.Second}, nil, nil, func() bool { return false })
	for si, runFor := range c.RunFor {
		ctx, cancel := context.WithCancel(context.Background())
		ipC := make(chan netip.Addr) // unbuffered: a request is sent when it is taken
		done := make(chan struct{})
		go func() { defer close(done); c05Multicast(a, ctx, ipC) }()
		end := time.After(runFor)
		var before time.Time
		k := 0
	session:
		for {
			b := time.Now()
			select {
			case <-ipC:
				after := time.Now()
				if k > 0 {
					if d := after.Sub(before); d < c.Interval {
						out = append(out, [2]string{"C05:timers:short-wait", fmt.Sprintf("%s: session %d: at most %s passed between request %d being awaited and request %d being taken, min_interval is %s", ev.JSON(c), si, d, k-1, k, c.Interval)})
					}
				}
				before = b
				k++
			case <-end:
				break session
			}
		}
		cancel()
		// Keep taking requests until the loop has returned: its send is a plain blocking send
		// (in production the scheduler's buffered channel takes it), so a request it was
		// about to hand over when the session ended must still be accepted.
		deadline := time.After(60 * time.Second)
	drain:
		for {
			select {
			case <-done:
				break drain
			case <-ipC:
			case <-deadline:
				out = append(out, [2]string{"C05:timers:loop-did-not-stop", fmt.Sprintf("%s: session %d: the loop did not stop within 60 s of cancellation although its requests were being taken", ev.JSON(c), si)})
				return out
			}
		}
		if si < len(c.Pause) {
			time.Sleep(c.Pause[si])
		}
	}
	return out
}

func TestVerifC05Timers(t *testing.T) {
	r := ev.Begin("C05", "timers")
	defer r.End(t)
	r.Rule = "real time, module-default GODEBUG (pre-1.23 timer channels): one Advertiser value (min=max=1s) running its unsolicited loop in 2-3 consecutive sessions; sessions ended 0.3 s / 1.3 s into a wait, pauses of 0.2 s / 1.5 s / 2.5 s before the next session (9 scripts, run concurrently); oracle (sound against slow machines): for consecutive requests of a session, time read after request k+1 was taken minus time read before request k was awaited >= min; the loop stops on cancellation; non-trivial = every script"
	r.Assumptions = []string{"wall-clock test: only lower bounds that scheduling delays cannot violate are asserted; liveness deadline 60 s"}
	if !c05MulticastSig() {
		r.Capped("Advertiser.multicast no longer has the signature (context.Context, chan<- netip.Addr): part skipped")
		return
	}
	s, ms := time.Second, time.Millisecond
	var cases []c05TimerCase
	for _, run1 := range []time.Duration{300 * ms, 1300 * ms} {
		for _, pause := range []time.Duration{200 * ms, 1500 * ms, 2500 * ms} {
			cases = append(cases, c05TimerCase{Interval: s, RunFor: []time.Duration{run1, 2400 * ms}, Pause: []time.Duration{pause}})
		}
	}
	cases = append(cases,
		c05TimerCase{Interval: s, RunFor: []time.Duration{300 * ms, 300 * ms, 2400 * ms}, Pause: []time.Duration{1500 * ms, 1500 * ms}},
		c05TimerCase{Interval: s, RunFor: []time.Duration{1300 * ms, 300 * ms, 2400 * ms}, Pause: []time.Duration{200 * ms, 2500 * ms}},
		c05TimerCase{Interval: 2 * s, RunFor: []time.Duration{500 * ms, 4400 * ms}, Pause: []time.Duration{3 * s}})
	var (
		mu  sync.Mutex
		wg  sync.WaitGroup
		all = map[int][][2]string{}
	)
	for i, c := range cases {
		wg.Add(1)
		go func() {
			defer wg.Done()
			vs := c05TimersRun(c)
			mu.Lock()
			all[i] = vs
			mu.Unlock()
		}()
	}
	wg.Wait()
	for i, c := range cases {
		r.Case(ev.JSON(c), true)
		for _, v := range all[i] {
			r.Violation(v[0], v[1], c)
		}
	}
}
