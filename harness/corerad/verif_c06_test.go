//go:build verif

package corerad

import (
	"encoding/json"
	"fmt"
	"os"
	"strconv"
	"strings"
	"testing"
	"time"

	"github.com/mdlayher/corerad/verifrt/enum"
	"github.com/mdlayher/corerad/verifrt/ev"
	"github.com/mdlayher/corerad/verifrt/vsched"
)

// C06: from the initial RA until stop, multicast RAs are >= 3 s apart whatever
// mixture of periodic ticks and solicitations triggers them, and every trigger
// is satisfied by a multicast RA no later than 3 s after it.
//
// The real Advertiser (min=max=4 s) runs under the virtual clock; a driver
// thread injects solicitations from :: (multicast triggers) and from fe80::5
// (unicast) at the scripted instants, then terminates.

var c06Gaps = []time.Duration{0, 100 * time.Millisecond, time.Second, 2900 * time.Millisecond, 3*time.Second - 1, 3 * time.Second, 3100 * time.Millisecond, 6 * time.Second}

type c06Event struct {
	Multicast bool          `json:"multicast_trigger"`
	Gap       time.Duration `json:"gap"`
}

type c06Case struct {
	Events  []c06Event `json:"events"`
	Choices []int      `json:"choices,omitempty"`
}

const c06Interval = 4 * time.Second

func c06Scenario(c c06Case, keep **advWorld) *vsched.Scenario {
	return &vsched.Scenario{
		Name:    "c06",
		Horizon: 10 * time.Minute,
		Setup: func(x *vsched.Exec) {
			a := newAdvWorld(staticCfg("eth0", c06Interval, c06Interval), true, false)
			*keep = a
			x.Spawn("advertiser", a.run)
			x.Spawn("driver", func() {
				defer a.done()
				var at time.Duration
				for _, e := range c.Events {
					vsched.Sleep(e.Gap)
					at += e.Gap
					if e.Multicast {
						a.inject(rsFrom("::", false))
					} else {
						a.inject(rsFrom("fe80::5", true))
					}
				}
				vsched.Sleep(7 * time.Second)
				a.term.set(os.Interrupt)
				vsched.Obs("stop", "")
				a.cancel()
				vsched.Sleep(5 * time.Second)
				x.Finish()
			})
		},
	}
}

func c06Check(c c06Case, x *vsched.Exec, a *advWorld) (out [][2]string) {
	bad := func(sig, format string, args ...any) {
		out = append(out, [2]string{sig, fmt.Sprintf(format, args...)})
	}
	if x.Failure != "" {
		bad("C06:"+x.FailKind, "%s", x.Failure)
		return out
	}
	var stop time.Duration = -1
	for _, e := range x.Log {
		if e.Kind == "stop" {
			stop = e.T
		}
	}
	if stop < 0 {
		bad("C06:harness", "driver never stopped the advertiser")
		return out
	}
	// Multicast transmissions before the stop (the single final RA is exempt).
	var mc []time.Duration
	for _, w := range a.Writes() {
		if isAllNodes(w.Dst) && w.T <= stop && !(w.RA != nil && w.RA.RouterLifetime == 0 && w.T == stop) {
			mc = append(mc, w.T)
		}
	}
	if len(mc) == 0 || mc[0] != 0 {
		bad("C06:no-initial-ra", "multicast RAs at %v", mc)
		return out
	}
	for i := 1; i < len(mc); i++ {
		if d := mc[i] - mc[i-1]; d < 3*time.Second {
			bad("C06:spacing", "multicast RAs at %s and %s are %s apart (< 3s); all multicast RAs: %v", mc[i-1], mc[i], d, mc)
			break
		}
	}
	// Triggers: periodic ticks of the real loop (every 4 s from the start) and solicitations from ::.
	type trig struct {
		t    time.Duration
		kind string
	}
	var trigs []trig
	for t := time.Duration(0); t+3*time.Second < stop; t += c06Interval {
		trigs = append(trigs, trig{t, "periodic"})
	}
	var at time.Duration
	for _, e := range c.Events {
		at += e.Gap
		if e.Multicast {
			trigs = append(trigs, trig{at, "solicitation-from-::"})
		}
	}
	for _, tr := range trigs {
		if tr.t+3*time.Second >= stop {
			continue
		}
		ok := false
		for _, m := range mc {
			if m >= tr.t && m <= tr.t+3*time.Second {
				ok = true
			}
		}
		if !ok {
			bad("C06:trigger-unserved:"+tr.kind, "%s trigger at %s has no multicast RA within [%s, %s]; multicast RAs: %v", tr.kind, tr.t, tr.t, tr.t+3*time.Second, mc)
			break
		}
	}
	// Unicast solicitations are answered (C07 has the precise bound).
	nu := 0
	for _, e := range c.Events {
		if !e.Multicast {
			nu++
		}
	}
	gotU := 0
	for _, w := range a.Writes() {
		if !isAllNodes(w.Dst) {
			gotU++
		}
	}
	if gotU != nu {
		bad("C06:unicast-count", "%d unicast solicitations, %d unicast RAs", nu, gotU)
	}
	return out
}

func c06Run(t *testing.T, c c06Case) (*vsched.Exec, *advWorld, [][2]string) {
	var a *advWorld
	x := vsched.RunOnce(t, c06Scenario(c, &a), c.Choices)
	return x, a, c06Check(c, x, a)
}

func (c c06Case) String() string {
	var s []string
	for _, e := range c.Events {
		k := "U"
		if e.Multicast {
			k = "M"
		}
		s = append(s, fmt.Sprintf("%s+%s", k, e.Gap))
	}
	return strings.Join(s, " ")
}

func TestVerifC06(t *testing.T) {
	r := ev.Begin("C06", "histories")
	defer r.End(t)
	r.Rule = "histories = all sequences of <=K events, event = (solicitation from :: | unicast solicitation) x gap to the previous event in {0, 100ms, 1s, 2.9s, 3s-1ns, 3s, 3.1s, 6s}, injected into the real Advertiser (min=max=4s, so periodic ticks at 0,4,8,... interleave) under the virtual clock in the canonical schedule; oracle on virtual WriteTo timestamps to ff02::1: consecutive >= 3s apart, every trigger (tick or :: solicitation) served within 3s, unicast answers conserved; states = histories executed, transitions = scheduler steps; non-trivial = history has >=1 event; distinct = distinct history"
	r.Assumptions = []string{"canonical schedule per history (goroutine interleavings are C07/C08's subject)", "random delay draws at their default (0) answer"}
	if r.Replay != nil {
		var c c06Case
		if err := json.Unmarshal(r.Replay, &c); err != nil {
			t.Fatalf("bad replay: %v", err)
		}
		x, _, vs := c06Run(t, c)
		r.Case(c.String(), true)
		r.Sample(map[string]any{"history": c.String(), "log": strings.Split(x.LogString(), "\n")})
		fmt.Printf("history %s\n%s", c, x.LogString())
		for _, v := range vs {
			r.Violation(v[0], v[1], c)
		}
		return
	}
	K := 3
	if r.Thorough() {
		K = 4
	}
	if s := os.Getenv("VERIF_DEPTH"); s != "" {
		K, _ = strconv.Atoi(s)
	}
	// Determinism of the machinery: one history twice.
	{
		c := c06Case{Events: []c06Event{{true, 2900 * time.Millisecond}, {false, 100 * time.Millisecond}, {true, time.Second}}}
		x1, _, _ := c06Run(t, c)
		x2, _, _ := c06Run(t, c)
		if x1.Outcome() != x2.Outcome() {
			r.Violation("MACHINERY:nondeterminism", "same history, different observations:\n"+x1.LogString()+"\nvs\n"+x2.LogString(), nil)
			return
		}
	}
	n := len(c06Gaps) * 2
	idx := 0
	enum.Sequences(n, K, func(seq []int) bool {
		idx++
		if !r.Mine(idx) {
			return true
		}
		if r.OverBudget() {
			r.Capped("wall-clock budget reached before all histories were run")
			return false
		}
		var c c06Case
		for _, s := range seq {
			c.Events = append(c.Events, c06Event{Multicast: s%2 == 0, Gap: c06Gaps[s/2]})
		}
		x, _, vs := c06Run(t, c)
		r.Case(c.String(), len(seq) > 0)
		r.Count("states", 1)
		r.Count("transitions", int64(x.Steps))
		r.Count("traces_validated_against_impl", 1)
		r.Outcome(fmt.Sprint(len(vs) == 0))
		r.Sample(map[string]any{"history": c.String(), "steps": x.Steps})
		for _, v := range vs {
			r.Violation(v[0], "history "+c.String()+": "+v[1], c)
		}
		return true
	})
	r.Max("max_depth", int64(K))
}
