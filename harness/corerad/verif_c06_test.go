//go:build verif

package corerad

import (
	"encoding/json"
	"fmt"
	"net"
	"net/netip"
	"os"
	"strconv"
	"strings"
	"syscall"
	"testing"
	"time"

	"github.com/mdlayher/corerad/internal/netstate"
	"github.com/mdlayher/corerad/internal/plugin"
	"github.com/mdlayher/corerad/verifrt/enum"
	"github.com/mdlayher/corerad/verifrt/ev"
	"github.com/mdlayher/corerad/verifrt/vsched"
)

// C06: from the initial RA until stop, multicast RAs are >= 3 s apart whatever
// mixture of periodic ticks and solicitations triggers them, and every trigger
// is satisfied by a multicast RA no later than 3 s after it.
//
// The real Advertiser (min=max=4 s) runs under the virtual clock; a driver
// thread injects solicitations from :: (multicast triggers) and from fe80::5
// (unicast) at the scripted instants, then terminates.

var c06Gaps = []time.Duration{0, 100 * time.Millisecond, time.Second, 2900 * time.Millisecond, 3*time.Second - 1, 3 * time.Second, 3100 * time.Millisecond, 6 * time.Second}

type c06Event struct {
	Multicast bool `json:"multicast_trigger"`
	Reinit    bool `json:"link_change_reinit,omitempty"`
	WriteErr  bool `json:"next_multicast_write_fails,omitempty"`
	FwdFlip   bool `json:"forwarding_flips,omitempty"`
	// WatchClose: the link-state watcher halts (its subscription channel is closed).
	WatchClose bool `json:"watcher_halts,omitempty"`
	// UFail: a unicast solicitation arrives whose answer cannot be delivered: the next
	// unicast transmission fails with this errno.
	UFail string        `json:"unicast_answer_fails_with,omitempty"`
	Gap   time.Duration `json:"gap"`
}

type c06Case struct {
	Interval    time.Duration `json:"interval,omitempty"` // min=max interval (default 4s)
	UnicastOnly bool          `json:"unicast_only,omitempty"`
	// Verbose: the interface logs verbosely (what is sent and when does not depend on it).
	Verbose bool          `json:"verbose,omitempty"`
	Events  []c06Event    `json:"events"`
	Choices []int         `json:"choices,omitempty"`
	Tail    time.Duration `json:"tail,omitempty"` // quiet time before the stop (default 8s)
	// StaticOnly (C16 wire): the interface has no wildcard stanza at all.
	StaticOnly bool `json:"no_wildcard_stanza,omitempty"`
	// WriteTime: every transmission stays in flight for this long.
	WriteTime time.Duration `json:"write_time,omitempty"`
	// plugins, when set, returns the option plugins of the interface (called inside
	// the bubble, so that epochs are on the virtual clock). Not part of a replay file:
	// the test that sets it sets it again when replaying.
	plugins func() []plugin.Plugin
}

const c06Interval = 4 * time.Second

var c06Errnos = map[string]syscall.Errno{"EHOSTUNREACH": syscall.EHOSTUNREACH, "ENETUNREACH": syscall.ENETUNREACH,
	"EADDRNOTAVAIL": syscall.EADDRNOTAVAIL, "EINVAL": syscall.EINVAL, "ENOBUFS": syscall.ENOBUFS}
var c06ErrnoNames = []string{"EHOSTUNREACH", "ENETUNREACH", "EADDRNOTAVAIL", "EINVAL", "ENOBUFS"}

func c06Scenario(c c06Case, keep **advWorld) *vsched.Scenario {
	return &vsched.Scenario{
		Name:    "c06",
		Horizon: 10 * time.Minute,
		Setup: func(x *vsched.Exec) {
			iv := c06Interval
			if c.Interval != 0 {
				iv = c.Interval
			}
			cfg := staticCfg("eth0", iv, iv)
			cfg.UnicastOnly = c.UnicastOnly
			cfg.Verbose = c.Verbose
			if c.plugins != nil {
				cfg.Plugins = c.plugins()
			}
			a := newAdvWorld(cfg, true, true)
			a.writeTime = c.WriteTime
			failNext := false
			failU := ""
			nwrites := map[int]int{}
			a.writeFault = func(fc *fconn, dst netip.Addr) error {
				nwrites[fc.id]++
				if failU != "" && !dst.IsMulticast() {
					en := c06Errnos[failU]
					failU = ""
					vsched.Obs("write-fault", "unicast %s", en)
					return &net.OpError{Op: "write", Net: "ip6:ipv6-icmp", Err: os.NewSyscallError("sendmsg", en)}
				}
				// Only a scheduled multicast RA fails: how a failing *initial* RA of a
				// connection is classified is not fixed by the statements.
				if failNext && dst.IsMulticast() && nwrites[fc.id] > 1 {
					failNext = false
					vsched.Obs("write-fault", "ENOBUFS")
					return os.NewSyscallError("sendmsg", syscall.ENOBUFS)
				}
				return nil
			}
			*keep = a
			x.Spawn("advertiser", a.run)
			x.Spawn("driver", func() {
				defer a.done()
				var at time.Duration
				fwd := true
				watchClosed := false
				for i, e := range c.Events {
					if i == 0 {
						if e.Gap > time.Millisecond {
							vsched.Sleep(e.Gap - time.Millisecond)
							vsched.Mark()
							vsched.Sleep(time.Millisecond)
						} else {
							vsched.Mark()
							vsched.Sleep(e.Gap)
						}
					} else {
						vsched.Sleep(e.Gap)
					}
					at += e.Gap
					switch {
					case e.UFail != "":
						failU = e.UFail
						a.inject(rsFrom("fe80::5", true))
					case e.WatchClose:
						if !watchClosed {
							watchClosed = true
							vsched.Obs("watcher-halts", "")
							vsched.Close("harness:watcher-halts", a.watchC)
						}
					case e.Reinit && watchClosed:
						// no link-state events once the watcher has halted
					case e.FwdFlip:
						fwd = !fwd
						a.st.setFwd("eth0", fwd)
					case e.WriteErr:
						failNext = true // the next scheduled multicast transmission fails transiently
					case e.Reinit:
						vsched.Obs("link-change", "")
						vsched.Send("harness:link-change", a.watchC, netstate.LinkDown)
					case e.Multicast:
						a.inject(rsFrom("::", false))
					default:
						a.inject(rsFrom("fe80::5", true))
					}
				}
				tail := 8 * time.Second
				if c.Tail != 0 {
					tail = c.Tail
				}
				vsched.Sleep(tail)
				a.term.set(os.Interrupt)
				vsched.Obs("stop", "")
				a.cancel()
				vsched.Sleep(5 * time.Second)
				x.Finish()
			})
		},
	}
}

func c06Check(c c06Case, x *vsched.Exec, a *advWorld) (out [][2]string) {
	bad := func(sig, format string, args ...any) {
		out = append(out, [2]string{sig, fmt.Sprintf(format, args...)})
	}
	if x.Failure != "" {
		bad("C06:"+x.FailKind, "%s", x.Failure)
		return out
	}
	var stop time.Duration = -1
	for _, e := range x.Log {
		if e.Kind == "stop" {
			stop = e.T
		}
	}
	if stop < 0 {
		bad("C06:harness", "driver never stopped the advertiser")
		return out
	}
	// Generations: one per connection (initial dial and every re-initialisation).
	type gen struct {
		open, end time.Duration
		mc        []time.Duration
	}
	var gens []*gen
	for _, e := range x.Log {
		if e.Kind == "conn-open" {
			if len(gens) > 0 {
				gens[len(gens)-1].end = e.T
			}
			gens = append(gens, &gen{open: e.T, end: stop})
		}
	}
	if len(gens) == 0 {
		bad("C06:harness", "no connection was opened")
		return out
	}
	// Multicast transmissions before the stop (the single final RA is exempt), per generation.
	for _, w := range a.Writes() {
		if w.Err == nil && isAllNodes(w.Dst) && w.T <= stop && !(w.RA != nil && w.RA.RouterLifetime == 0 && w.T == stop) && w.Conn < len(gens) {
			gens[w.Conn].mc = append(gens[w.Conn].mc, w.T)
		}
	}
	var mc []time.Duration
	for gi, g := range gens {
		mc = append(mc, g.mc...)
		// (An RA at the very instant a connection opens is not something C06 states; a
		// connection on which nothing is ever sent fails the trigger check below.)
		for i := 1; i < len(g.mc); i++ {
			if d := g.mc[i] - g.mc[i-1]; d < 3*time.Second {
				sig := "C06:spacing"
				if gi > 0 {
					sig = "C06:spacing-after-reinit"
				}
				bad(sig, "generation %d (opened at %s): multicast RAs at %s and %s are %s apart (< 3s); all: %v", gi, g.open, g.mc[i-1], g.mc[i], d, g.mc)
				break
			}
		}
	}
	// Triggers: periodic ticks of each generation's loop (every 4 s from its start) and solicitations from ::.
	type trig struct {
		t    time.Duration
		kind string
	}
	var trigs []trig
	for _, g := range gens {
		iv := c06Interval
		if c.Interval != 0 {
			iv = c.Interval
		}
		for t := g.open; t+3*time.Second < g.end && !c.UnicastOnly; t += iv {
			trigs = append(trigs, trig{t, "periodic"})
		}
	}
	var at time.Duration
	for _, e := range c.Events {
		at += e.Gap
		if e.Multicast && !e.Reinit && !e.WriteErr && !e.FwdFlip && !e.WatchClose && e.UFail == "" && !c.UnicastOnly {
			trigs = append(trigs, trig{at, "solicitation-from-::"})
		}
	}
	for _, tr := range trigs {
		// The generation serving this trigger must last 3 more seconds for the bound to apply.
		var g *gen
		for _, h := range gens {
			if tr.t >= h.open && tr.t < h.end {
				g = h
			}
		}
		if g == nil || tr.t+3*time.Second >= g.end {
			continue
		}
		ok := false
		for _, m := range g.mc {
			if m >= tr.t && m <= tr.t+3*time.Second {
				ok = true
			}
		}
		if !ok {
			bad("C06:trigger-unserved:"+tr.kind, "%s trigger at %s has no multicast RA within [%s, %s]; multicast RAs: %v", tr.kind, tr.t, tr.t, tr.t+3*time.Second, mc)
			break
		}
	}
	// Unicast solicitations are answered (C07 has the precise bound).
	nu := 0
	for _, e := range c.Events {
		if !e.Multicast && !e.Reinit && !e.WriteErr && !e.FwdFlip && !e.WatchClose && e.UFail == "" {
			nu++
		}
	}
	gotU := 0
	for _, w := range a.Writes() {
		if !isAllNodes(w.Dst) {
			gotU++
		}
	}
	if gotU != nu && len(gens) == 1 {
		bad("C06:unicast-count", "%d unicast solicitations, %d unicast RAs", nu, gotU)
	}
	return out
}

func c06Run(t *testing.T, c c06Case) (*vsched.Exec, *advWorld, [][2]string) {
	var a *advWorld
	x := vsched.RunOnce(t, c06Scenario(c, &a), c.Choices)
	return x, a, c06Check(c, x, a)
}

func (c c06Case) String() string {
	var s []string
	for _, e := range c.Events {
		k := "U"
		if e.Multicast {
			k = "M"
		}
		if e.Reinit {
			k = "R"
		}
		if e.WriteErr {
			k = "W"
		}
		if e.FwdFlip {
			k = "F"
		}
		if e.UFail != "" {
			k = "U!" + e.UFail
		}
		if e.WatchClose {
			k = "X"
		}
		s = append(s, fmt.Sprintf("%s+%s", k, e.Gap))
	}
	if c.UnicastOnly {
		s = append([]string{"unicast-only"}, s...)
	}
	if c.StaticOnly {
		s = append([]string{"no-wildcard"}, s...)
	}
	if c.Verbose {
		s = append([]string{"verbose"}, s...)
	}
	if c.WriteTime > 0 {
		s = append([]string{"write-time=" + c.WriteTime.String()}, s...)
	}
	if c.Interval != 0 {
		return "iv=" + c.Interval.String() + " " + strings.Join(s, " ")
	}
	return strings.Join(s, " ")
}

func TestVerifC06(t *testing.T) {
	r := ev.Begin("C06", "histories")
	defer r.End(t)
	r.Rule = "histories = all sequences of <=K events, event = (solicitation from :: | unicast solicitation) x gap to the previous event in {0, 100ms, 1s, 2.9s, 3s-1ns, 3s, 3.1s, 6s}, or a link-state change (tear-down and re-initialisation) or a transient failure (ENOBUFS) of the next scheduled multicast transmission, each x gap {100ms, 1s, 3.1s, 6s}, injected into the real Advertiser with min=max=4s (periodic ticks at 0,4,8,... interleave) and min=max=60s (long quiet periods; quick: histories <=2), and min=max=4s with verbose logging (quick: histories <=2), plus all sequences of <=3 (thorough 4) events over {solicitation from ::, unicast solicitation} x gap {0.1, 1, 3.1 s} and {unicast solicitation whose answer fails with EHOSTUNREACH, ENETUNREACH, EADDRNOTAVAIL, EINVAL, ENOBUFS} in normal and unicast-only mode, plus bursts of 4, 5, 6 and 9 solicitations (unicast / from :: / alternating; 0, 0.1, 1 s apart; at start and after a solicited multicast RA), under the virtual clock in the canonical schedule; oracle on virtual WriteTo timestamps to ff02::1, per connection generation from its initial RA: consecutive >= 3s apart, every trigger (tick or :: solicitation) served within 3s, unicast answers conserved; states = histories executed, transitions = scheduler steps; non-trivial = history has >=1 event; distinct = distinct history"
	r.Assumptions = []string{"canonical schedule per history (goroutine interleavings are C07/C08's subject)", "random delay draws at their default (0) answer, except for histories of <=2 solicitations (4-point gap grid) and of 3 solicitations (gaps 0.1 s / 2.9 s; with min=max=4s from the start and with min=max=60s from 6 s after the start), which run with every combination of draws {0, middle, maximum}"}
	if r.Replay != nil {
		var c c06Case
		if err := json.Unmarshal(r.Replay, &c); err != nil {
			t.Fatalf("bad replay: %v", err)
		}
		x, _, vs := c06Run(t, c)
		r.Case(c.String(), true)
		r.Sample(map[string]any{"history": c.String(), "log": strings.Split(x.LogString(), "\n")})
		fmt.Printf("history %s\n%s", c, x.LogString())
		for _, v := range vs {
			r.Violation(v[0], v[1], c)
		}
		return
	}
	K := 3
	if r.Thorough() {
		K = 4
	}
	if s := os.Getenv("VERIF_DEPTH"); s != "" {
		K, _ = strconv.Atoi(s)
	}
	// Determinism of the machinery: one history twice.
	{
		c := c06Case{Events: []c06Event{{Multicast: true, Gap: 2900 * time.Millisecond}, {Gap: 100 * time.Millisecond}, {Multicast: true, Gap: time.Second}}}
		x1, _, _ := c06Run(t, c)
		x2, _, _ := c06Run(t, c)
		if x1.Outcome() != x2.Outcome() {
			r.Violation("MACHINERY:nondeterminism", "same history, different observations:\n"+x1.LogString()+"\nvs\n"+x2.LogString(), nil)
			return
		}
	}
	// Alphabet: (M|U) x 8 gaps, plus link-change re-initialisation x 4 gaps.
	reinitGaps := []time.Duration{100 * time.Millisecond, time.Second, 3100 * time.Millisecond, 6 * time.Second}
	n := len(c06Gaps)*2 + 2*len(reinitGaps)
	mkCase := func(seq []int, iv time.Duration) c06Case {
		c := c06Case{Interval: iv}
		for _, s := range seq {
			switch {
			case s >= len(c06Gaps)*2+len(reinitGaps):
				c.Events = append(c.Events, c06Event{WriteErr: true, Gap: reinitGaps[s-len(c06Gaps)*2-len(reinitGaps)]})
			case s >= len(c06Gaps)*2:
				c.Events = append(c.Events, c06Event{Reinit: true, Gap: reinitGaps[s-len(c06Gaps)*2]})
			default:
				c.Events = append(c.Events, c06Event{Multicast: s%2 == 0, Gap: c06Gaps[s/2]})
			}
		}
		return c
	}
	idx := 0
	enum.Sequences(n, K, func(seq []int) bool {
		idx++
		if !r.Mine(idx) {
			return true
		}
		if r.OverBudget() {
			r.Capped("wall-clock budget reached before all histories were run")
			return false
		}
		// Two advertising intervals: 4s (periodic ticks interleave with everything) and
		// 60s (long quiet periods between multicast RAs). Quick tier: the 60s variant
		// for histories of up to 2 events only.
		for _, iv := range []time.Duration{0, 60 * time.Second, -1} {
			if iv != 0 && !r.Thorough() && len(seq) > 2 {
				continue
			}
			verbose := iv < 0 // third variant: the default interval with verbose logging
			if verbose {
				iv = 0
			}
			c := mkCase(seq, iv)
			c.Verbose = verbose
			x, _, vs := c06Run(t, c)
			r.Case(c.String(), len(seq) > 0)
			r.Count("states", 1)
			r.Count("transitions", int64(x.Steps))
			r.Count("traces_validated_against_impl", 1)
			r.Outcome(fmt.Sprint(len(vs) == 0))
			r.Sample(map[string]any{"history": c.String(), "steps": x.Steps})
			for _, v := range vs {
				r.Violation(v[0], "history "+c.String()+": "+v[1], c)
			}
		}
		return true
	})
	r.Max("max_depth", int64(K))

	// Second alphabet: undeliverable unicast answers (5 errnos) among solicitations, in
	// the normal and in the unicast-only mode (where no multicast RA is ever due).
	{
		g2 := []time.Duration{100 * time.Millisecond, time.Second, 3100 * time.Millisecond}
		n2 := 2*len(g2) + len(c06ErrnoNames)
		K2 := 3
		if r.Thorough() {
			K2 = 4
		}
		enum.Sequences(n2, K2, func(seq []int) bool {
			idx++
			if !r.Mine(idx) || len(seq) == 0 {
				return true
			}
			for _, uo := range []bool{false, true} {
				c := c06Case{UnicastOnly: uo}
				for _, s := range seq {
					if s >= 2*len(g2) {
						c.Events = append(c.Events, c06Event{UFail: c06ErrnoNames[s-2*len(g2)], Gap: 100 * time.Millisecond})
					} else {
						c.Events = append(c.Events, c06Event{Multicast: s%2 == 0, Gap: g2[s/2]})
					}
				}
				x, _, vs := c06Run(t, c)
				r.Case(c.String(), true)
				r.Count("states", 1)
				r.Count("transitions", int64(x.Steps))
				r.Count("traces_validated_against_impl", 1)
				for _, v := range vs {
					r.Violation(v[0], "history "+c.String()+": "+v[1], c)
				}
			}
			return !r.OverBudget()
		})
	}

	// Every random delay draw (0, middle, maximum of each range) for all histories of <=2
	// solicitations (the other parts use the default draw 0): a delay added to a
	// transmission moves it relative to the instant the rate limiter recorded.
	{
		g3 := []time.Duration{100 * time.Millisecond, time.Second, 2900 * time.Millisecond, 3100 * time.Millisecond}
		ndraws := int64(0)
		enum.Sequences(2*len(g3), 2, func(seq []int) bool {
			idx++
			if !r.Mine(idx) || len(seq) == 0 {
				return true
			}
			c := c06Case{}
			for _, s := range seq {
				c.Events = append(c.Events, c06Event{Multicast: s%2 == 0, Gap: g3[s/2]})
			}
			var a *advWorld
			sc := c06Scenario(c, &a)
			sc.Check = func(x *vsched.Exec) [][2]string { return c06Check(c, x, a) }
			st := vsched.Explore(t, sc, vsched.Options{Bound: 0, NoEnvCost: true, OnExec: func(x *vsched.Exec, viol [][2]string) {
				ndraws++
				r.Case(c.String()+fmt.Sprint(x.Choices()), true)
				for _, v := range viol {
					cc := c
					cc.Choices = x.Choices()
					r.Violation(v[0], "history "+c.String()+" draws "+fmt.Sprint(x.Choices())+": "+v[1], cc)
				}
			}})
			r.Count("states", st.States)
			r.Count("transitions", st.Transitions)
			r.Count("traces_validated_against_impl", st.Executions)
			return !r.OverBudget()
		})
		// ... and histories of exactly 3 solicitations 0.1 s / 2.9 s apart.
		g4 := []time.Duration{100 * time.Millisecond, 2900 * time.Millisecond}
		enum.Sequences(2*len(g4), 3, func(seq []int) bool {
			idx++
			if !r.Mine(idx) || len(seq) != 3 {
				return true
			}
			c := c06Case{}
			for _, s := range seq {
				c.Events = append(c.Events, c06Event{Multicast: s%2 == 0, Gap: g4[s/2]})
			}
			var a *advWorld
			sc := c06Scenario(c, &a)
			sc.Check = func(x *vsched.Exec) [][2]string { return c06Check(c, x, a) }
			st := vsched.Explore(t, sc, vsched.Options{Bound: 0, NoEnvCost: true, OnExec: func(x *vsched.Exec, viol [][2]string) {
				ndraws++
				r.Case(c.String()+fmt.Sprint(x.Choices()), true)
				for _, v := range viol {
					cc := c
					cc.Choices = x.Choices()
					r.Violation(v[0], "history "+c.String()+" draws "+fmt.Sprint(x.Choices())+": "+v[1], cc)
				}
			}})
			r.Count("states", st.States)
			r.Count("transitions", st.Transitions)
			r.Count("traces_validated_against_impl", st.Executions)
			return !r.OverBudget()
		})
		// ... and, with long quiet periods between the periodic RAs (min=max=60s), histories
		// of 3 solicitations that begin 6 s after the start, when a multicast RA is due at
		// once (the last one is more than 3 s old) and a unicast answer may still be waiting.
		for kinds := 0; kinds < 8; kinds++ {
			for gaps := 0; gaps < 4; gaps++ {
				idx++
				if !r.Mine(idx) {
					continue
				}
				c := c06Case{Interval: 60 * time.Second}
				for i := 0; i < 3; i++ {
					g := 6 * time.Second
					if i > 0 {
						g = g4[(gaps>>(i-1))&1]
					}
					c.Events = append(c.Events, c06Event{Multicast: kinds&(1<<i) != 0, Gap: g})
				}
				var a *advWorld
				sc := c06Scenario(c, &a)
				sc.Check = func(x *vsched.Exec) [][2]string { return c06Check(c, x, a) }
				st := vsched.Explore(t, sc, vsched.Options{Bound: 0, NoEnvCost: true, OnExec: func(x *vsched.Exec, viol [][2]string) {
					ndraws++
					r.Case(c.String()+fmt.Sprint(x.Choices()), true)
					for _, v := range viol {
						cc := c
						cc.Choices = x.Choices()
						r.Violation(v[0], "history "+c.String()+" draws "+fmt.Sprint(x.Choices())+": "+v[1], cc)
					}
				}})
				r.Count("states", st.States)
				r.Count("transitions", st.Transitions)
				r.Count("traces_validated_against_impl", st.Executions)
			}
		}
		r.Count("executions_over_all_random_delay_draws", ndraws)
	}

	// Bursts beyond K: n solicitations (all unicast / all from :: / alternating) within
	// 0, 100 ms or 1 s of each other, right after start and 3.1 s after a solicitation
	// from :: (more requests at once than any "coalesce a burst" heuristic would wait for).
	for _, n := range []int{4, 5, 6, 9} {
		for _, gap := range []time.Duration{0, 100 * time.Millisecond, time.Second} {
			for _, kind := range []string{"U", "M", "UM"} {
				for _, lead := range []bool{false, true} {
					idx++
					if !r.Mine(idx) {
						continue
					}
					c := c06Case{}
					if lead {
						c.Events = append(c.Events, c06Event{Multicast: true, Gap: 3100 * time.Millisecond})
					}
					for i := 0; i < n; i++ {
						g := gap
						if i == 0 {
							g = 100 * time.Millisecond
						}
						c.Events = append(c.Events, c06Event{Multicast: kind == "M" || (kind == "UM" && i%2 == 1), Gap: g})
					}
					x, _, vs := c06Run(t, c)
					r.Case(c.String(), true)
					r.Count("states", 1)
					r.Count("transitions", int64(x.Steps))
					r.Count("traces_validated_against_impl", 1)
					for _, v := range vs {
						r.Violation(v[0], "history "+c.String()+": "+v[1], c)
					}
				}
			}
		}
	}

	// Thorough tier: for every history of up to 2 events also every goroutine schedule
	// with one deviation from the canonical one (orders of a tick, a solicitation and
	// a worker falling on the same virtual instant).
	if r.Thorough() && os.Getenv("VERIF_DEPTH") == "" {
		idx = 0
		nsched := int64(0)
		enum.Sequences(n, 2, func(seq []int) bool {
			idx++
			if !r.Mine(idx) || len(seq) == 0 {
				return true
			}
			c := mkCase(seq, 0)
			var a *advWorld
			sc := c06Scenario(c, &a)
			sc.Check = func(x *vsched.Exec) [][2]string { return c06Check(c, x, a) }
			st := vsched.Explore(t, sc, vsched.Options{Bound: 1, OnExec: func(x *vsched.Exec, viol [][2]string) {
				nsched++
				r.Case(c.String()+fmt.Sprint(x.Choices()), true)
				for _, v := range viol {
					cc := c
					cc.Choices = x.Choices()
					r.Violation(v[0], "history "+c.String()+" schedule "+fmt.Sprint(x.Choices())+": "+v[1], cc)
				}
			}})
			r.Count("states", st.States)
			r.Count("transitions", st.Transitions)
			r.Count("traces_validated_against_impl", st.Executions)
			return !r.OverBudget()
		})
		r.Count("schedules_explored_for_short_histories", nsched)
	}
}
