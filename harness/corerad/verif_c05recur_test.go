//go:build verif && vsched

package corerad

import (
	"encoding/json"
	"fmt"
	"strings"
	"testing"
	"time"

	"github.com/mdlayher/corerad/verifrt/enum"
	"github.com/mdlayher/corerad/verifrt/ev"
)

// C05 recurrence part: "keeps requesting unsolicited multicast RAs until stopped"
// over histories. The whole real Advertiser (Run, Dialer, listener, scheduler,
// multicast loop) runs under the virtual clock; link changes (tear-down and
// re-initialisation), transient transmission failures and solicitations arrive in
// every order; after the last event nothing happens for five intervals and the
// unsolicited multicast RAs must still recur on the wire of the last connection.

func c05RecurCheck(c c06Case, a *advWorld, stop time.Duration, opens []time.Duration) (out [][2]string) {
	bad := func(sig, format string, args ...any) {
		out = append(out, [2]string{sig, fmt.Sprintf(format, args...)})
	}
	iv := c.Interval
	if ret, err, at := a.returned(); !ret {
		bad("C05:recur-not-stopped", "Run still running 5s after the stop")
	} else if at < stop {
		bad("C05:recur-run-ended", "Run returned (%v) at %s although nobody stopped it before %s", err, at, stop)
	}
	if len(opens) == 0 {
		bad("C05:harness", "no connection")
		return
	}
	last := len(opens) - 1
	var mc []time.Duration
	for _, w := range a.Writes() {
		if w.Err == nil && isAllNodes(w.Dst) && w.Conn == last && w.T < stop {
			mc = append(mc, w.T)
		}
	}
	// From the opening of the last connection until the stop: consecutive multicast
	// RAs at most max + MIN_DELAY_BETWEEN_RAS apart (a wait is at most max; rate
	// limiting may defer one transmission by at most 3s), and the last one no older
	// than that at the stop.
	lim := iv + 3*time.Second
	prev := opens[last]
	for k, t := range append(mc, stop) {
		// The first three waits on a (re-)initialised interface are capped at 16 s
		// (it has just become an advertising interface again).
		if k >= 1 && k <= 3 && iv > 16*time.Second && k < len(mc) && t-prev > 19*time.Second {
			bad("C05:recur-initial-cap", "connection %d (opened %s): wait %d between multicast RAs was %s, want <= 16s (+3s rate limit) for the first three; all: %v", last, opens[last], k, t-prev, mc)
			break
		}
		if t-prev > lim {
			bad("C05:recur-stalled", "connection %d (opened %s): no multicast RA between %s and %s (> max+3s = %s); all: %v, stop at %s", last, opens[last], prev, t, lim, mc, stop)
			break
		}
		prev = t
	}
	// Upper bound: a multicast RA is sent only for the initial advertisement, for a
	// request of the unsolicited loop (at the opening and then after each wait: min(iv,16s)
	// for the first three, iv afterwards, min=max=iv here) or for a solicitation from ::.
	nreq := 0
	for t, k := opens[last], 0; t <= stop; k++ {
		nreq++
		w := iv
		if k < 3 && w > 16*time.Second {
			w = 16 * time.Second
		}
		t += w
	}
	nsol := 0
	var at time.Duration
	for _, e := range c.Events {
		at += e.Gap
		if e.Multicast && !e.Reinit && !e.WriteErr && !e.FwdFlip && !e.WatchClose && e.UFail == "" && at >= opens[last]-time.Millisecond {
			nsol++
		}
	}
	if len(mc) > 1+nreq+nsol {
		bad("C05:recur-too-many", "connection %d (opened %s, stop %s): %d multicast RAs, but only the initial one, %d unsolicited requests (waits within [min,max] = %s) and %d solicitations from :: can have asked for one; all: %v", last, opens[last], stop, len(mc), nreq, iv, nsol, mc)
	}
	if n := int((stop - opens[last]) / lim); len(mc) < n {
		bad("C05:recur-stalled", "connection %d: %d multicast RAs in %s, expected at least %d", last, len(mc), stop-opens[last], n)
	}
	return out
}

func c05RecurRun(t *testing.T, c c06Case) (steps int, log string, vs [][2]string) {
	x, a, _ := c06Run(t, c)
	if x.Failure != "" {
		return x.Steps, x.LogString(), [][2]string{{"C05:recur-" + x.FailKind, x.Failure}}
	}
	var stop time.Duration = -1
	var opens []time.Duration
	for _, e := range x.Log {
		switch e.Kind {
		case "stop":
			stop = e.T
		case "conn-open":
			opens = append(opens, e.T)
		}
	}
	if stop < 0 {
		return x.Steps, x.LogString(), [][2]string{{"C05:harness", "driver never stopped the advertiser"}}
	}
	return x.Steps, x.LogString(), c05RecurCheck(c, a, stop, opens)
}

func TestVerifC05Recur(t *testing.T) {
	r := ev.Begin("C05", "recur")
	defer r.End(t)
	r.Rule = "histories = all sequences of <=K events over {link change (tear-down + re-initialisation), transient failure of the next scheduled multicast transmission, solicitation from ::, unicast solicitation, the link-state watcher halts (its channel is closed; later link changes cannot arrive)} x gap {0, 100ms, 3.1s, 6s}, injected into the real Advertiser (min=max in {4s, 9s, 30s}; 30s: histories <=2 in the quick tier) under the virtual clock, followed by five quiet intervals; oracle: Run is still running at the stop and, on the last connection, consecutive multicast RAs are never more than max+3s apart up to the stop, the first three waits on a re-initialised interface <=16s, and never more multicast RAs than the initial one + the unsolicited requests that fit (waits >= min) + the solicitations from ::; states = histories executed; non-trivial = history has >=1 event; distinct = distinct history"
	r.Assumptions = []string{"canonical goroutine schedule per history", "min=max so that the wait is not a random variable"}
	if r.Replay != nil {
		var c c06Case
		if err := json.Unmarshal(r.Replay, &c); err != nil {
			t.Fatalf("bad replay: %v", err)
		}
		_, log, vs := c05RecurRun(t, c)
		r.Case(c.String(), true)
		r.Sample(map[string]any{"history": c.String(), "log": strings.Split(log, "\n")})
		fmt.Printf("history %s\n%s", c, log)
		for _, v := range vs {
			r.Violation(v[0], v[1], c)
		}
		return
	}
	K := 3
	if r.Thorough() {
		K = 4
	}
	gaps := []time.Duration{0, 100 * time.Millisecond, 3100 * time.Millisecond, 6 * time.Second}
	n := 5 * len(gaps)
	idx := 0
	enum.Sequences(n, K, func(seq []int) bool {
		idx++
		if !r.Mine(idx) {
			return true
		}
		if r.OverBudget() {
			r.Capped("wall-clock budget reached before all histories were run")
			return false
		}
		for _, iv := range []time.Duration{4 * time.Second, 9 * time.Second, 30 * time.Second} {
			if iv > 9*time.Second && len(seq) > 2 && !r.Thorough() {
				continue
			}
			c := c06Case{Interval: iv, Tail: 5 * iv}
			for _, s := range seq {
				e := c06Event{Gap: gaps[s%len(gaps)]}
				switch s / len(gaps) {
				case 0:
					e.Reinit = true
				case 1:
					e.WriteErr = true
				case 2:
					e.Multicast = true
				case 4:
					e.WatchClose = true
				}
				c.Events = append(c.Events, e)
			}
			steps, _, vs := c05RecurRun(t, c)
			r.Case(c.String(), len(seq) > 0)
			r.Count("states", 1)
			r.Count("transitions", int64(steps))
			r.Outcome(fmt.Sprint(len(vs) == 0))
			r.Sample(map[string]any{"history": c.String(), "steps": steps})
			for _, v := range vs {
				r.Violation(v[0], "history "+c.String()+": "+v[1], c)
			}
		}
		return true
	})
	r.Max("max_depth", int64(K))
}
