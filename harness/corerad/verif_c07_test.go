//go:build verif

package corerad

import (
	"errors"
	"fmt"
	"net/netip"
	"os"
	"reflect"
	"sort"
	"strings"
	"testing"
	"time"

	"github.com/mdlayher/corerad/internal/config"
	"github.com/mdlayher/corerad/internal/netstate"
	"github.com/mdlayher/corerad/verifrt/ev"
	"github.com/mdlayher/corerad/verifrt/ref"
	"github.com/mdlayher/corerad/verifrt/vrand"
	"github.com/mdlayher/corerad/verifrt/vsched"
	"github.com/mdlayher/metricslite"
	"github.com/mdlayher/ndp"
)

// C07: each valid RS from a specified source is answered exactly once, unicast
// to that source, after a delay in [0, 500ms), with the current RA; an RS from
// :: is answered by an all-nodes RA within 3 s; unicast-only never transmits to
// a multicast destination; the sent / received / error counters equal what
// actually happened.

type c07RS struct {
	Src  string        `json:"src"`
	SLLA bool          `json:"slla"`
	At   time.Duration `json:"at"`
}

type c07Case struct {
	Name        string  `json:"name"`
	UnicastOnly bool    `json:"unicast_only"`
	RS          []c07RS `json:"solicitations"`
	Fault       string  `json:"fault,omitempty"` // "" | unicast-write-fails | unicast-write-fails+cancel
	// Draws: "" = every random delay draw is an explorer choice; "max" / "mid" / "cycle" =
	// all draws at the maximum / middle / cycling through 0, middle, maximum (bursts too
	// large to enumerate the draws of).
	Draws string `json:"draws,omitempty"`
}

func c07Cases() []c07Case {
	ms := time.Millisecond
	pats := []struct {
		name string
		rs   []c07RS
	}{
		{"single", []c07RS{{"fe80::1", true, 3500 * ms}}},
		{"burst-same-source", []c07RS{{"fe80::1", true, 3500 * ms}, {"fe80::1", false, 3500 * ms}}},
		{"burst-mixed", []c07RS{{"fe80::1", true, 3500 * ms}, {"2001:db8::5", false, 3500 * ms}, {"::", false, 3500 * ms}}},
		{"unspecified-then-tick", []c07RS{{"::", false, 3900 * ms}, {"fe80::1", true, 4000 * ms}}},
		{"burst-unspecified", []c07RS{{"::", false, 3500 * ms}, {"::", false, 3500 * ms}}},
		{"at-tick", []c07RS{{"2001:db8::5", true, 4000 * ms}}},
		{"spread", []c07RS{{"fe80::1", true, 3500 * ms}, {"fe80::1", true, 3700 * ms}, {"2001:db8::5", true, 3900 * ms}}},
	}
	var cs []c07Case
	for _, uo := range []bool{false, true} {
		for _, p := range pats {
			n := p.name
			if uo {
				n += "/unicast-only"
			}
			cs = append(cs, c07Case{Name: n, UnicastOnly: uo, RS: p.rs})
		}
	}
	// After a re-initialisation (link change at 1s): solicitations are served on the new connection.
	cs = append(cs, c07Case{Name: "burst-mixed/after-reinit", RS: pats[2].rs, Fault: "reinit"})
	// Failed transmissions: the solicited answer's WriteTo fails, with and without a
	// stop arriving while that write is in flight.
	for _, f := range []string{"unicast-write-fails", "unicast-write-fails+cancel"} {
		cs = append(cs, c07Case{Name: "single/" + f, RS: pats[0].rs, Fault: f})
	}
	// ... while the scheduler is busy with a multicast request (a solicitation from :: at
	// the same instant; the periodic tick at 4 s).
	cs = append(cs, c07Case{Name: "with-unspecified/unicast-write-fails", RS: []c07RS{{"fe80::1", true, 3500 * ms}, {"::", false, 3500 * ms}}, Fault: "unicast-write-fails"},
		c07Case{Name: "at-tick/unicast-write-fails", RS: []c07RS{{"fe80::1", true, 4000 * ms}}, Fault: "unicast-write-fails"})
	return cs
}

var c07Epoch = time.Date(2000, 1, 1, 0, 0, 0, 0, time.UTC)

func c07Config(uo bool) (config.Interface, config.Interface) {
	s := ref.Table{"name": "eth0", "advertise": true, "max_interval": "4s", "mtu": 1500, "managed": true}
	if uo {
		s["unicast_only"] = true
	}
	doc := ref.Doc{Ifaces: []ref.Iface{{Scalars: s, Prefix: []ref.Table{{"prefix": "2001:db8:1::/64"}}, DNSSL: []ref.Table{{"domain_names": []string{"lan.example"}}}}}}
	v, want, why := ref.Parse(doc, c07Epoch)
	if v != ref.Accept {
		panic(why)
	}
	cfg, err := config.Parse(strings.NewReader(doc.TOML()), c07Epoch)
	if err != nil {
		panic(err)
	}
	return cfg.Interfaces[0], want.Interfaces[0]
}

type c07Result struct {
	series map[string]metricslite.Series
	stopAt time.Duration
}

func c07Scenario(c c07Case) *vsched.Scenario {
	var a *advWorld
	var res c07Result
	cfg, want := c07Config(c.UnicastOnly)
	sc := &vsched.Scenario{
		Name:    c.Name,
		Horizon: 5 * time.Minute,
		Setup: func(x *vsched.Exec) {
			res = c07Result{}
			switch c.Draws {
			case "max":
				vrand.SetPolicy(func(int) int { return 2 })
			case "mid":
				vrand.SetPolicy(func(int) int { return 1 })
			case "cycle":
				vrand.SetPolicy(func(i int) int { return i })
			default:
				vrand.SetPolicy(nil)
			}
			a = newAdvWorld(cfg, true, c.Fault == "reinit")
			arm := make(chan struct{})
			if c.Fault == "reinit" {
				x.Spawn("link", func() {
					vsched.Sleep(time.Second)
					vsched.Send("harness:link-change", a.watchC, netstate.LinkDown)
				})
			} else if c.Fault != "" {
				a.latency = true
				fired := false
				a.writeFault = func(_ *fconn, dst netip.Addr) error {
					if dst.IsMulticast() {
						return nil
					}
					if !fired {
						fired = true
						close(arm)
					}
					return errors.New("verif: injected transmit failure")
				}
			}
			if c.Fault == "unicast-write-fails+cancel" {
				x.Spawn("stopper", func() {
					vsched.Recv("harness:armed", arm)
					vsched.Obs("cancel", "")
					a.term.set(os.Interrupt)
					a.cancel()
				})
			}
			x.Spawn("advertiser", a.run)
			x.Spawn("client", func() {
				defer a.done()
				vsched.Sleep(3400 * time.Millisecond)
				vsched.Mark()
				at := 3400 * time.Millisecond
				for _, rs := range c.RS {
					if rs.At > at {
						vsched.Sleep(rs.At - at)
						at = rs.At
					}
					a.inject(rsFrom(rs.Src, rs.SLLA))
				}
				// Quiet: long enough for every response (<=500ms) and every rate-limited multicast RA (<=3s).
				vsched.Sleep(4 * time.Second)
				res.stopAt = a.now()
				if c.Fault != "" && c.Fault != "reinit" {
					// The advertiser has stopped on its own (or was stopped): read the
					// counters once everything is over.
					a.cancel()
					vsched.Sleep(2 * time.Second)
				}
				res.series = a.mem.Series()
				vsched.Obs("script-end", "")
				a.term.set(os.Interrupt)
				a.cancel()
				vsched.Sleep(2 * time.Second)
				x.Finish()
			})
		},
	}
	sc.Check = func(x *vsched.Exec) (out [][2]string) {
		// Known finding (see known_findings.json): github.com/mdlayher/schedgroup's
		// Schedule signals its monitor goroutine with a non-blocking send on an
		// unbuffered channel; if the monitor is between trigger() and its select the
		// signal is dropped and the new task sleeps until the next wake-up. Late or
		// missing answers in an execution where that drop happened carry their own
		// signature, so that any other loss is still reported.
		dropped := false
		for l, n := range x.DefaultTaken {
			if n > 0 && strings.HasPrefix(l, "schedgroup/group.go:Schedule:") {
				dropped = true
			}
		}
		bad := func(sig, format string, args ...any) {
			if dropped && (sig == "C07:solicitation-lost" || sig == "C07:response-delay" || sig == "C07:unspecified-unserved") {
				sig += ":schedgroup-add-signal-dropped"
			}
			out = append(out, [2]string{sig, fmt.Sprintf(format, args...)})
		}
		if x.Failure != "" {
			bad("C07:"+x.FailKind, "%s", x.Failure)
			return out
		}
		if res.series == nil {
			bad("C07:harness", "script did not complete")
			return out
		}
		if ret, err, _ := a.returned(); !ret || (err != nil && (c.Fault == "" || c.Fault == "reinit")) {
			bad("C07:run", "Run returned=%t err=%v", ret, err)
		} else if c.Fault == "unicast-write-fails" && err == nil {
			bad("C07:transmit-error-not-reported", "a failed transmission did not end the task with an error")
		}
		// When was each solicitation read?
		type readEv struct {
			src string
			t   time.Duration
		}
		var reads []readEv
		for _, e := range x.Log {
			if e.Kind == "read" && strings.Contains(e.Detail, "router solicitation") {
				src := e.Detail[strings.Index(e.Detail, "from=")+5:]
				src = strings.TrimSuffix(src, "%eth0")
				reads = append(reads, readEv{src, e.T})
			}
		}
		if len(reads) != len(c.RS) && (c.Fault == "" || c.Fault == "reinit" || len(c.RS) == 1) {
			// (in a case with an injected transmit failure the session may end before a
			// later solicitation is read)
			bad("C07:not-all-read", "%d of %d solicitations were read by the listener", len(reads), len(c.RS))
		}
		expFor := func(conn int) *ndp.RouterAdvertisement {
			ra, _ := ref.RA(want, &ref.State{Name: "eth0", MAC: a.macOf(conn).String(), Forwarding: true}, c07Epoch)
			return ra
		}
		var uni, multi []wrec
		for _, w := range a.Writes() {
			if c.UnicastOnly && w.Dst.IsMulticast() {
				bad("C07:multicast-in-unicast-only", "unicast-only interface transmitted to %s at %s (router lifetime %v)", w.Dst, w.T, w.RA.RouterLifetime)
			}
			if isAllNodes(w.Dst) && w.RA != nil && w.RA.RouterLifetime == 0 {
				continue // the final RA (the configured lifetime is non-zero and forwarding is on)
			}
			if isAllNodes(w.Dst) {
				multi = append(multi, w)
			} else if w.Dst.IsMulticast() {
				bad("C07:odd-destination", "RA sent to %s", w.Dst)
			} else {
				uni = append(uni, w)
			}
			if exp := expFor(w.Conn); w.Err == nil && !reflect.DeepEqual(w.RA, exp) {
				bad("C07:payload", "RA to %s at %s differs from the configured RA: %+v want %+v", w.Dst, w.T, w.RA, exp)
			}
		}
		// Conservation and timing of unicast answers (per source, FIFO).
		wantDst := map[string][]time.Duration{}
		nUnspec := 0
		for _, r := range reads {
			if r.src == "::" {
				nUnspec++
				continue
			}
			wantDst[r.src] = append(wantDst[r.src], r.t)
		}
		gotDst := map[string][]time.Duration{}
		for _, w := range uni {
			gotDst[w.Dst.String()] = append(gotDst[w.Dst.String()], w.T)
		}
		var keys []string
		for k := range wantDst {
			keys = append(keys, k)
		}
		for k := range gotDst {
			if _, ok := wantDst[k]; !ok {
				keys = append(keys, k)
			}
		}
		sort.Strings(keys)
		for _, k := range keys {
			w, g := wantDst[k], gotDst[k]
			switch {
			case c.Fault != "" && c.Fault != "reinit":
				// the answer's transmission failed by construction
			case len(g) < len(w):
				bad("C07:solicitation-lost", "%d solicitations from %s read at %v, %d unicast RAs to it at %v", len(w), k, w, len(g), g)
			case len(g) > len(w):
				bad("C07:answered-twice", "%d solicitations from %s read at %v, %d unicast RAs to it at %v", len(w), k, w, len(g), g)
			default:
				sort.Slice(g, func(i, j int) bool { return g[i] < g[j] })
				for i := range w {
					// i-th answer must come within [0,500ms) of SOME distinct solicitation; with
					// equal sources FIFO matching on sorted times is exact.
					if d := g[i] - w[i]; d < 0 || d >= 500*time.Millisecond {
						bad("C07:response-delay", "solicitation from %s read at %s answered at %s (delay %s, want [0,500ms))", k, w[i], g[i], d)
					}
				}
			}
		}
		// Solicitations from :: are served by an all-nodes RA within 3s (unless the session
		// was ended by the injected transmit failure meanwhile).
		if !c.UnicastOnly && (c.Fault == "" || c.Fault == "reinit") {
			for _, r := range reads {
				if r.src != "::" {
					continue
				}
				ok := false
				for _, m := range multi {
					if m.T >= r.t && m.T <= r.t+3*time.Second {
						ok = true
					}
				}
				if !ok {
					bad("C07:unspecified-unserved", "solicitation from :: read at %s: no all-nodes RA within 3s (multicast RAs at %v)", r.t, times(multi))
				}
			}
		}
		// Counters.
		okU, okM, failed := 0, 0, 0
		seenConn := map[int]bool{}
		for _, w := range a.Writes() {
			first := !seenConn[w.Conn]
			seenConn[w.Conn] = true
			if (isAllNodes(w.Dst) && w.RA != nil && w.RA.RouterLifetime == 0) || (first && isAllNodes(w.Dst)) {
				continue // the final RA and each connection's initial RA are sent outside the scheduler and not counted
			}
			switch {
			case w.Err != nil:
				failed++
			case isAllNodes(w.Dst):
				okM++
			default:
				okU++
			}
		}
		g := func(name, key string) float64 { v, _ := sample(res.series, name, key); return v }
		if v := g("corerad_advertiser_router_advertisements_total", "interface=eth0,type=unicast"); v != float64(okU) {
			bad("C07:counter-unicast", "router_advertisements_total{unicast} = %v, %d unicast RAs were transmitted", v, okU)
		}
		if v := g("corerad_advertiser_router_advertisements_total", "interface=eth0,type=multicast"); v != float64(okM) {
			bad("C07:counter-multicast", "router_advertisements_total{multicast} = %v, %d scheduled multicast RAs were transmitted (unicast_only=%t)", v, okM, c.UnicastOnly)
		}
		if v := g("corerad_advertiser_messages_received_total", "interface=eth0,message=router solicitation"); v != float64(len(reads)) {
			bad("C07:counter-received", "messages_received_total{router solicitation} = %v, %d were read", v, len(reads))
		}
		if v := g("corerad_advertiser_errors_total", "interface=eth0,error=transmit"); v != float64(failed) {
			bad("C07:counter-errors", "errors_total{transmit} = %v, %d transmissions failed", v, failed)
		}
		if _, ok := res.series["corerad_advertiser_last_multicast_timestamp_seconds"].Samples["interface=eth0"]; ok && c.UnicastOnly {
			bad("C07:last-multicast-gauge", "unicast-only interface reports a last-multicast timestamp")
		}
		return out
	}
	return sc
}

func times(ws []wrec) []time.Duration {
	var t []time.Duration
	for _, w := range ws {
		t = append(t, w.T)
	}
	return t
}

var _ = netip.Addr{}
var _ = ndp.Medium

func TestVerifC07(t *testing.T) {
	r := ev.Begin("C07", "sched")
	defer r.End(t)
	r.Rule = "executions = for 7 solicitation patterns (single; burst from one source; burst from link-local+global+::; :: just before a periodic tick then RS at the tick; burst from ::; RS at the tick instant; three spread over 400ms) x unicast_only {off,on}: every random-delay draw combination over {0, 250ms, 499.999999ms} (environment choices, not charged) x every goroutine schedule within the deviation bound, on the instrumented real Advertiser (config parsed from TOML with prefix/DNSSL/MTU/LLA options); oracle: per source the unicast RAs equal the solicitations read, each within [0,500ms), payload = reference RA, :: served by ff02::1 within 3s, no multicast when unicast-only, the four counters equal the transmissions / reads / failures observed"
	bound := 1
	opts := exploreOpts{Bound: bound, NoEnvCost: true}
	if r.Thorough() {
		opts.Bound = 2
		opts.Budget = 90 * time.Second
	}
	exploreCases(t, r, c07Cases(), func(c c07Case) string { return c.Name }, c07Scenario, opts)
}

// c07BurstCases: more solicitations in one burst than any threshold a "coalesce bursts"
// heuristic would plausibly use: n distinct sources within 100 ms (and within 1 ms).
func c07BurstCases() []c07Case {
	var cs []c07Case
	ms := time.Millisecond
	for _, n := range []int{4, 5, 8} {
		for _, gap := range []time.Duration{0, 20 * ms} {
			for _, uo := range []bool{false, true} {
				c := c07Case{Name: fmt.Sprintf("burst-%d/gap=%s/unicast-only=%t", n, gap, uo), UnicastOnly: uo}
				for i := 0; i < n; i++ {
					c.RS = append(c.RS, c07RS{Src: fmt.Sprintf("fe80::%x", 0x10+i), SLLA: i%2 == 0, At: 3500*ms + time.Duration(i)*gap})
				}
				cs = append(cs, c)
			}
		}
	}
	// More solicitations at once than any queue or pool bound in the transmit path (the
	// request channel holds 16): 17, 20, 40 and 120 sources, with all delays at the maximum,
	// the middle, and cycling (the random delay runs from the solicitation's arrival).
	for _, n := range []int{17, 20, 40, 120} {
		for _, draws := range []string{"max", "mid", "cycle"} {
			for _, gap := range []time.Duration{0, ms} {
				c := c07Case{Name: fmt.Sprintf("burst-%d/gap=%s/draws=%s", n, gap, draws), Draws: draws}
				for i := 0; i < n; i++ {
					c.RS = append(c.RS, c07RS{Src: fmt.Sprintf("fe80::%x", 0x100+i), SLLA: i%2 == 0, At: 3500*ms + time.Duration(i)*gap})
				}
				cs = append(cs, c)
			}
		}
	}
	return cs
}

func TestVerifC07Burst(t *testing.T) {
	defer vrand.SetPolicy(nil)
	r := ev.Begin("C07", "burst")
	defer r.End(t)
	r.Rule = "bursts of 4, 5 and 8 solicitations from distinct sources (all at one instant, or 20 ms apart) x unicast_only {off,on} on the instrumented real Advertiser in the canonical goroutine schedule; for bursts of 4 and 5 every random-delay draw combination over {0, 250ms, 499.999999ms} (3^n), for 8 the default draws; bursts of 17, 20, 40 and 120 sources (at one instant / 1 ms apart) with all draws at the maximum, the middle, and cycling; oracle as in part 'sched' (each source answered exactly once by unicast within [0,500ms), counters exact)"
	for _, c := range c07BurstCases() {
		if len(c.RS) <= 5 {
			exploreCases(t, r, []c07Case{c}, func(c c07Case) string { return c.Name }, c07Scenario, exploreOpts{Bound: 0, NoEnvCost: true, Budget: 60 * time.Second})
			continue
		}
		if !r.MineKey(c.Name) {
			continue
		}
		sc := c07Scenario(c)
		x := vsched.RunOnce(t, sc, nil)
		r.Case(c.Name, true)
		r.Count("states", 1)
		r.Count("transitions", int64(x.Steps))
		for _, v := range sc.Check(x) {
			r.Violation(v[0], "case "+c.Name+": "+v[1], exploreReplay[c07Case]{Case: c})
		}
	}
}
