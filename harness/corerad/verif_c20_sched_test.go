//go:build verif && vsched

package corerad

import (
	"context"
	"errors"
	"fmt"
	"io"
	"log"
	"os"
	"strings"
	"syscall"
	"testing"
	"time"

	"github.com/mdlayher/corerad/verifrt/ev"
	"github.com/mdlayher/corerad/verifrt/sdnotify"
	"github.com/mdlayher/corerad/verifrt/vsched"
)

// C20 part 2 (SCHED): the real Serve (instrumented: errgroup, WaitGroup,
// terminator mutex, channels, recording sdnotify) supervising fake tasks.

type c20Task struct {
	name   string
	behave string // run | slow | fail | early | never-ready
	readyC chan struct{}
	term   func() bool
}

func (t *c20Task) Ready() <-chan struct{} { return t.readyC }
func (t *c20Task) String() string         { return t.name }
func (t *c20Task) Run(ctx context.Context) error {
	vsched.Point("task:enter")
	vsched.Obs("task-enter", "%s", t.name)
	if t.behave != "never-ready" {
		vsched.Close("task:ready", t.readyC)
	}
	switch t.behave {
	case "early":
		vsched.Obs("task-exit", "%s nil", t.name)
		return nil
	case "fail", "fail-ctx":
		vsched.Point("task:working")
		if ctx.Err() == nil {
			vsched.Obs("task-exit", "%s error", t.name)
			if t.behave == "fail-ctx" {
				// A fatal error that happens to wrap context.Canceled (an inner operation of
				// the task had its own context cancelled) while the server's context is live.
				return fmt.Errorf("%s failed: %w", t.name, context.Canceled)
			}
			return errors.New(t.name + " failed")
		}
	}
	vsched.Recv("task:wait-cancel", ctx.Done())
	vsched.Point("task:saw-cancel")
	vsched.Obs("task-saw-cancel", "%s terminate=%t", t.name, t.term())
	if t.behave == "slow" {
		vsched.Point("task:stopping-1")
		vsched.Point("task:stopping-2")
	}
	vsched.Obs("task-exit", "%s nil", t.name)
	return nil
}

type c20Case struct {
	Name  string   `json:"name"`
	Tasks []string `json:"tasks"`
	Sig   string   `json:"signal"` // "" TERM INT HUP
}

func c20Cases() []c20Case {
	var cs []c20Case
	add := func(tasks []string, sig string) {
		cs = append(cs, c20Case{Name: strings.Join(tasks, "+") + "/" + sig, Tasks: tasks, Sig: sig})
	}
	for _, sig := range []string{"TERM", "HUP", "INT", "QUIT", "USR1"} { // "anything but SIGHUP" means terminate
		add([]string{"run", "slow"}, sig)
	}
	add([]string{"fail", "slow"}, "")
	add([]string{"fail", "slow"}, "TERM")
	add([]string{"fail", "fail", "run"}, "")
	add([]string{"fail-ctx", "slow"}, "")
	add([]string{"early", "run"}, "HUP")
	add([]string{"never-ready", "run"}, "TERM")
	add([]string{"run", "early", "slow"}, "TERM")
	return cs
}

func c20Scenario(c c20Case) *vsched.Scenario {
	sc := &vsched.Scenario{
		Name:    c.Name,
		Horizon: time.Minute,
		Setup: func(x *vsched.Exec) {
			s := NewServer(NewContext(log.New(io.Discard, "", 0), nil, nil))
			var tasks []Task
			for i, b := range c.Tasks {
				tasks = append(tasks, &c20Task{name: fmt.Sprintf("t%d-%s", i, b), behave: b, readyC: make(chan struct{}), term: s.t.terminate})
			}
			sigC := make(chan os.Signal, 1)
			x.Spawn("serve", func() {
				vsched.Mark()
				err := s.Serve(sigC, &sdnotify.Notifier{}, tasks)
				vsched.Obs("serve-returned", "%v", err)
				x.Finish()
			})
			if c.Sig != "" {
				x.Spawn("signal", func() {
					sig := map[string]os.Signal{"TERM": syscall.SIGTERM, "INT": os.Interrupt, "HUP": syscall.SIGHUP, "QUIT": syscall.SIGQUIT, "USR1": syscall.SIGUSR1}[c.Sig]
					vsched.Obs("signal-sent", "%s", c.Sig)
					vsched.Send("harness:signal", sigC, sig)
				})
			}
		},
	}
	sc.Check = func(x *vsched.Exec) (out [][2]string) {
		bad := func(sig, format string, a ...any) {
			out = append(out, [2]string{sig, fmt.Sprintf(format, a...)})
		}
		if x.Failure != "" {
			bad("C20:"+x.FailKind, "%s", x.Failure)
			return out
		}
		retIdx, sigIdx := -1, -1
		ret := ""
		enters, exits := map[string]int{}, map[string]int{}
		firstErr := ""
		readyIdx := -1
		nReady := 0
		for i, e := range x.Log {
			switch e.Kind {
			case "serve-returned":
				retIdx, ret = i, e.Detail
			case "signal-sent":
				sigIdx = i
			case "task-enter":
				enters[e.Detail] = i
			case "task-exit":
				f := strings.Fields(e.Detail)
				exits[f[0]] = i
				if f[1] == "error" && firstErr == "" {
					firstErr = f[0]
				}
			case "notify":
				if strings.Contains(e.Detail, "READY=1") {
					readyIdx = i
					nReady++
				}
			case "task-saw-cancel":
				if c.Sig == "" && !strings.HasSuffix(e.Detail, "terminate=false") {
					// No signal was ever received (the cancellation comes from a failing task):
					// nothing was recorded, so nothing says "terminate".
					bad("C20:terminate-flag-without-signal", "no signal was received, %s", e.Detail)
				}
				if c.Sig != "" && firstErr == "" {
					want := c.Sig != "HUP"
					if !strings.HasSuffix(e.Detail, fmt.Sprintf("terminate=%t", want)) {
						bad("C20:terminate-flag", "after %s, %s (want terminate=%t: the flag must be recorded before any task observes the cancellation)", c.Sig, e.Detail, want)
					}
				}
			}
		}
		_ = sigIdx
		if retIdx < 0 {
			bad("C20:serve-did-not-return", "Serve did not return")
			return out
		}
		for i := range c.Tasks {
			name := fmt.Sprintf("t%d-%s", i, c.Tasks[i])
			if _, ok := enters[name]; !ok {
				bad("C20:task-not-run", "task %s was never run", name)
				continue
			}
			if ex, ok := exits[name]; !ok || ex > retIdx {
				bad("C20:returned-before-task-exit", "Serve returned before task %s had returned", name)
			}
		}
		if firstErr != "" {
			// Any task that failed on its own (before observing cancellation) may be
			// the one reported: which of two independent failures errgroup records
			// first is not fixed by the statement.
			ok := false
			for _, e := range x.Log {
				if e.Kind == "task-exit" && strings.HasSuffix(e.Detail, " error") && strings.Contains(ret, strings.Fields(e.Detail)[0]+" failed") {
					ok = true
				}
			}
			if !ok {
				bad("C20:wrong-error", "Serve returned %q, which is not the error of a task that failed (first to fail: %s)", ret, firstErr)
			}
		} else if ret != "<nil>" {
			bad("C20:error-on-clean-shutdown", "Serve returned %q although no task failed", ret)
		}
		// Readiness: READY=1 at most once, only after every task's Ready closed.
		neverReady := false
		for _, b := range c.Tasks {
			if b == "never-ready" {
				neverReady = true
			}
		}
		if nReady > 1 || (neverReady && nReady > 0) {
			bad("C20:ready-announced", "READY=1 announced %d time(s) (a task never became ready: %t)", nReady, neverReady)
		}
		if readyIdx >= 0 {
			for name, en := range enters {
				if en > readyIdx {
					bad("C20:ready-too-early", "READY=1 announced before task %s had even started (its Ready channel was still open)", name)
				}
			}
		}
		return out
	}
	return sc
}

func TestVerifC20Sched(t *testing.T) {
	r := ev.Begin("C20", "sched")
	defer r.End(t)
	r.Rule = "executions = goroutine schedules within the deviation bound of the instrumented real Server.Serve (errgroup, readiness WaitGroup, signal task, terminator, recording sdnotify) supervising 2-3 fake tasks with behaviours {runs until cancelled, slow to stop, fails while working, fails with an error wrapping context.Canceled, returns nil early, never ready} and a signal thread {none, SIGTERM, SIGINT, SIGHUP, SIGQUIT, SIGUSR1} (12 cases); oracle on the ordered log: Serve returns only after every task's Run exited, returns the first failing task's error else nil, every terminate() read after observing a signal's cancellation = (signal != SIGHUP) and false when the cancellation came from a failing task with no signal received, READY=1 at most once and only after every task started and closed Ready, never if a task never becomes ready"
	name := func(c c20Case) string { return c.Name }
	exploreCases(t, r, c20Cases(), name, c20Scenario, exploreOpts{Bound: 2})
	if r.Thorough() && r.Replay == nil {
		// Bound 3 under a per-case wall-clock budget (a cap is reported as exhaustive=false; bound 2 stays complete).
		exploreCases(t, r, c20Cases(), name, c20Scenario, exploreOpts{Bound: 3, Budget: 40 * time.Second})
	}
}
