//go:build verif && !vsched

package corerad

import (
	"encoding/json"
	"fmt"
	"io"
	"log"
	"net/http/httptest"
	"reflect"
	"strings"
	"sync"
	"testing"
	"testing/synctest"
	"time"

	"github.com/mdlayher/corerad/internal/config"
	"github.com/mdlayher/corerad/internal/crhttp"
	"github.com/mdlayher/corerad/verifrt/ev"
	"github.com/mdlayher/metricslite"
	"github.com/mdlayher/ndp"
)

// C04, RA generations that overlap in time: "forall interfaces in a multi-interface
// configuration" the forwarding state consulted is the interface's own, also when the
// state of another interface is being read at that very moment. One daemon (one State
// shared by the Context of two Advertisers, the Metrics and the debug API, as main.go
// wires them); eth0 does not forward, eth1 does. For every ordered pair of RA-generating
// paths, the first one's first forwarding read is held open while the second one runs.

type holdState struct {
	mu      sync.Mutex
	fwd     map[string]bool
	armed   bool
	entered chan string
	release chan struct{}
}

func (s *holdState) IPv6Forwarding(iface string) (bool, error) {
	s.mu.Lock()
	v, hold := s.fwd[iface], s.armed
	s.armed = false
	s.mu.Unlock()
	if hold {
		s.entered <- iface
		<-s.release
	}
	return v, nil
}
func (s *holdState) IPv6Autoconf(string) (bool, error)  { return true, nil }
func (s *holdState) SetIPv6Autoconf(string, bool) error { return nil }

type c04OverlapCase struct {
	First  string `json:"first_path"`  // adv:eth0 adv:eth1 scrape api
	Second string `json:"second_path"` // the same menu
	Swap   bool   `json:"eth0_forwards_eth1_does_not"`
}

var c04Paths = []string{"adv:eth0", "adv:eth1", "scrape", "api"}

func c04OverlapRun(t *testing.T, c c04OverlapCase) (out [][2]string) {
	bad := func(sig, format string, a ...any) {
		out = append(out, [2]string{sig, ev.JSON(c) + ": " + fmt.Sprintf(format, a...)})
	}
	synctest.Test(t, func(t *testing.T) {
		st := &holdState{fwd: map[string]bool{"eth0": c.Swap, "eth1": !c.Swap}, entered: make(chan string, 4), release: make(chan struct{})}
		cfg := config.Config{Interfaces: []config.Interface{staticCfg("eth0", 4*time.Second, 4*time.Second), staticCfg("eth1", 4*time.Second, 4*time.Second)}}
		cfg.Interfaces[0].DefaultLifetime, cfg.Interfaces[1].DefaultLifetime = 1000*time.Second, 2000*time.Second
		want := map[string]time.Duration{"eth0": 0, "eth1": 0}
		for _, i := range cfg.Interfaces {
			if st.fwd[i.Name] {
				want[i.Name] = i.DefaultLifetime
			}
		}
		ll := log.New(io.Discard, "", 0)
		mem := metricslite.NewMemory()
		mm := NewMetrics(mem, "verif", time.Time{}, st, cfg.Interfaces)
		cctx := NewContext(ll, mm, st)
		adv := map[string]*Advertiser{}
		for _, i := range cfg.Interfaces {
			adv[i.Name] = NewAdvertiser(cctx, i, nil, nil, func() bool { return false })
		}
		h := crhttp.NewHandler(ll, st, cfg, nil)
		var rmu sync.Mutex
		run := func(path string) {
			switch {
			case strings.HasPrefix(path, "adv:"):
				name := strings.TrimPrefix(path, "adv:")
				ra, err := c04BuildRA(adv[name])
				rmu.Lock()
				defer rmu.Unlock()
				if err != nil {
					bad("C04:overlap:error", "%s: %v", path, err)
				} else if ra.RouterLifetime != want[name] {
					bad("C04:overlap:router-lifetime", "%s built an RA with router lifetime %s while %s forwarding=%t (another interface's state was being read at that moment); want %s", path, ra.RouterLifetime, name, st.fwd[name], want[name])
				}
			case path == "scrape":
				got := map[string]float64{}
				metrics := map[string]func(float64, ...string){}
				for _, name := range []string{ifiAdvertising, ifiAutoconfiguration, ifiForwarding, ifiMonitoring, advMisconfiguration, advDNSSLLifetime,
					advPrefixAutonomous, advPrefixOnLink, advPrefixValid, advPrefixPreferred, advRDNSSLifetime, advRouteLifetime} {
					name := name
					metrics[name] = func(v float64, labels ...string) {
						rmu.Lock()
						got[name+"{"+strings.Join(labels, ",")+"}"] = v
						rmu.Unlock()
					}
				}
				err := mm.constScrape(metrics)
				rmu.Lock()
				defer rmu.Unlock()
				if err != nil {
					bad("C04:overlap:error", "scrape: %v", err)
					return
				}
				for name, w := range want {
					if got[ifiForwarding+"{"+name+"}"] != b2f(st.fwd[name]) {
						bad("C04:overlap:forwarding-gauge", "scrape: forwarding gauge of %s = %v, state is %t", name, got[ifiForwarding+"{"+name+"}"], st.fwd[name])
					}
					_, mis := got[advMisconfiguration+"{"+name+",interface_not_forwarding}"]
					if mis != (w == 0) {
						bad("C04:overlap:misconfiguration-gauge", "scrape: interface_not_forwarding reported for %s: %t, forwarding=%t", name, mis, st.fwd[name])
					}
				}
			case path == "api":
				rec := httptest.NewRecorder()
				h.ServeHTTP(rec, httptest.NewRequest("GET", "/_/api/interfaces", nil))
				var body struct {
					Interfaces []struct {
						Interface     string `json:"interface"`
						Advertisement *struct {
							Life int `json:"router_lifetime_seconds"`
						} `json:"advertisement"`
					} `json:"interfaces"`
				}
				rmu.Lock()
				defer rmu.Unlock()
				if rec.Code != 200 || json.Unmarshal(rec.Body.Bytes(), &body) != nil || len(body.Interfaces) != 2 {
					bad("C04:overlap:error", "api: status %d body %s", rec.Code, rec.Body.String())
					return
				}
				for _, bi := range body.Interfaces {
					if bi.Advertisement == nil || time.Duration(bi.Advertisement.Life)*time.Second != want[bi.Interface] {
						bad("C04:overlap:api-lifetime", "api: router_lifetime_seconds of %s = %+v, want %s (forwarding=%t)", bi.Interface, bi.Advertisement, want[bi.Interface], st.fwd[bi.Interface])
					}
				}
			}
		}
		var wg sync.WaitGroup
		st.armed = true
		wg.Add(1)
		go func() { defer wg.Done(); run(c.First) }()
		synctest.Wait()
		select {
		case <-st.entered:
		default:
			bad("C04:harness", "the first path (%s) never read the forwarding state", c.First)
			return
		}
		wg.Add(1)
		secondDone := make(chan struct{})
		go func() { defer wg.Done(); defer close(secondDone); run(c.Second) }()
		synctest.Wait()
		select {
		case <-secondDone:
		default:
			// Waiting for another interface's read is not what C04 is about; recorded only.
		}
		close(st.release)
		wg.Wait()
	})
	return out
}

func TestVerifC04Overlap(t *testing.T) {
	r := ev.Begin("C04", "overlap")
	defer r.End(t)
	r.Rule = "one daemon (one State shared by the Context of two Advertisers, Metrics and the debug API handler), eth0 and eth1 with opposite forwarding states (both assignments): all 16 ordered pairs of RA-generating paths {advertiser eth0, advertiser eth1, metrics scrape, debug API}: the first path's first forwarding read is held open (bubble quiescent), the second path runs, then the read is released; oracle: every advertiser RA, forwarding / misconfiguration gauge and API router lifetime is the one for that interface's own forwarding state; non-trivial = the two paths read different interfaces first; distinct = distinct pair x assignment"
	if r.Replay != nil {
		var c c04OverlapCase
		if err := json.Unmarshal(r.Replay, &c); err != nil {
			t.Fatalf("bad replay: %v", err)
		}
		r.Case(ev.JSON(c), true)
		for _, v := range c04OverlapRun(t, c) {
			r.Violation(v[0], v[1], c)
		}
		return
	}
	for _, swap := range []bool{false, true} {
		for _, a := range c04Paths {
			for _, b := range c04Paths {
				c := c04OverlapCase{First: a, Second: b, Swap: swap}
				r.Case(ev.JSON(c), a != b)
				for _, v := range c04OverlapRun(t, c) {
					r.Violation(v[0], v[1], c)
				}
			}
		}
	}
}

// c04BuildRA calls Advertiser.buildRA(cfg) through reflection, taking the first result as
// the advertisement and the last as the error, so that a version of the code under test
// that returns more than those two still builds with this harness.
func c04BuildRA(a *Advertiser) (*ndp.RouterAdvertisement, error) {
	out := reflect.ValueOf(a.buildRA).Call([]reflect.Value{reflect.ValueOf(a.cfg)})
	ra, _ := out[0].Interface().(*ndp.RouterAdvertisement)
	err, _ := out[len(out)-1].Interface().(error)
	return ra, err
}
