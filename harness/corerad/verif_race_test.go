//go:build verif && vsched

package corerad

import (
	"fmt"
	"os"
	"strings"
	"testing"

	"github.com/mdlayher/corerad/verifrt/ev"
	"github.com/mdlayher/corerad/verifrt/vsched"
)

// Free-running race-detector passes over the SCHED scenarios. The explorer's
// hand-offs order every pair of steps, so a missing lock in the code under test is
// invisible to the race detector there; here the same scenario bodies (real
// Advertiser / Server / Dialer, same fakes, same drivers) run as plain goroutines
// under the virtual clock, n times each, and the detector's reports gate the verdict.

func raceCases[T any](t *testing.T, r *ev.Run, cases []T, name func(T) string, build func(T) *vsched.Scenario, n int) {
	only := os.Getenv("VERIF_CASE")
	for _, c := range cases {
		nm := name(c)
		if only != "" && !strings.Contains(nm, only) {
			continue
		}
		fin := 0
		for i := 0; i < n; i++ {
			// A subtest per run: a run during which the race detector reported something
			// is failed by the testing package; the remaining runs must still happen.
			t.Run("run", func(t *testing.T) {
				if vsched.RunFree(t, build(c)) {
					fin++
				}
			})
			r.Case(fmt.Sprint(nm, "#", i), true)
		}
		r.Sample(map[string]any{"case": nm, "runs": n, "driver_finished": fin})
		r.Count("driver_finished", int64(fin))
	}
}

const raceRule = "free-running -race pass: the thread bodies of this property's scheduler scenarios run as plain goroutines under the virtual clock, %d times per scenario; the race detector's reports gate the verdict; non-trivial = every run"

func raceN(r *ev.Run) int {
	if r.Thorough() {
		return 60
	}
	return 12
}

func TestVerifC07Race(t *testing.T) {
	r := ev.Begin("C07", "race")
	defer r.End(t)
	n := raceN(r)
	r.Rule = fmt.Sprintf(raceRule, n)
	raceCases(t, r, c07Cases(), func(c c07Case) string { return c.Name }, c07Scenario, n)
}

func TestVerifC08Race(t *testing.T) {
	r := ev.Begin("C08", "race")
	defer r.End(t)
	n := raceN(r)
	r.Rule = fmt.Sprintf(raceRule, n)
	raceCases(t, r, c08Cases(), func(c c08Case) string { return c.Name }, c08Scenario, n)
}

func TestVerifC10Race(t *testing.T) {
	r := ev.Begin("C10", "race")
	defer r.End(t)
	n := raceN(r)
	r.Rule = fmt.Sprintf(raceRule, n)
	raceCases(t, r, c10Cases(), func(c c10Case) string { return c.Name }, c10Scenario, n)
}

func TestVerifC20Race(t *testing.T) {
	r := ev.Begin("C20", "race")
	defer r.End(t)
	n := raceN(r)
	r.Rule = fmt.Sprintf(raceRule, n)
	raceCases(t, r, c20Cases(), func(c c20Case) string { return c.Name }, c20Scenario, n)
}

func TestVerifC17Race(t *testing.T) {
	r := ev.Begin("C17", "race")
	defer r.End(t)
	n := raceN(r)
	r.Rule = fmt.Sprintf(raceRule, n)
	raceCases(t, r, c17SchedCases, func(c c17SchedCase) string { return c.Name }, c17SchedScenario, n)
}
