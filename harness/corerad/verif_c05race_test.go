//go:build verif && !vsched

package corerad

import (
	"context"
	"io"
	"log"
	"net/netip"
	"sync"
	"testing"
	"testing/synctest"
	"time"

	"github.com/mdlayher/corerad/internal/system"
	"github.com/mdlayher/corerad/verifrt/ev"
	"github.com/mdlayher/ndp"
	"golang.org/x/net/ipv6"
)

// C05 race part: the interval generator draws its next wait while the scheduler
// draws solicited-response delays; both must be safe to do concurrently. The
// cooperative explorer cannot see a plain data race, so the real multicast()
// and schedule() run free (virtual clock, no scheduler) under the race detector.

type raceConn struct {
	mu sync.Mutex
	n  int
}

func (c *raceConn) ReadFrom() (ndp.Message, *ipv6.ControlMessage, netip.Addr, error) {
	select {}
}
func (c *raceConn) SetReadDeadline(time.Time) error { return nil }
func (c *raceConn) WriteTo(ndp.Message, *ipv6.ControlMessage, netip.Addr) error {
	c.mu.Lock()
	c.n++
	c.mu.Unlock()
	return nil
}

func TestVerifC05Race(t *testing.T) {
	r := ev.Begin("C05", "race")
	defer r.End(t)
	r.Rule = "free-running -race pass: the real multicast() and schedule() of one Advertiser (min 3s, max 4s, so both draw random numbers) run as plain goroutines under a virtual clock while 200 unicast requests arrive at the instants the generator draws (multiples of 1s) and in between, for 3 seeds; the race detector's reports gate the verdict; non-trivial = every run"
	if !c05MulticastSig() {
		r.Capped("Advertiser.multicast no longer has the signature (context.Context, chan<- netip.Addr): part skipped")
		return
	}
	for seed := 0; seed < 3; seed++ {
		synctest.Test(t, func(t *testing.T) {
			time.Sleep(time.Duration(seed) * 1234567 * time.Nanosecond)
			cfg := staticCfg("eth0", 3*time.Second, 4*time.Second)
			cctx := NewContext(log.New(io.Discard, "", 0), nil, system.TestState{Forwarding: true})
			a := NewAdvertiser(cctx, cfg, nil, nil, func() bool { return false })
			ctx, cancel := context.WithCancel(context.Background())
			conn := &raceConn{}
			ipC := make(chan netip.Addr, 16)
			var wg sync.WaitGroup
			wg.Add(2)
			go func() { defer wg.Done(); _ = a.schedule(ctx, conn, ipC) }()
			go func() { defer wg.Done(); c05Multicast(a, ctx, ipC) }()
			for i := 0; i < 200; i++ {
				ipC <- netip.MustParseAddr("fe80::5")
				if i%2 == 0 {
					time.Sleep(time.Second) // lands on the instants the generator wakes up
				} else {
					time.Sleep(333 * time.Millisecond)
				}
			}
			cancel()
			wg.Wait()
			conn.mu.Lock()
			n := conn.n
			conn.mu.Unlock()
			r.Case("seed "+time.Duration(seed).String(), true)
			r.Sample(map[string]any{"seed": seed, "transmissions": n})
		})
	}
}
