//go:build verif && vsched

package corerad

import (
	"bytes"
	"errors"
	"fmt"
	"net/netip"
	"os"
	"strings"
	"syscall"
	"testing"
	"time"

	"github.com/mdlayher/corerad/internal/netstate"
	"github.com/mdlayher/corerad/internal/plugin"
	"github.com/mdlayher/corerad/internal/system"
	"github.com/mdlayher/corerad/verifrt/ev"
	"github.com/mdlayher/corerad/verifrt/sdnotify"
	"github.com/mdlayher/corerad/verifrt/vsched"
	"github.com/mdlayher/ndp"
)

// C08: on termination exactly one zero-lifetime RA, last; on reload none; in
// both cases Run returns nil promptly and nothing is transmitted afterwards.

type c08Case struct {
	Name    string `json:"name"`
	Sig     string `json:"signal"` // TERM INT HUP
	Script  string `json:"script"`
	Latency bool   `json:"transmit_latency"`
}

func c08Sig(s string) os.Signal {
	switch s {
	case "HUP":
		return syscall.SIGHUP
	case "INT":
		return os.Interrupt
	case "QUIT":
		return syscall.SIGQUIT
	case "USR1":
		return syscall.SIGUSR1
	}
	return syscall.SIGTERM
}

func c08Cases() []c08Case {
	var cs []c08Case
	for _, sig := range []string{"TERM", "HUP", "INT", "QUIT", "USR1"} {
		for _, sc := range []string{"serve-e2e", "after-reinit", "final-ra-fails", "idle", "pending-delay", "rs-at-stop", "periodic-due", "armed-write-2", "armed-write-2-fails", "armed-write-2-enobufs", "armed-write-3-unicast", "armed-fwd-3", "armed-write-1", "armed-reinit-initial", "link-change-at-stop", "fwd-off-then-stop", "watcher-halts-at-stop", "serve-e2e-two-signals"} {
			// every signal but SIGHUP terminates; the less common ones on two scripts
			if (sig == "QUIT" || sig == "USR1") && sc != "idle" && sc != "serve-e2e" {
				continue
			}
			if sc == "serve-e2e-two-signals" && (sig == "HUP" || sig == "QUIT" || sig == "USR1") {
				continue // a terminating signal FOLLOWED by SIGHUP; see the driver
			}
			if sig == "INT" && sc != "armed-write-3-unicast" && sc != "idle" && sc != "serve-e2e" && sc != "after-reinit" && sc != "final-ra-fails" {
				continue
			}
			cs = append(cs, c08Case{Name: sc + "/" + sig, Sig: sig, Script: sc, Latency: strings.HasPrefix(sc, "armed")})
		}
	}
	return cs
}

func c08Scenario(c c08Case) *vsched.Scenario {
	var a *advWorld
	var stopAt time.Duration
	sc := &vsched.Scenario{
		Name:    c.Name,
		Horizon: 5 * time.Minute,
		Setup: func(x *vsched.Exec) {
			// Every header field at a non-default value (the final RA equals the normal RA in
			// all of them); preference high for TERM/HUP and low for INT.
			cfg := staticCfg("eth0", 4*time.Second, 4*time.Second)
			cfg.Managed, cfg.OtherConfig, cfg.HopLimit = true, true, 33
			cfg.ReachableTime, cfg.RetransmitTimer = 30*time.Second, 2*time.Second
			cfg.Preference = ndp.High
			if c.Sig == "INT" {
				cfg.Preference = ndp.Low
			}
			// ... and a ::/64 wildcard over an address list that changes 500 ms after the start
			// (2001:db8:a::/64 before, 2001:db8:b::/64 after): the final RA is the normal RA
			// of the moment it is sent, not of an earlier moment.
			cfg.Plugins = []plugin.Plugin{plugin.NewMTU(1480), &plugin.DNSSL{Lifetime: time.Hour, DomainNames: []string{"example.com"}},
				&plugin.Prefix{Auto: true, Prefix: netip.MustParsePrefix("::/64"), OnLink: true, Autonomous: true, ValidLifetime: time.Hour, PreferredLifetime: time.Minute}}
			system.VerifSetAddresser(c08Addresser{start: time.Now()})
			a = newAdvWorld(cfg, true, c.Script == "after-reinit" || c.Script == "armed-reinit-initial" || c.Script == "link-change-at-stop" || c.Script == "watcher-halts-at-stop")
			a.latency = c.Latency
			stop := func() {
				a.term.set(c08Sig(c.Sig))
				vsched.Obs("stop", "%s", c.Sig)
				stopAt = a.now()
				vsched.Pre("harness:cancel", a.cancel)()
				vsched.Obs("cancel-done", "")
			}
			arm := make(chan struct{})
			armed := false
			fire := func() {
				if !armed {
					armed = true
					close(arm)
				}
			}
			if c.Script == "final-ra-fails" {
				// The transmission of the final RA itself fails: stopping must still succeed.
				a.writeFaultRA = func(_ *fconn, dst netip.Addr, ra *ndp.RouterAdvertisement) error {
					if ra != nil && ra.RouterLifetime == 0 && isAllNodes(dst) {
						return errors.New("verif: network is unreachable")
					}
					return nil
				}
			}
			// Constructed stop instants: the stop thread becomes runnable exactly when
			// a given seam call of a worker is observed.
			switch c.Script {
			case "armed-write-2", "armed-write-2-fails", "armed-write-2-enobufs": // the first periodic RA's WriteTo
				a.hookWrite = func(n int, _ netip.Addr) {
					if n == 2 {
						fire()
					}
				}
				if c.Script != "armed-write-2" {
					// ... and that transmission, in flight when the stop arrives, fails.
					nw := 0
					a.writeFault = func(_ *fconn, _ netip.Addr) error {
						nw++
						if nw != 2 {
							return nil
						}
						if c.Script == "armed-write-2-enobufs" {
							return os.NewSyscallError("sendmsg", syscall.ENOBUFS)
						}
						return errors.New("verif: network is unreachable")
					}
				}
			case "armed-write-1", "armed-reinit-initial": // the initial RA of the first / of a re-established connection is in flight
				want := 1
				if c.Script == "armed-reinit-initial" {
					want = 2
				}
				a.hookWrite = func(n int, _ netip.Addr) {
					if n == want {
						fire()
					}
				}
			case "armed-write-3-unicast": // the solicited response's WriteTo
				a.hookWrite = func(_ int, dst netip.Addr) {
					if !isAllNodes(dst) {
						fire()
					}
				}
			case "armed-fwd-3": // the solicited response's forwarding read (3rd RA built)
				a.hookFwd = func(n int) {
					if n == 3 {
						fire()
					}
				}
			}
			if c.Script == "serve-e2e" || c.Script == "serve-e2e-two-signals" {
				// End to end: the real Server.Serve supervises the real advertiser and
				// the signal arrives through the real signal task, whose ordering of
				// "record terminate/reload" and "cancel" decides the final RA.
				srv := NewServer(a.cctx)
				srv.t = a.term
				sigC := make(chan os.Signal, 2)
				x.Spawn("serve", func() {
					err := srv.Serve(sigC, &sdnotify.Notifier{}, []Task{a.adv})
					a.runMu.Lock()
					a.runRet, a.runErr, a.runAt = true, err, a.now()
					a.runMu.Unlock()
					vsched.Obs("run-returned", "%v", err)
				})
				x.Spawn("driver", func() {
					defer a.done()
					vsched.Sleep(time.Second)
					vsched.Mark()
					vsched.Obs("stop", "%s", c.Sig)
					stopAt = a.now()
					vsched.Send("harness:signal", sigC, c08Sig(c.Sig))
					if c.Script == "serve-e2e-two-signals" {
						// An impatient operator: the terminating signal is followed at once by a
						// SIGHUP. The daemon was told to terminate and does (final RA).
						vsched.Send("harness:signal", sigC, os.Signal(syscall.SIGHUP))
					}
					vsched.Sleep(5 * time.Second)
					x.Finish()
				})
				return
			}
			x.Spawn("advertiser", a.run)
			x.Spawn("driver", func() {
				defer a.done()
				switch c.Script {
				case "idle", "final-ra-fails":
					vsched.Sleep(time.Second)
					vsched.Mark()
					stop()
				case "after-reinit":
					// The interface was re-initialised after a link change; a solicitation
					// is being answered on the new connection when the stop comes.
					vsched.Sleep(2 * time.Second)
					vsched.Send("harness:link-change", a.watchC, netstate.LinkDown)
					vsched.Sleep(3500 * time.Millisecond)
					vsched.Mark()
					a.inject(rsFrom("fe80::5", true))
					stop()
				case "pending-delay":
					// A unicast response is held in its random delay when the stop comes.
					vsched.Sleep(5 * time.Second)
					vsched.Mark()
					a.inject(rsFrom("fe80::5", true))
					vsched.Sleep(100 * time.Millisecond)
					stop()
				case "rs-at-stop":
					vsched.Sleep(5 * time.Second)
					vsched.Mark()
					a.inject(rsFrom("fe80::5", true))
					stop()
				case "periodic-due":
					// A rate-limited periodic RA is due at exactly this instant (tick at 4s -> RA at 6s).
					vsched.Sleep(6*time.Second - time.Millisecond)
					vsched.Mark()
					vsched.Sleep(time.Millisecond)
					stop()
				case "armed-write-2", "armed-write-2-fails", "armed-write-2-enobufs":
					vsched.Sleep(2 * time.Second)
					vsched.Mark()
					vsched.Recv("harness:armed", arm)
					stop()
				case "watcher-halts-at-stop":
					// What the daemon's own stop looks like to a task: its context is cancelled
					// and the link watcher, stopping too, closes the subscription channel - in
					// either order. No link changed: the final RA is due as always.
					vsched.Sleep(1500 * time.Millisecond)
					vsched.Mark()
					vsched.Close("harness:watcher-halts", a.watchC)
					stop()
				case "fwd-off-then-stop":
					// RAs with the configured lifetime went out while the interface was
					// forwarding; forwarding is switched off and the stop follows at once (no RA
					// in between): hosts still hold a default route, the final RA withdraws it.
					vsched.Sleep(3500 * time.Millisecond)
					vsched.Mark()
					a.st.setFwd("eth0", false)
					stop()
				case "link-change-at-stop":
					// The link state changes (and the watcher then halts, as it does when the
					// daemon stops) at the instant of the stop.
					vsched.Sleep(1500 * time.Millisecond)
					vsched.Mark()
					vsched.Send("harness:link-change", a.watchC, netstate.LinkDown)
					stop()
					vsched.Close("harness:watcher-halts", a.watchC)
				case "armed-write-1":
					// The stop arrives while the interface is being initialised: its initial RA
					// (non-zero lifetime) is on its way out.
					vsched.Mark()
					vsched.Recv("harness:armed", arm)
					stop()
				case "armed-reinit-initial":
					// ... and the same during a re-initialisation after a link change.
					vsched.Sleep(1500 * time.Millisecond)
					vsched.Mark()
					vsched.Send("harness:link-change", a.watchC, netstate.LinkDown)
					vsched.Recv("harness:armed", arm)
					stop()
				case "armed-write-3-unicast", "armed-fwd-3":
					vsched.Sleep(5 * time.Second)
					vsched.Mark()
					a.inject(rsFrom("fe80::5", true))
					vsched.Recv("harness:armed", arm)
					stop()
				default:
					panic("verif: C08 script without a driver: " + c.Script)
				}
				vsched.Sleep(5 * time.Second)
				x.Finish()
			})
		},
	}
	sc.Check = func(x *vsched.Exec) (out [][2]string) {
		return c08Check(c, x, a, stopAt)
	}
	return sc
}

func c08Check(c c08Case, x *vsched.Exec, a *advWorld, stopAt time.Duration) (out [][2]string) {
	bad := func(sig, format string, args ...any) {
		out = append(out, [2]string{sig, fmt.Sprintf(format, args...)})
	}
	if x.Failure != "" {
		bad("C08:"+x.FailKind, "%s", x.Failure)
		return out
	}
	if strings.HasPrefix(c.Script, "armed-write-2-") {
		// A transmission that fails *before* anybody asked to stop is an ordinary task
		// failure (C10's subject); C08 speaks about the executions in which the stop
		// came first and the failure happened while stopping.
		// ("came first" = the task's context was cancelled; the signal being recorded is
		// not yet a request to the task.)
		for _, e := range x.Log {
			if e.Kind == "cancel-done" {
				break
			}
			if e.Kind == "write-end" && !strings.HasSuffix(e.Detail, "err=<nil>") {
				return nil
			}
		}
	}
	terminal := c.Sig != "HUP"
	ret, err, at := a.returned()
	if !ret {
		bad("C08:run-did-not-return", "Run has not returned 5s after the stop")
		return out
	}
	if err != nil {
		bad("C08:run-error", "Run returned %v, want nil", err)
	}
	if at-stopAt > time.Second {
		bad("C08:slow-stop", "Run returned %s after the stop", at-stopAt)
	}
	// Order of events in the log.
	stopIdx, retIdx := -1, -1
	var finals []int
	for i, e := range x.Log {
		switch {
		case e.Kind == "stop":
			stopIdx = i
		case e.Kind == "run-returned":
			retIdx = i
		case e.Kind == "write-begin" && strings.Contains(e.Detail, "dst=ff02::1") && strings.HasSuffix(e.Detail, "lifetime=0s"):
			finals = append(finals, i)
		}
	}
	_ = stopIdx
	switch {
	case terminal && c.Script == "link-change-at-stop" && len(finals) <= 1:
		// The link changed state at the stop instant: whether the session that is being
		// torn down for that reason still sends a final RA is outside the statement's
		// quantifier (stop instants relative to transmissions and solicitations); promptness,
		// success and silence after return are judged below as for every script.
	case terminal && len(finals) != 1:
		bad("C08:final-ra-count", "terminating: %d zero-lifetime multicast RAs, want exactly 1", len(finals))
	case !terminal && len(finals) != 0:
		bad("C08:final-ra-on-reload", "reloading (SIGHUP): %d zero-lifetime RAs sent, want none", len(finals))
	}
	for i, e := range x.Log {
		if e.Kind != "write-begin" && e.Kind != "read-begin" {
			continue
		}
		if len(finals) == 1 && e.Kind == "write-begin" && i > finals[0] {
			bad("C08:write-after-final-ra", "a transmission (%s) begins after the final zero-lifetime RA began", e.Detail)
		}
		if retIdx >= 0 && i > retIdx {
			bad("C08:io-after-return", "%s %s begins after Run returned", e.Kind, e.Detail)
		}
	}
	for _, e := range x.Log {
		if e.Kind == "io-after-close" {
			bad("C08:io-after-close", "%s", e.Detail)
		}
	}
	// The final RA goes out on the connection that is current at the stop.
	if terminal && len(finals) == 1 {
		last := 0
		for _, e := range x.Log {
			if e.Kind == "conn-open" {
				fmt.Sscanf(e.Detail, "conn=%d", &last)
			}
		}
		if !strings.Contains(x.Log[finals[0]].Detail, fmt.Sprintf("conn=%d ", last)) {
			bad("C08:final-ra-on-old-connection", "final RA %q was not sent on the current connection %d", x.Log[finals[0]].Detail, last)
		}
	}
	// The final RA equals the normal RA except for the lifetime.
	ws := a.Writes()
	if terminal && len(finals) == 1 {
		var fin, normal *wrec
		for i := range ws {
			if ws[i].RA != nil && ws[i].RA.RouterLifetime == 0 {
				fin = &ws[i]
			}
		}
		// The network the wildcard must expand to at the stop instant (the address list
		// changes at 500 ms; a stop within 0.5 s of that is not judged).
		wantNet := ""
		switch {
		case stopAt >= time.Second:
			wantNet = "2001:db8:b::"
		case stopAt < 400*time.Millisecond:
			wantNet = "2001:db8:a::"
		}
		if fin != nil && wantNet != "" && c08WildNet(fin.RA) != wantNet {
			bad("C08:final-ra-stale", "stop at %s: the final RA advertises the wildcard network %q, the interface's network at that moment is %s (the final RA is the normal RA of the moment it is sent)", stopAt, c08WildNet(fin.RA), wantNet)
		}
		for i := range ws {
			// The normal RA to compare with: the latest one built for the same address list.
			if ws[i].RA != nil && ws[i].RA.RouterLifetime != 0 && fin != nil && c08WildNet(ws[i].RA) == c08WildNet(fin.RA) {
				normal = &ws[i]
			}
		}
		if fin != nil && normal != nil {
			f := *fin.RA
			f.RouterLifetime = normal.RA.RouterLifetime
			fb, ferr := ndp.MarshalMessage(&f)
			nb, nerr := ndp.MarshalMessage(normal.RA)
			if ferr != nil || nerr != nil || !bytes.Equal(fb, nb) {
				bad("C08:final-ra-content", "final RA %+v differs from the normal RA %+v in more than the lifetime", *fin.RA, *normal.RA)
			}
		}
	}
	return out
}

func TestVerifC08(t *testing.T) {
	r := ev.Begin("C08", "sched")
	defer r.End(t)
	r.Rule = "executions = all goroutine schedules within the deviation bound of the instrumented real Advertiser (min=max=4s, real terminator) with a stop thread (set signal, cancel) placed at: the real Server.Serve with the real signal task; a solicitation arriving on the connection opened by a re-initialisation after a link change; idle; a unicast response pending in its random delay; a solicitation arriving at the stop instant; a rate-limited periodic RA due at the stop instant; armed to become runnable exactly when the 2nd WriteTo (succeeding, failing, failing with ENOBUFS) / the unicast response's WriteTo / the 3rd forwarding read begins (with transmit latency modelled as an extra scheduling point inside WriteTo); x SIGTERM, SIGHUP (SIGINT for two); random delay draws are environment choices {0, mid, max}; oracle on the ordered observation log: Run returns nil within 1s, exactly one zero-lifetime multicast RA iff terminating, equal to the normal RA otherwise, no transmission begins after it, no I/O after Run returned or on a closed connection"
	name := func(c c08Case) string { return c.Name }
	if !r.Thorough() {
		exploreCases(t, r, c08Cases(), name, c08Scenario, exploreOpts{Bound: 1})
		return
	}
	// Thorough: bound 2 completely, then bound 3 under a per-case wall-clock budget
	// (a cap is reported as exhaustive=false for bound 3; bound 2 stays complete).
	exploreCases(t, r, c08Cases(), name, c08Scenario, exploreOpts{Bound: 2})
	if r.Replay == nil {
		exploreCases(t, r, c08Cases(), name, c08Scenario, exploreOpts{Bound: 3, Budget: 40 * time.Second})
	}
}

// c08Addresser: the interface's address moves from 2001:db8:a::/64 to 2001:db8:b::/64
// 500 ms (virtual) after the scenario started.
type c08Addresser struct{ start time.Time }

func (a c08Addresser) AddressesByIndex(int) ([]system.IP, error) {
	n := "2001:db8:a::1/64"
	if time.Since(a.start) >= 500*time.Millisecond {
		n = "2001:db8:b::1/64"
	}
	return []system.IP{{Address: netip.MustParsePrefix(n)}, {Address: netip.MustParsePrefix("fe80::1/64")}}, nil
}
func (c08Addresser) LoopbackRoutes() ([]system.Route, error) { return nil, nil }

// c08WildNet is the network of the wildcard's prefix option in ra ("" if none).
func c08WildNet(ra *ndp.RouterAdvertisement) string {
	for _, o := range ra.Options {
		if pi, ok := o.(*ndp.PrefixInformation); ok {
			return pi.Prefix.String()
		}
	}
	return ""
}
