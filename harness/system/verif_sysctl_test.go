//go:build verif && linux

package system

import (
	"errors"
	"fmt"
	"io/fs"
	"os"
	"runtime"
	"sort"
	"strings"
	"sync"
	"syscall"
	"testing"

	"github.com/mdlayher/corerad/verifrt/enum"
	"github.com/mdlayher/corerad/verifrt/ev"
)

// C04 / C11 below the State interface: the real systemState (what NewState returns, what
// every RA path and the Dialer consult) runs over a scripted /proc/sys/net/ipv6/conf tree
// (the staged interface_linux.go opens files through verifReadFile / verifWriteFile).
//
// C04 "sysctl": IPv6Forwarding(iface) is the interface's OWN forwarding switch, whatever
// the all/default/other interfaces' switches and any autoconf value say, reads only, and
// an unreadable own switch is an error (never a silent "forwarding").
//
// C11 "sysctl": IPv6Autoconf / SetIPv6Autoconf read and write exactly the interface's own
// autoconf switch, histories of sets and outside changes agree with a map, and a failing
// write surfaces as an error that still says permission-denied / not-exist (the Dialer's
// tolerance on restore is decided with errors.Is on it).

type vfsEntry struct {
	val string // "0" | "1"
	err syscall.Errno
}

type vfs struct {
	files          map[string]vfsEntry
	reads, writes  []string
	wroteData      []string
	writeErr       map[string]syscall.Errno
	accessesInSeam int
}

func vfsPath(iface, key string) string {
	return "/proc/sys/net/ipv6/conf/" + iface + "/" + key
}

func (v *vfs) install() {
	VerifSetFiles(func(name string) ([]byte, error) {
		v.accessesInSeam++
		v.reads = append(v.reads, name)
		e, ok := v.files[name]
		if !ok {
			return nil, &fs.PathError{Op: "open", Path: name, Err: syscall.ENOENT}
		}
		if e.err != 0 {
			return nil, &fs.PathError{Op: "open", Path: name, Err: e.err}
		}
		return []byte(e.val + "\n"), nil
	}, func(name string, data []byte, _ os.FileMode) error {
		v.accessesInSeam++
		v.writes = append(v.writes, name)
		v.wroteData = append(v.wroteData, string(data))
		if en := v.writeErr[name]; en != 0 {
			return &fs.PathError{Op: "open", Path: name, Err: en}
		}
		e, ok := v.files[name]
		if !ok {
			return &fs.PathError{Op: "open", Path: name, Err: syscall.ENOENT}
		}
		e.val = strings.TrimSpace(string(data))
		v.files[name] = e
		return nil
	})
}

func (v *vfs) dump() string {
	var ks []string
	for k, e := range v.files {
		s := e.val
		if e.err != 0 {
			s = e.err.Error()
		}
		ks = append(ks, strings.TrimPrefix(k, "/proc/sys/net/ipv6/conf/")+"="+s)
	}
	sort.Strings(ks)
	return strings.Join(ks, " ")
}

var vfsIfaces = []string{"all", "default", "eth0", "eth1"}

func TestVerifC04Sysctl(t *testing.T) {
	r := ev.Begin("C04", "sysctl")
	defer r.End(t)
	r.Rule = "the real system.NewState().IPv6Forwarding over a scripted /proc/sys/net/ipv6/conf tree: target in {eth0, eth1} x own forwarding file {0, 1, missing, unreadable (EACCES)} x every other interface's (all, default, the other ethN) forwarding file {0, 1, missing} x the target's and all's autoconf {0,1}; oracle: result = (own file is 1), error iff the own file cannot be read, nothing is written; non-trivial = some other file disagrees with the own one; distinct = distinct tree x target"
	r.Assumptions = []string{"os.ReadFile / os.WriteFile inside internal/system/interface_linux.go replaced by a scripted tree (AST rewrite in the staged copy); the kernel's own semantics of the files are not modelled"}
	defer VerifSetFiles(nil, nil)
	st := NewState()
	seam := 0
	for _, target := range []string{"eth0", "eth1"} {
		var others []string
		for _, i := range vfsIfaces {
			if i != target {
				others = append(others, i)
			}
		}
		own := []vfsEntry{{val: "0"}, {val: "1"}, {err: syscall.ENOENT}, {err: syscall.EACCES}}
		for _, o := range own {
			enum.Product([]int{3, 3, 3, 2, 2}, func(ix []int) bool {
				v := &vfs{files: map[string]vfsEntry{}}
				if o.err != syscall.ENOENT {
					v.files[vfsPath(target, "forwarding")] = o
				}
				nontrivial := false
				for k, i := range others {
					switch ix[k] {
					case 0, 1:
						v.files[vfsPath(i, "forwarding")] = vfsEntry{val: fmt.Sprint(ix[k])}
						if o.err == 0 && fmt.Sprint(ix[k]) != o.val {
							nontrivial = true
						}
					}
				}
				v.files[vfsPath(target, "autoconf")] = vfsEntry{val: fmt.Sprint(ix[3])}
				v.files[vfsPath("all", "autoconf")] = vfsEntry{val: fmt.Sprint(ix[4])}
				v.install()
				got, err := st.IPv6Forwarding(target)
				seam += v.accessesInSeam
				desc := fmt.Sprintf("IPv6Forwarding(%s) over {%s}", target, v.dump())
				r.Case(desc, nontrivial)
				switch {
				case o.err != 0:
					if err == nil {
						r.Violation("C04:sysctl:unreadable-not-reported", fmt.Sprintf("%s = %t, nil although the interface's own switch cannot be read", desc, got), nil)
					}
				case err != nil:
					r.Violation("C04:sysctl:error", fmt.Sprintf("%s: %v", desc, err), nil)
				case got != (o.val == "1"):
					r.Violation("C04:sysctl:not-the-interface-switch", fmt.Sprintf("%s = %t, the interface's own forwarding switch is %s", desc, got, o.val), nil)
				}
				if len(v.writes) != 0 {
					r.Violation("C04:sysctl:wrote", fmt.Sprintf("%s wrote %v", desc, v.writes), nil)
				}
				return true
			})
		}
	}
	if seam == 0 {
		r.Capped("the sysctl functions no longer go through os.ReadFile/os.WriteFile in interface_linux.go: the file seam is bypassed and this part decides nothing")
	}
}

func TestVerifC11Sysctl(t *testing.T) {
	r := ev.Begin("C11", "sysctl")
	defer r.End(t)
	r.Rule = "the real system.NewState() autoconf getter/setter over a scripted /proc/sys/net/ipv6/conf tree: (a) all histories of <=4 operations over {SetIPv6Autoconf(eth0|eth1, false|true), the kernel/administrator flipping eth0's or all's switch} from each of the 16 initial values of (all, default, eth0, eth1), after every operation IPv6Autoconf of eth0 and eth1 compared with a map, each set = exactly one write of 0/1 to the interface's own file; (b) a failing write (EACCES, EPERM, ENOENT, EROFS, EIO) and a missing/unreadable file on read: the error is returned and errors.Is(os.ErrPermission / os.ErrNotExist) holds exactly for the errno that means it; non-trivial = history has a set; distinct = distinct history x initial tree"
	r.Assumptions = []string{"os.ReadFile / os.WriteFile inside internal/system/interface_linux.go replaced by a scripted tree (AST rewrite in the staged copy)"}
	defer VerifSetFiles(nil, nil)
	st := NewState()
	seam := 0
	type op struct {
		iface string
		set   bool
		val   bool
	}
	ops := []op{{"eth0", true, false}, {"eth0", true, true}, {"eth1", true, false}, {"eth1", true, true}, {"eth0", false, false}, {"all", false, false}}
	enum.Product([]int{2, 2, 2, 2}, func(init []int) bool {
		enum.Sequences(len(ops), 4, func(seq []int) bool {
			if len(seq) == 0 {
				return true
			}
			v := &vfs{files: map[string]vfsEntry{}}
			model := map[string]bool{}
			for k, i := range vfsIfaces {
				v.files[vfsPath(i, "autoconf")] = vfsEntry{val: fmt.Sprint(init[k])}
				v.files[vfsPath(i, "forwarding")] = vfsEntry{val: fmt.Sprint(1 - init[k])}
				model[i] = init[k] == 1
			}
			v.install()
			hasSet := false
			var hist []string
			for _, s := range seq {
				o := ops[s]
				if !o.set {
					// Somebody else flips the switch.
					model[o.iface] = !model[o.iface]
					e := v.files[vfsPath(o.iface, "autoconf")]
					e.val = map[bool]string{false: "0", true: "1"}[model[o.iface]]
					v.files[vfsPath(o.iface, "autoconf")] = e
					hist = append(hist, "flip("+o.iface+")")
					continue
				}
				hasSet = true
				hist = append(hist, fmt.Sprintf("set(%s,%t)", o.iface, o.val))
				nw := len(v.writes)
				err := st.SetIPv6Autoconf(o.iface, o.val)
				model[o.iface] = o.val
				desc := fmt.Sprintf("init %v history %v", init, hist)
				if err != nil {
					r.Violation("C11:sysctl:set-error", fmt.Sprintf("%s: %v", desc, err), nil)
					break
				}
				if len(v.writes) != nw+1 || v.writes[nw] != vfsPath(o.iface, "autoconf") {
					r.Violation("C11:sysctl:set-wrote-elsewhere", fmt.Sprintf("%s: writes %v, want exactly one to %s", desc, v.writes[nw:], vfsPath(o.iface, "autoconf")), nil)
					break
				}
				bad := false
				for _, i := range vfsIfaces {
					if i == "all" || i == "default" {
						if (v.files[vfsPath(i, "autoconf")].val == "1") != model[i] {
							r.Violation("C11:sysctl:set-wrote-elsewhere", fmt.Sprintf("%s: %s/autoconf is now %s", desc, i, v.files[vfsPath(i, "autoconf")].val), nil)
							bad = true
						}
						continue
					}
					got, err := st.IPv6Autoconf(i)
					if err != nil || got != model[i] {
						r.Violation("C11:sysctl:autoconf-value", fmt.Sprintf("%s: IPv6Autoconf(%s) = %t, %v; want %t (tree: %s)", desc, i, got, err, model[i], v.dump()), nil)
						bad = true
					}
				}
				if bad {
					break
				}
			}
			seam += v.accessesInSeam
			r.Case(fmt.Sprintf("init %v history %v", init, hist), hasSet)
			return true
		})
		return true
	})
	// (b) failures.
	for _, en := range []syscall.Errno{syscall.EACCES, syscall.EPERM, syscall.ENOENT, syscall.EROFS, syscall.EIO} {
		for _, val := range []bool{false, true} {
			v := &vfs{files: map[string]vfsEntry{}, writeErr: map[string]syscall.Errno{vfsPath("eth0", "autoconf"): en}}
			for _, i := range vfsIfaces {
				v.files[vfsPath(i, "autoconf")] = vfsEntry{val: "1"}
			}
			v.install()
			err := st.SetIPv6Autoconf("eth0", val)
			seam += v.accessesInSeam
			desc := fmt.Sprintf("SetIPv6Autoconf(eth0,%t) with the write failing with %s", val, en)
			r.Case(desc, true)
			if err == nil {
				r.Violation("C11:sysctl:write-failure-swallowed", desc+": returned nil", nil)
				continue
			}
			wantPerm, wantNotExist := en == syscall.EACCES || en == syscall.EPERM, en == syscall.ENOENT
			if errors.Is(err, os.ErrPermission) != wantPerm || errors.Is(err, os.ErrNotExist) != wantNotExist {
				r.Violation("C11:sysctl:error-kind-lost", fmt.Sprintf("%s: returned %v: errors.Is(permission)=%t want %t, errors.Is(not-exist)=%t want %t", desc, err, errors.Is(err, os.ErrPermission), wantPerm, errors.Is(err, os.ErrNotExist), wantNotExist), nil)
			}
		}
		v := &vfs{files: map[string]vfsEntry{vfsPath("eth0", "autoconf"): {err: en}, vfsPath("all", "autoconf"): {val: "1"}, vfsPath("default", "autoconf"): {val: "1"}}}
		v.install()
		got, err := st.IPv6Autoconf("eth0")
		seam += v.accessesInSeam
		r.Case(fmt.Sprintf("IPv6Autoconf(eth0) with the read failing with %s", en), true)
		if err == nil {
			r.Violation("C11:sysctl:read-failure-swallowed", fmt.Sprintf("IPv6Autoconf(eth0) = %t, nil although the file cannot be read (%s)", got, en), nil)
		}
	}
	if seam == 0 {
		r.Capped("the sysctl functions no longer go through os.ReadFile/os.WriteFile in interface_linux.go: the file seam is bypassed and this part decides nothing")
	}
}

// C11 `sysctlrace`: the same setter and getter, free-running under the race detector: two
// advertising interfaces are re-initialised at once (one restores 1 while the other
// disables), as two Dialers of one daemon do. The race detector's reports gate the verdict
// (the driver attributes a report to the code under test by its frames); the values that
// end up in the scripted tree are checked as well.
func TestVerifC11SysctlRace(t *testing.T) {
	r := ev.Begin("C11", "sysctlrace")
	defer r.End(t)
	r.Rule = "free-running -race pass: 2 goroutines x 2000 rounds, each setting its own interface's autoconf switch (eth0: 1,0,1,...; eth1: 0,1,0,...) through the real system.NewState() over a scripted tree whose write hook copies the bytes it is handed; oracle: race detector silent on the code under test, and after every set the interface's own file holds the value just written; non-trivial = every round"
	defer VerifSetFiles(nil, nil)
	var mu sync.Mutex
	files := map[string]string{}
	VerifSetFiles(func(name string) ([]byte, error) {
		mu.Lock()
		defer mu.Unlock()
		v, ok := files[name]
		if !ok {
			return nil, &fs.PathError{Op: "open", Path: name, Err: syscall.ENOENT}
		}
		return []byte(v + "\n"), nil
	}, func(name string, data []byte, _ os.FileMode) error {
		// like the kernel: the bytes are read when the write is made, some time after
		// the caller prepared them
		runtime.Gosched()
		v := strings.TrimSpace(string(data))
		mu.Lock()
		files[name] = v
		mu.Unlock()
		return nil
	})
	st := NewState()
	var wg sync.WaitGroup
	var bmu sync.Mutex
	var problems []string
	for _, ifn := range []string{"eth0", "eth1"} {
		files[vfsPath(ifn, "autoconf")] = "1"
	}
	for gi, ifn := range []string{"eth0", "eth1"} {
		wg.Add(1)
		go func() {
			defer wg.Done()
			for k := 0; k < 2000; k++ {
				want := (k+gi)%2 == 0
				if err := st.SetIPv6Autoconf(ifn, want); err != nil {
					bmu.Lock()
					problems = append(problems, fmt.Sprintf("%s round %d: %v", ifn, k, err))
					bmu.Unlock()
					return
				}
				got, err := st.IPv6Autoconf(ifn)
				if err != nil || got != want {
					bmu.Lock()
					if len(problems) < 5 {
						problems = append(problems, fmt.Sprintf("SetIPv6Autoconf(%s, %t) while the other interface is being set: the interface's switch then reads %t (%v)", ifn, want, got, err))
					}
					bmu.Unlock()
				}
			}
		}()
	}
	wg.Wait()
	r.Case("two interfaces set concurrently, 2000 rounds", true)
	for _, p := range problems {
		r.Violation("C11:sysctl:concurrent-interfaces", p, nil)
	}
}
