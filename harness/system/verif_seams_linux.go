//go:build verif && linux

package system

import (
	"net"
	"os"

	"github.com/jsimonetti/rtnetlink"
	"github.com/mdlayher/netlink"
)

// File and netlink seams of the verification build (see /verif/DESIGN.md §2.1): the staged
// copy of interface_linux.go reads and writes sysctl files through verifReadFile /
// verifWriteFile, and the staged copy of rtnlExecute dials through verifRtnlDial. All
// default to the originals.

var verifLinux struct {
	readFile  func(string) ([]byte, error)
	writeFile func(string, []byte, os.FileMode) error
	rtnlDial  func(*netlink.Config) (VerifRtnlConn, error)
	ifaces    func() ([]net.Interface, error)
}

// verifInterfaces stands in for net.Interfaces inside the staged copy of LoopbackRoutes.
func verifInterfaces() ([]net.Interface, error) {
	verifMu.RLock()
	f := verifLinux.ifaces
	verifMu.RUnlock()
	if f == nil {
		return net.Interfaces()
	}
	return f()
}

// VerifSetInterfaces replaces (nil: restores) net.Interfaces as seen by LoopbackRoutes.
func VerifSetInterfaces(f func() ([]net.Interface, error)) {
	verifMu.Lock()
	verifLinux.ifaces = f
	verifMu.Unlock()
}

func verifReadFile(name string) ([]byte, error) {
	verifMu.RLock()
	f := verifLinux.readFile
	verifMu.RUnlock()
	if f == nil {
		return os.ReadFile(name)
	}
	return f(name)
}

func verifWriteFile(name string, data []byte, perm os.FileMode) error {
	verifMu.RLock()
	f := verifLinux.writeFile
	verifMu.RUnlock()
	if f == nil {
		return os.WriteFile(name, data, perm)
	}
	return f(name, data, perm)
}

// VerifSetFiles replaces (nil: restores) os.ReadFile / os.WriteFile as seen by the sysctl
// functions.
func VerifSetFiles(read func(string) ([]byte, error), write func(string, []byte, os.FileMode) error) {
	verifMu.Lock()
	verifLinux.readFile, verifLinux.writeFile = read, write
	verifMu.Unlock()
}

// A VerifRtnlConn is what rtnlExecute needs from the value rtnetlink.Dial returns.
type VerifRtnlConn interface {
	Close() error
	Execute(m rtnetlink.Message, family uint16, flags netlink.HeaderFlags) ([]rtnetlink.Message, error)
}

func verifRtnlDial(c *netlink.Config) (VerifRtnlConn, error) {
	verifMu.RLock()
	f := verifLinux.rtnlDial
	verifMu.RUnlock()
	if f == nil {
		conn, err := rtnetlink.Dial(c)
		if err != nil {
			return nil, err
		}
		return conn, nil
	}
	return f(c)
}

// VerifSetRtnlDial replaces (nil: restores) rtnetlink.Dial as seen by rtnlExecute.
func VerifSetRtnlDial(f func(*netlink.Config) (VerifRtnlConn, error)) {
	verifMu.Lock()
	verifLinux.rtnlDial = f
	verifMu.Unlock()
}
