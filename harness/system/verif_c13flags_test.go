//go:build verif && linux

package system

import (
	"fmt"
	"math"
	"net/netip"
	"testing"

	"github.com/jsimonetti/rtnetlink"
	"github.com/mdlayher/corerad/verifrt/ev"
	"github.com/mdlayher/netlink"
	"golang.org/x/sys/unix"
)

// C13 / C14, the link between the kernel's address flags and the eligibility the
// wildcards decide on: every combination of the 12 IFA_F_* bits x {valid forever,
// finite} goes through the real rtnetlink decoding of AddressesByIndex (the netlink
// round trip is the injected `execute`); each attribute of the resulting system.IP
// must be exactly its kernel bit. Findings are tagged with the property whose
// statement names the attribute (temporary, tentative: both).

func TestVerifC13Flags(t *testing.T) {
	part := "flags"
	r := ev.Begin("C13", part)
	defer r.End(t)
	r.Rule = "all 4096 combinations of the IFA_F_* address flag bits (0x001..0x800) x {valid forever, finite valid lifetime} x 2 addresses through the real AddressesByIndex decoding over an injected rtnetlink reply, and all 4096 ordered pairs of (5 flag bits, valid forever/finite) for two addresses in one reply; oracle: Temporary, Tentative, Deprecated, ManageTemporaryAddresses, StablePrivacy = exactly their kernel bit, ValidForever = (valid == 2^32-1), address and prefix length preserved; non-trivial = every case"
	for flags := uint32(0); flags < 1<<12; flags++ {
		for _, valid := range []uint32{math.MaxUint32, 3600} {
			r.Case(fmt.Sprintf("flags=%#x valid=%d", flags, valid), true)
			a := &addresser{execute: func(m rtnetlink.Message, family uint16, fl netlink.HeaderFlags) ([]rtnetlink.Message, error) {
				mk := func(ip string, bits uint8) rtnetlink.Message {
					return &rtnetlink.AddressMessage{
						Family: unix.AF_INET6, PrefixLength: bits, Index: 2,
						Attributes: &rtnetlink.AddressAttributes{
							Address:   netip.MustParseAddr(ip).AsSlice(),
							Flags:     flags,
							CacheInfo: rtnetlink.CacheInfo{Valid: valid},
						},
					}
				}
				return []rtnetlink.Message{mk("2001:db8::1", 64), mk("fd00::2", 48)}, nil
			}}
			ips, err := a.AddressesByIndex(2)
			if err != nil || len(ips) != 2 {
				r.Violation("C13:flag-mapping:decode", fmt.Sprintf("flags %#x: AddressesByIndex = %v, %v", flags, ips, err), nil)
				continue
			}
			for i, ip := range ips {
				want := []string{"2001:db8::1/64", "fd00::2/48"}[i]
				if ip.Address.String() != want {
					r.Violation("C13:flag-mapping:address", fmt.Sprintf("flags %#x: address %s, want %s", flags, ip.Address, want), nil)
				}
				chk := func(props []string, name string, got bool, bit uint32) {
					if got != (flags&bit != 0) {
						for _, p := range props {
							r.Violation(p+":flag-mapping:"+name, fmt.Sprintf("kernel flags %#x: %s=%t, but bit %#x is %t", flags, name, got, bit, flags&bit != 0), nil)
						}
					}
				}
				chk([]string{"C13", "C14"}, "temporary", ip.Temporary, unix.IFA_F_TEMPORARY)
				chk([]string{"C13", "C14"}, "tentative", ip.Tentative, unix.IFA_F_TENTATIVE)
				chk([]string{"C14"}, "deprecated", ip.Deprecated, unix.IFA_F_DEPRECATED)
				chk([]string{"C14"}, "manage-temporary-addresses", ip.ManageTemporaryAddresses, unix.IFA_F_MANAGETEMPADDR)
				chk([]string{"C14"}, "stable-privacy", ip.StablePrivacy, unix.IFA_F_STABLE_PRIVACY)
				if ip.ValidForever != (valid == math.MaxUint32) {
					r.Violation("C14:flag-mapping:valid-forever", fmt.Sprintf("valid=%d: ValidForever=%t", valid, ip.ValidForever), nil)
				}
			}
		}
	}
	// Each address of one dump is decoded on its own: all ordered pairs of (flag set over
	// the five bits the wildcards look at, valid forever / finite) for two addresses in
	// one reply; every attribute of each address is its own bits, whatever the other says.
	bits := []uint32{unix.IFA_F_TEMPORARY, unix.IFA_F_TENTATIVE, unix.IFA_F_DEPRECATED, unix.IFA_F_MANAGETEMPADDR, unix.IFA_F_STABLE_PRIVACY}
	type av struct {
		flags, valid uint32
	}
	var menu []av
	for m := 0; m < 1<<len(bits); m++ {
		var f uint32
		for i, b := range bits {
			if m&(1<<i) != 0 {
				f |= b
			}
		}
		menu = append(menu, av{f, math.MaxUint32}, av{f, 3600})
	}
	for _, a1 := range menu {
		for _, a2 := range menu {
			r.Case(fmt.Sprintf("pair %#x/%d then %#x/%d", a1.flags, a1.valid, a2.flags, a2.valid), a1 != a2)
			pair := [2]av{a1, a2}
			a := &addresser{execute: func(m rtnetlink.Message, family uint16, fl netlink.HeaderFlags) ([]rtnetlink.Message, error) {
				var out []rtnetlink.Message
				for i, x := range pair {
					out = append(out, &rtnetlink.AddressMessage{
						Family: unix.AF_INET6, PrefixLength: 64, Index: 2,
						Attributes: &rtnetlink.AddressAttributes{
							Address:   netip.MustParseAddr(fmt.Sprintf("2001:db8:%d::1", i+1)).AsSlice(),
							Flags:     x.flags,
							CacheInfo: rtnetlink.CacheInfo{Valid: x.valid},
						},
					})
				}
				return out, nil
			}}
			ips, err := a.AddressesByIndex(2)
			if err != nil || len(ips) != 2 {
				r.Violation("C13:flag-mapping:decode", fmt.Sprintf("pair %v: AddressesByIndex = %v, %v", pair, ips, err), nil)
				continue
			}
			for i, ip := range ips {
				x := pair[i]
				got := []bool{ip.Temporary, ip.Tentative, ip.Deprecated, ip.ManageTemporaryAddresses, ip.StablePrivacy}
				names := []string{"temporary", "tentative", "deprecated", "manage-temporary-addresses", "stable-privacy"}
				props := [][]string{{"C13", "C14"}, {"C13", "C14"}, {"C14"}, {"C14"}, {"C14"}}
				for k, b := range bits {
					if got[k] != (x.flags&b != 0) {
						for _, p := range props[k] {
							r.Violation(p+":flag-mapping:"+names[k]+":leaks-between-addresses", fmt.Sprintf("reply with addresses %v: address %d has %s=%t, its own bit %#x is %t", pair, i, names[k], got[k], b, x.flags&b != 0), nil)
						}
					}
				}
				if ip.ValidForever != (x.valid == math.MaxUint32) {
					r.Violation("C14:flag-mapping:valid-forever:leaks-between-addresses", fmt.Sprintf("reply with addresses %v: address %d has ValidForever=%t, its own valid lifetime is %d", pair, i, ip.ValidForever, x.valid), nil)
				}
			}
		}
	}
}
