//go:build verif && linux

package system

import (
	"fmt"
	"math"
	"net/netip"
	"testing"

	"github.com/jsimonetti/rtnetlink"
	"github.com/mdlayher/corerad/verifrt/ev"
	"github.com/mdlayher/netlink"
	"golang.org/x/sys/unix"
)

// C13 / C14, the link between the kernel's address flags and the eligibility the
// wildcards decide on: every combination of the 12 IFA_F_* bits x {valid forever,
// finite} goes through the real rtnetlink decoding of AddressesByIndex (the netlink
// round trip is the injected `execute`); each attribute of the resulting system.IP
// must be exactly its kernel bit. Findings are tagged with the property whose
// statement names the attribute (temporary, tentative: both).

func TestVerifC13Flags(t *testing.T) {
	part := "flags"
	r := ev.Begin("C13", part)
	defer r.End(t)
	r.Rule = "all 4096 combinations of the IFA_F_* address flag bits (0x001..0x800) x {valid forever, finite valid lifetime} x 2 addresses through the real AddressesByIndex decoding over an injected rtnetlink reply; oracle: Temporary, Tentative, Deprecated, ManageTemporaryAddresses, StablePrivacy = exactly their kernel bit, ValidForever = (valid == 2^32-1), address and prefix length preserved; non-trivial = every case"
	for flags := uint32(0); flags < 1<<12; flags++ {
		for _, valid := range []uint32{math.MaxUint32, 3600} {
			r.Case(fmt.Sprintf("flags=%#x valid=%d", flags, valid), true)
			a := &addresser{execute: func(m rtnetlink.Message, family uint16, fl netlink.HeaderFlags) ([]rtnetlink.Message, error) {
				mk := func(ip string, bits uint8) rtnetlink.Message {
					return &rtnetlink.AddressMessage{
						Family: unix.AF_INET6, PrefixLength: bits, Index: 2,
						Attributes: &rtnetlink.AddressAttributes{
							Address:   netip.MustParseAddr(ip).AsSlice(),
							Flags:     flags,
							CacheInfo: rtnetlink.CacheInfo{Valid: valid},
						},
					}
				}
				return []rtnetlink.Message{mk("2001:db8::1", 64), mk("fd00::2", 48)}, nil
			}}
			ips, err := a.AddressesByIndex(2)
			if err != nil || len(ips) != 2 {
				r.Violation("C13:flag-mapping:decode", fmt.Sprintf("flags %#x: AddressesByIndex = %v, %v", flags, ips, err), nil)
				continue
			}
			for i, ip := range ips {
				want := []string{"2001:db8::1/64", "fd00::2/48"}[i]
				if ip.Address.String() != want {
					r.Violation("C13:flag-mapping:address", fmt.Sprintf("flags %#x: address %s, want %s", flags, ip.Address, want), nil)
				}
				chk := func(props []string, name string, got bool, bit uint32) {
					if got != (flags&bit != 0) {
						for _, p := range props {
							r.Violation(p+":flag-mapping:"+name, fmt.Sprintf("kernel flags %#x: %s=%t, but bit %#x is %t", flags, name, got, bit, flags&bit != 0), nil)
						}
					}
				}
				chk([]string{"C13", "C14"}, "temporary", ip.Temporary, unix.IFA_F_TEMPORARY)
				chk([]string{"C13", "C14"}, "tentative", ip.Tentative, unix.IFA_F_TENTATIVE)
				chk([]string{"C14"}, "deprecated", ip.Deprecated, unix.IFA_F_DEPRECATED)
				chk([]string{"C14"}, "manage-temporary-addresses", ip.ManageTemporaryAddresses, unix.IFA_F_MANAGETEMPADDR)
				chk([]string{"C14"}, "stable-privacy", ip.StablePrivacy, unix.IFA_F_STABLE_PRIVACY)
				if ip.ValidForever != (valid == math.MaxUint32) {
					r.Violation("C14:flag-mapping:valid-forever", fmt.Sprintf("valid=%d: ValidForever=%t", valid, ip.ValidForever), nil)
				}
			}
		}
	}
}
