//go:build verif

package system

import (
	"net"
	"net/netip"
	"sync"

	"github.com/mdlayher/ndp"
	"golang.org/x/net/ipv6"
)

// Seams used only by the verification build (see /verif/DESIGN.md §2.1). The
// staged copy of NewAddresser consults verifAddresser; the staged copy of
// (*Dialer).dial calls the three functions below, which default to the
// original functions.

var (
	verifMu   sync.RWMutex // the seams are set by the harness while leftover goroutines of an earlier run may still read them
	verifAddr Addresser
	verifSeam struct {
		lookup func(string) (*net.Interface, error)
		check  func(*net.Interface, func() ([]net.Addr, error)) error
		dial   func(*net.Interface) (VerifNDPConn, netip.Addr, error)
		byName func(string) (*net.Interface, error)
	}
)

// verifAddresser returns the fake Addresser NewAddresser must return, or nil.
func verifAddresser() Addresser {
	verifMu.RLock()
	defer verifMu.RUnlock()
	return verifAddr
}

// VerifSetAddresser installs (or with nil removes) a fake Addresser returned
// by NewAddresser.
func VerifSetAddresser(a Addresser) {
	verifMu.Lock()
	verifAddr = a
	verifMu.Unlock()
}

// A verifNDPConn is what dial() needs from the value dialNDP returns.
type verifNDPConn interface {
	Conn
	LeaveGroup(group netip.Addr) error
	Close() error
}

// VerifNDPConn is the exported name of verifNDPConn for harnesses in other packages.
type VerifNDPConn = verifNDPConn

func verifLookupInterface(iface string) (*net.Interface, error) {
	verifMu.RLock()
	f := verifSeam.lookup
	verifMu.RUnlock()
	if f == nil {
		return lookupInterface(iface)
	}
	return f(iface)
}

func verifCheckInterface(ifi *net.Interface, addrFunc func() ([]net.Addr, error)) error {
	verifMu.RLock()
	f := verifSeam.check
	verifMu.RUnlock()
	if f == nil {
		return checkInterface(ifi, addrFunc)
	}
	return f(ifi, addrFunc)
}

func verifDialNDP(ifi *net.Interface) (verifNDPConn, netip.Addr, error) {
	verifMu.RLock()
	f := verifSeam.dial
	verifMu.RUnlock()
	if f == nil {
		c, ip, err := dialNDP(ifi)
		if err != nil {
			return nil, ip, err
		}
		return c, ip, nil
	}
	return f(ifi)
}

// VerifSetDialSeams replaces (nil: restores) the three functions (*Dialer).dial
// calls to find, check and open the interface.
func VerifSetDialSeams(
	lookup func(string) (*net.Interface, error),
	check func(*net.Interface, func() ([]net.Addr, error)) error,
	dial func(*net.Interface) (VerifNDPConn, netip.Addr, error),
) {
	verifMu.Lock()
	verifSeam.lookup, verifSeam.check, verifSeam.dial = lookup, check, dial
	verifMu.Unlock()
}

// verifInterfaceByName stands in for net.InterfaceByName inside the staged copy of
// lookupInterface.
func verifInterfaceByName(name string) (*net.Interface, error) {
	verifMu.RLock()
	f := verifSeam.byName
	verifMu.RUnlock()
	if f == nil {
		return net.InterfaceByName(name)
	}
	return f(name)
}

// VerifSetInterfaceByName replaces (nil: restores) net.InterfaceByName as seen by
// lookupInterface.
func VerifSetInterfaceByName(f func(string) (*net.Interface, error)) {
	verifMu.Lock()
	verifSeam.byName = f
	verifMu.Unlock()
}

// A verifListenConn is what dialNDP and its callers need from the *ndp.Conn that
// ndp.Listen returns.
type verifListenConn interface {
	verifNDPConn
	SetICMPFilter(f *ipv6.ICMPFilter) error
	SetControlMessage(cf ipv6.ControlFlags, on bool) error
	JoinGroup(group netip.Addr) error
}

// VerifListenConn is the exported name of verifListenConn.
type VerifListenConn = verifListenConn

var verifListen func(*net.Interface, ndp.Addr) (verifListenConn, netip.Addr, error)

// verifNDPListen stands in for ndp.Listen inside the staged copy of dialNDP.
func verifNDPListen(ifi *net.Interface, addr ndp.Addr) (verifListenConn, netip.Addr, error) {
	verifMu.RLock()
	f := verifListen
	verifMu.RUnlock()
	if f == nil {
		c, ip, err := ndp.Listen(ifi, addr)
		if err != nil {
			return nil, ip, err
		}
		return c, ip, nil
	}
	return f(ifi, addr)
}

// VerifSetNDPListen replaces (nil: restores) ndp.Listen as seen by dialNDP.
func VerifSetNDPListen(f func(*net.Interface, ndp.Addr) (VerifListenConn, netip.Addr, error)) {
	verifMu.Lock()
	verifListen = f
	verifMu.Unlock()
}
