//go:build verif

package system

import (
	"net"
	"net/netip"
)

// Seams used only by the verification build (see /verif/DESIGN.md §2.1). The
// staged copy of NewAddresser consults verifAddresser; the staged copy of
// (*Dialer).dial calls the three function variables below, which default to
// the original functions.

var verifAddresser Addresser

// VerifSetAddresser installs (or with nil removes) a fake Addresser returned
// by NewAddresser.
func VerifSetAddresser(a Addresser) { verifAddresser = a }

// A verifNDPConn is what dial() needs from the value dialNDP returns.
type verifNDPConn interface {
	Conn
	LeaveGroup(group netip.Addr) error
	Close() error
}

var (
	verifLookupInterface = lookupInterface
	verifCheckInterface  = checkInterface
	verifDialNDP         = func(ifi *net.Interface) (verifNDPConn, netip.Addr, error) {
		c, ip, err := dialNDP(ifi)
		if err != nil {
			return nil, ip, err
		}
		return c, ip, nil
	}
)

// VerifNDPConn is the exported name of verifNDPConn for harnesses in other packages.
type VerifNDPConn = verifNDPConn

// VerifSetDialSeams replaces (nil: restores) the three functions (*Dialer).dial
// calls to find, check and open the interface.
func VerifSetDialSeams(
	lookup func(string) (*net.Interface, error),
	check func(*net.Interface, func() ([]net.Addr, error)) error,
	dial func(*net.Interface) (VerifNDPConn, netip.Addr, error),
) {
	verifLookupInterface, verifCheckInterface = lookupInterface, checkInterface
	verifDialNDP = func(ifi *net.Interface) (verifNDPConn, netip.Addr, error) {
		c, ip, err := dialNDP(ifi)
		if err != nil {
			return nil, ip, err
		}
		return c, ip, nil
	}
	if lookup != nil {
		verifLookupInterface = lookup
	}
	if check != nil {
		verifCheckInterface = check
	}
	if dial != nil {
		verifDialNDP = dial
	}
}
