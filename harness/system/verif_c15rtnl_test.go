//go:build verif && linux

package system

import (
	"errors"
	"fmt"
	"net"
	"net/netip"
	"sort"
	"testing"

	"github.com/jsimonetti/rtnetlink"
	"github.com/mdlayher/corerad/verifrt/enum"
	"github.com/mdlayher/corerad/verifrt/ev"
	"github.com/mdlayher/ndp"
	"github.com/mdlayher/netlink"
	"golang.org/x/sys/unix"
)

// C15, where "the IPv6 loopback routes" come from: the real LoopbackRoutes /
// routesByIndex (anchor: "loopback route dump (main table, all up loopback interfaces)")
// over a scripted interface list (net.Interfaces goes through a seam in the staged copy)
// and a scripted rtnetlink reply per interface (the `execute` field the type has for this).
// Every subset of a 5-interface menu in every order is listed; each up loopback interface
// answers with its own routes.

type c15Ifi struct {
	Name   string
	Index  int
	Flags  net.Flags
	Routes []string // prefix[,pref] the kernel returns for this OutIface
	Fail   bool     // the route dump for this interface fails
}

var c15Menu = []c15Ifi{
	// (routes sharing a base address at different lengths, the longer one first and last)
	{Name: "lo", Index: 1, Flags: net.FlagUp | net.FlagLoopback, Routes: []string{"2001:db8:1::/64", "2001:db8:1::/48", "2001:db8:1:2::/64,high", "fd00::1/128", "fd00::/64"}},
	{Name: "lo2", Index: 7, Flags: net.FlagUp | net.FlagLoopback | net.FlagMulticast, Routes: []string{"2001:db8:2::/56,low", "2001:db8:2::/64", "2001:db8:2::/56,low"}},
	{Name: "lo-down", Index: 8, Flags: net.FlagLoopback, Routes: []string{"2001:db8:8::/48"}},
	{Name: "eth0", Index: 2, Flags: net.FlagUp | net.FlagBroadcast | net.FlagMulticast, Routes: []string{"2001:db8:e::/48"}},
	{Name: "lo-empty", Index: 9, Flags: net.FlagUp | net.FlagLoopback},
}

func c15RouteMsgs(ifi c15Ifi) []rtnetlink.Message {
	var out []rtnetlink.Message
	for _, r := range ifi.Routes {
		var pref *uint8
		s := r
		for i := range r {
			if r[i] == ',' {
				s = r[:i]
				v := uint8(map[string]ndp.Preference{"high": ndp.High, "low": ndp.Low}[r[i+1:]])
				pref = &v
			}
		}
		p := netip.MustParsePrefix(s)
		// the kernel's route types vary (unicast, and the unreachable / blackhole / prohibit /
		// throw aggregates an operator anchors on lo): a loopback route of any type counts
		types := []uint8{0, unix.RTN_UNICAST, unix.RTN_UNREACHABLE, unix.RTN_BLACKHOLE, unix.RTN_PROHIBIT, unix.RTN_THROW}
		out = append(out, &rtnetlink.RouteMessage{
			Family: unix.AF_INET6, DstLength: uint8(p.Bits()), Table: unix.RT_TABLE_MAIN, Type: types[len(out)%len(types)],
			Attributes: rtnetlink.RouteAttributes{Dst: p.Addr().AsSlice(), OutIface: uint32(ifi.Index), Table: unix.RT_TABLE_MAIN, Pref: pref},
		})
	}
	return out
}

func TestVerifC15Rtnl(t *testing.T) {
	r := ev.Begin("C15", "rtnl")
	defer r.End(t)
	r.Rule = "the real addresser.LoopbackRoutes/routesByIndex over a scripted interface list and scripted rtnetlink replies: all subsets (<=4) of a 5-interface menu {loopback up with 5 routes (a /128, one with a kernel preference, two pairs sharing a base address at different lengths), second loopback up (a same-base pair and a route listed twice), loopback down, non-loopback up, loopback up without routes} in all permutations, x {no failure, the dump of one listed up loopback interface fails}, + failing interface listing; the scripted kernel holds every listed interface's main-table routes (of types unicast, unreachable, blackhole, prohibit, throw) plus one local-table route each and answers a dump filtered by the table / out-interface the request names; oracle: result = (as a set) the main-table routes of the up loopback interfaces with prefix, length, index and kernel preference (medium when absent) preserved, any failure is an error; non-trivial = >=1 up loopback interface and >=1 other; distinct = distinct ordered list x failure"
	r.Assumptions = []string{"net.Interfaces inside LoopbackRoutes replaced by a scripted list (AST rewrite in the staged copy); rtnetlink replies injected through the addresser's execute field"}
	defer VerifSetInterfaces(nil)
	seam := 0
	run := func(list []c15Ifi, failIdx int, listErr bool) {
		byIndex := map[int]c15Ifi{}
		var nis []net.Interface
		for _, i := range list {
			byIndex[i.Index] = i
			nis = append(nis, net.Interface{Index: i.Index, Name: i.Name, Flags: i.Flags, MTU: 1500})
		}
		VerifSetInterfaces(func() ([]net.Interface, error) {
			seam++
			if listErr {
				return nil, errors.New("verif: interface listing failed")
			}
			return nis, nil
		})
		// The scripted kernel holds, per listed interface, its main-table routes and one
		// route in the local table, and answers a dump the way a strict-checking kernel
		// does: filtered by the table and the out-interface the request names (if any).
		var npanicReq int
		a := &addresser{execute: func(m rtnetlink.Message, family uint16, fl netlink.HeaderFlags) ([]rtnetlink.Message, error) {
			rm, ok := m.(*rtnetlink.RouteMessage)
			if !ok || family != unix.RTM_GETROUTE || rm.Family != unix.AF_INET6 {
				npanicReq++
				return nil, &netlink.OpError{Op: "receive", Err: unix.EOPNOTSUPP}
			}
			table := rm.Attributes.Table
			if table == 0 {
				table = uint32(rm.Table)
			}
			oif := int(rm.Attributes.OutIface)
			if oif != 0 {
				if _, ok := byIndex[oif]; !ok {
					return nil, &netlink.OpError{Op: "receive", Err: unix.ENODEV}
				}
				if failIdx == oif {
					return nil, &netlink.OpError{Op: "receive", Err: unix.ENOBUFS}
				}
			} else if failIdx >= 0 {
				return nil, &netlink.OpError{Op: "receive", Err: unix.ENOBUFS}
			}
			var out []rtnetlink.Message
			for _, i := range list {
				if oif != 0 && i.Index != oif {
					continue
				}
				if table == 0 || table == unix.RT_TABLE_MAIN {
					out = append(out, c15RouteMsgs(i)...)
				}
				if table == 0 || table == unix.RT_TABLE_LOCAL {
					p := netip.MustParsePrefix(fmt.Sprintf("2001:db8:ff:%x::/64", i.Index))
					out = append(out, &rtnetlink.RouteMessage{Family: unix.AF_INET6, DstLength: 64, Table: unix.RT_TABLE_LOCAL,
						Attributes: rtnetlink.RouteAttributes{Dst: p.Addr().AsSlice(), OutIface: uint32(i.Index), Table: unix.RT_TABLE_LOCAL}})
				}
			}
			return out, nil
		}}
		var names []string
		nUp, nOther := 0, 0
		var want []Route
		wantErr := listErr
		for _, i := range list {
			names = append(names, i.Name)
			if i.Flags&net.FlagLoopback != 0 && i.Flags&net.FlagUp != 0 {
				nUp++
				if wantErr {
					continue
				}
				if failIdx == i.Index {
					wantErr = true
					continue
				}
				for _, m := range c15RouteMsgs(i) {
					rm := m.(*rtnetlink.RouteMessage)
					ip, _ := netip.AddrFromSlice(rm.Attributes.Dst)
					pref := ndp.Medium
					if rm.Attributes.Pref != nil {
						pref = ndp.Preference(*rm.Attributes.Pref)
					}
					want = append(want, Route{Prefix: netip.PrefixFrom(ip, int(rm.DstLength)), Index: i.Index, Preference: pref})
				}
			} else {
				nOther++
			}
		}
		desc := fmt.Sprintf("interfaces %v fail=%d listErr=%t", names, failIdx, listErr)
		r.Case(desc, nUp >= 1 && nOther >= 1)
		var (
			got []Route
			err error
			pv  any
		)
		func() {
			defer func() { pv = recover() }()
			got, err = a.LoopbackRoutes()
		}()
		bad := func(sig, format string, x ...any) {
			r.Violation(sig, desc+": "+fmt.Sprintf(format, x...), nil)
		}
		switch {
		case pv != nil:
			bad("C15:rtnl:panic", "%v", pv)
		case wantErr:
			if err == nil {
				bad("C15:rtnl:failure-swallowed", "a listing failed but LoopbackRoutes returned %v, nil", got)
			}
		case err != nil:
			bad("C15:rtnl:unexpected-error", "%v", err)
		default:
			key := func(rs []Route) string {
				var ks []string
				for _, x := range rs {
					ks = append(ks, fmt.Sprint(x))
				}
				sort.Strings(ks)
				// as a set: whether an exact duplicate of the dump is kept is not the statement's business
				var us []string
				for i, k := range ks {
					if i == 0 || k != ks[i-1] {
						us = append(us, k)
					}
				}
				return fmt.Sprint(us)
			}
			if key(got) != key(want) {
				bad("C15:rtnl:routes", "LoopbackRoutes = %v, want %v", got, want)
			}
		}
	}
	eq := func(a, b c15Ifi) bool { return a.Name == b.Name }
	enum.Subsets(len(c15Menu), 4, func(ix []int) bool {
		base := make([]c15Ifi, 0, len(ix))
		for _, i := range ix {
			base = append(base, c15Menu[i])
		}
		enum.Permutations(base, eq, func(p []c15Ifi) bool {
			list := append([]c15Ifi(nil), p...)
			run(list, -1, false)
			for _, i := range list {
				if i.Flags&net.FlagLoopback != 0 && i.Flags&net.FlagUp != 0 {
					run(list, i.Index, false)
				}
			}
			return true
		})
		return true
	})
	run([]c15Ifi{c15Menu[0]}, -1, true)
	if seam == 0 {
		r.Capped("LoopbackRoutes no longer lists interfaces through net.Interfaces: the seam is bypassed and this part decides nothing")
	}
}
