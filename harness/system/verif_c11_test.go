//go:build verif

package system

import (
	"context"
	"errors"
	"fmt"
	"io"
	"log"
	"net"
	"net/netip"
	"os"
	"strings"
	"syscall"
	"testing"
	"time"

	"github.com/mdlayher/corerad/verifrt/ev"
	"github.com/mdlayher/corerad/verifrt/vsched"
	"github.com/mdlayher/ndp"
	"golang.org/x/net/ipv6"
)

// C11 (cleanup exactly once, autoconf always restored) and C10 part 1 (dial
// policy: classification, <=50 attempts, back-off 0,250ms,...<=3s, prompt clean
// return on cancellation): the real Dialer.Dial with the real dial() running
// over fakes; every question the code asks its environment is an explorer
// choice (ENV-DFS), bounded by the number of non-default answers.

type c11Conn struct{ id int }

func (c *c11Conn) ReadFrom() (ndp.Message, *ipv6.ControlMessage, netip.Addr, error) {
	return nil, nil, netip.Addr{}, errors.New("unused")
}
func (c *c11Conn) SetReadDeadline(time.Time) error { return nil }
func (c *c11Conn) WriteTo(ndp.Message, *ipv6.ControlMessage, netip.Addr) error {
	return nil
}
func (c *c11Conn) LeaveGroup(netip.Addr) error {
	vsched.Obs("leave", "conn=%d", c.id)
	return nil
}
func (c *c11Conn) Close() error {
	vsched.Obs("close", "conn=%d", c.id)
	return nil
}

var (
	errEPERM  = os.NewSyscallError("open", syscall.EPERM)
	errENOENT = &os.PathError{Op: "open", Path: "/proc/sys/net/ipv6/conf/eth0/autoconf", Err: syscall.ENOENT}
	errEINVAL = os.NewSyscallError("socket", syscall.EINVAL)
	errOther  = errors.New("verif: some other failure")
)

type c11State struct {
	autoconf bool
	cancel   func()
}

// ask is an environment question with named answers; the last answer of every
// question is "cancel the context now, then answer ok".
func ask(st *c11State, label string, answers ...string) string {
	all := append(append([]string(nil), answers...), "cancel+"+answers[0])
	a := all[vsched.Choose(label, len(all))]
	vsched.Obs("answer", "%s=%s", label, a)
	if strings.HasPrefix(a, "cancel+") {
		st.cancel()
		return answers[0]
	}
	return a
}

func (s *c11State) IPv6Autoconf(iface string) (bool, error) {
	switch ask(s, "get-autoconf", "ok", "eperm", "enoent", "other") {
	case "eperm":
		vsched.Obs("get", "failed")
		return false, errEPERM
	case "enoent":
		vsched.Obs("get", "failed")
		return false, errENOENT
	case "other":
		vsched.Obs("get", "failed")
		return false, errOther
	}
	vsched.Obs("get", "%t", s.autoconf)
	return s.autoconf, nil
}
func (s *c11State) IPv6Forwarding(string) (bool, error) { return true, nil }
func (s *c11State) SetIPv6Autoconf(iface string, enable bool) error {
	a := ask(s, fmt.Sprintf("set-autoconf(%t)", enable), "ok", "eperm", "enoent", "other")
	vsched.Obs("set", "%t %s", enable, a)
	switch a {
	case "eperm":
		return errEPERM
	case "enoent":
		// The interface vanished; when it comes back (the next dial finds it) it has been
		// re-created, with the other autoconf value than before.
		s.autoconf = !s.autoconf
		vsched.Obs("recreated", "autoconf=%t", s.autoconf)
		return errENOENT
	case "other":
		return errOther
	}
	s.autoconf = enable
	return nil
}

type c11Case struct {
	Name     string     `json:"name"`
	Mode     DialerMode `json:"mode"`
	Autoconf bool       `json:"initial_autoconf"`
	Rounds   int        `json:"rounds"` // the task reports a link change (re-dial) this many times by default, then nil
	Script   string     `json:"script,omitempty"`
}

func c11Scenario(c c11Case) *vsched.Scenario {
	var (
		st      *c11State
		initial bool
		retErr  error
		retd    bool
		ctx     context.Context
	)
	sc := &vsched.Scenario{
		Name:    c.Name,
		Horizon: 20 * time.Minute,
		Setup: func(x *vsched.Exec) {
			retErr, retd = nil, false
			var cancel func()
			ctx, cancel = context.WithCancel(context.Background())
			st = &c11State{autoconf: c.Autoconf, cancel: func() { vsched.Obs("cancel", ""); cancel() }}
			initial = c.Autoconf
			nconn, nlookup, round := 0, 0, 0
			// The real lookupInterface and checkInterface run (they classify what the system
			// answers); net.InterfaceByName and the address listing are the scripted questions.
			noSuch := func() error {
				return &net.OpError{Op: "route", Net: "ip+net", Err: errors.New("no such network interface")}
			}
			VerifSetInterfaceByName(func(name string) (*net.Interface, error) {
				n := nlookup
				nlookup++
				vsched.Obs("attempt", "%d", n)
				up := &net.Interface{Index: 1, Name: name, Flags: net.FlagUp | net.FlagMulticast}
				if c.Script == "fail49" || c.Script == "fail50" {
					limit := 49
					if c.Script == "fail50" {
						limit = 1000
					}
					if n <= limit {
						return nil, noSuch()
					}
					return up, nil
				}
				switch ask(st, "lookup", "ok", "no-such", "down", "op-other", "other") {
				case "no-such":
					return nil, noSuch()
				case "down":
					return &net.Interface{Index: 1, Name: name, Flags: net.FlagMulticast}, nil
				case "op-other":
					return nil, &net.OpError{Op: "route", Net: "ip+net", Err: errors.New("permission denied")}
				case "other":
					return nil, errOther
				}
				return up, nil
			})
			ipn := func(s string) net.Addr {
				ip, n, err := net.ParseCIDR(s)
				if err != nil {
					panic(err)
				}
				n.IP = ip
				return n
			}
			VerifSetDialSeams(
				func(name string) (*net.Interface, error) { return lookupInterface(name) },
				func(ifi *net.Interface, _ func() ([]net.Addr, error)) error {
					return checkInterface(ifi, func() ([]net.Addr, error) {
						if ifi.Flags&net.FlagUp == 0 || c.Script != "" {
							return []net.Addr{ipn("fe80::1/64")}, nil
						}
						switch ask(st, "addrs", "ll", "gua-only", "v4-only", "none", "error") {
						case "gua-only":
							return []net.Addr{ipn("2001:db8::1/64")}, nil
						case "v4-only":
							return []net.Addr{ipn("192.0.2.1/24"), &net.IPAddr{IP: net.ParseIP("fe80::9")}}, nil
						case "none":
							return nil, nil
						case "error":
							return nil, errOther
						}
						return []net.Addr{ipn("192.0.2.1/24"), ipn("2001:db8::1/64"), ipn("fe80::1/64")}, nil
					})
				},
				func(*net.Interface) (VerifNDPConn, netip.Addr, error) {
					if c.Script == "" {
						switch ask(st, "dialNDP", "ok", "einval", "eperm", "other") {
						case "einval":
							return nil, netip.Addr{}, errEINVAL
						case "eperm":
							return nil, netip.Addr{}, errEPERM
						case "other":
							return nil, netip.Addr{}, errOther
						}
					}
					cn := &c11Conn{id: nconn}
					nconn++
					vsched.Obs("open", "conn=%d", cn.id)
					return cn, netip.MustParseAddr("fe80::1"), nil
				},
			)
			d := NewDialer("eth0", st, c.Mode, log.New(io.Discard, "", 0))
			x.Spawn("dial", func() {
				defer VerifSetDialSeams(nil, nil, nil)
				defer VerifSetInterfaceByName(nil)
				err := d.Dial(ctx, func(ctx context.Context, dctx *DialContext) error {
					round++
					vsched.Obs("task", "round=%d conn=%d", round, dctx.Conn.(*c11Conn).id)
					def := "link-change"
					if round > c.Rounds {
						def = "nil"
					}
					answers := []string{def}
					for _, a := range []string{"nil", "link-change", "syscall", "permission", "other", "wait-cancel"} {
						if a != def {
							answers = append(answers, a)
						}
					}
					a := ask(st, "task", answers...)
					vsched.Obs("task-result", "%s", a)
					switch a {
					case "link-change":
						return ErrLinkChange
					case "syscall":
						return fmt.Errorf("failed to run: %w", errEINVAL)
					case "permission":
						return fmt.Errorf("failed to run: %w", errEPERM)
					case "other":
						return errOther
					case "wait-cancel":
						st.cancel()
						<-ctx.Done()
						return nil
					}
					return nil
				})
				retErr, retd = err, true
				vsched.Obs("returned", "%v", err)
				x.Finish()
			})
		},
	}
	sc.Check = func(x *vsched.Exec) (out [][2]string) {
		return c11Check(c, x, initial, st, retd, retErr)
	}
	return sc
}

func c11Check(c c11Case, x *vsched.Exec, initial bool, st *c11State, retd bool, retErr error) (out [][2]string) {
	bad := func(sig, format string, args ...any) {
		out = append(out, [2]string{sig, fmt.Sprintf(format, args...)})
	}
	if x.Failure != "" {
		bad("Dial:"+x.FailKind, "%s", x.Failure)
		return out
	}
	if !retd {
		bad("Dial:did-not-return", "Dial did not return")
		return out
	}
	// --- C11: cleanup exactly once, before the next open / return; sysctl discipline.
	open := -1 // currently open connection
	leaves, closes := map[string]int{}, map[string]int{}
	var prev *bool         // value read at the current open
	disabled := false      // we wrote 'false' successfully since that open
	lastSetAfterOpen := "" // last set call since the current open
	getFailed := false     // the read of the sysctl since the current open failed
	cancelled := false
	var attempts []time.Duration
	var loopStart []bool // attempt i begins a new retry loop (first dial or after a task error)
	newLoop := true
	var taskErrs []string
	for _, e := range x.Log {
		switch e.Kind {
		case "cancel":
			cancelled = true
		case "attempt":
			attempts = append(attempts, e.T)
			loopStart = append(loopStart, newLoop)
			newLoop = false
			if open >= 0 {
				bad("C11:reopen-before-cleanup", "dial attempt while conn=%d is still open (no LeaveGroup/Close)", open)
				open = -1
			}
		case "open":
			fmt.Sscanf(e.Detail, "conn=%d", &open)
			prev, disabled, lastSetAfterOpen, getFailed = nil, false, "", false
		case "get":
			if c.Mode == Monitor {
				bad("C11:monitor-touches-sysctl", "monitor dialer read the autoconf sysctl")
			}
			if e.Detail != "failed" {
				v := e.Detail == "true"
				prev = &v
			} else {
				getFailed = true
			}
		case "set":
			if c.Mode == Monitor {
				bad("C11:monitor-touches-sysctl", "monitor dialer wrote the autoconf sysctl")
			}
			f := strings.Fields(e.Detail)
			// The first write after an open is the disable; it must happen while the
			// connection is held. Later writes (after the cleanup) are the restore.
			if lastSetAfterOpen == "" && (open < 0 || f[0] != "false") {
				bad("C11:disable-without-connection", "first autoconf write after a dial is %q with connection held=%t", e.Detail, open >= 0)
			}
			lastSetAfterOpen = e.Detail
			if f[0] == "false" && f[1] == "ok" {
				disabled = true
			}
		case "leave":
			leaves[e.Detail]++
		case "close":
			closes[e.Detail]++
			var id int
			fmt.Sscanf(e.Detail, "conn=%d", &id)
			if id == open {
				open = -1
			}
		case "task":
			// The dial succeeded and the task holds the connection: on an advertising
			// interface autoconfiguration is off now, or turning it off was attempted and
			// refused (every connection, also after a re-dial).
			if c.Mode == Advertise && st != nil {
				if prev == nil && !getFailed {
					bad("C11:autoconf-not-disabled", "the task runs on conn=%d but the autoconf sysctl was not even read for this connection", open)
				} else if prev != nil && *prev && lastSetAfterOpen == "" {
					bad("C11:autoconf-not-disabled", "the task runs on conn=%d with autoconf still enabled and no attempt to disable it", open)
				}
			}
		case "task-result":
			taskErrs = append(taskErrs, e.Detail)
			newLoop = e.Detail != "nil" && e.Detail != "wait-cancel"
			// After the task, cleanup must restore the value read at this open.
		case "returned":
			if open >= 0 {
				bad("C11:connection-leaked", "Dial returned while conn=%d was never cleaned up (LeaveGroup/Close)", open)
			}
		}
		// Restore discipline: checked when a connection gets closed.
		if e.Kind == "close" && c.Mode == Advertise {
			_ = disabled
		}
	}
	_, _ = lastSetAfterOpen, prev
	for k, n := range closes {
		if n != 1 || leaves[k] != 1 {
			bad("C11:cleanup-count", "%s closed %d times, left the group %d times", k, n, leaves[k])
		}
	}
	// Restore: replay the log per connection: after each close, the last set since
	// the matching open must be set(prev) when a value was read and a disable was attempted.
	{
		var pv *bool
		attempted := false
		last := ""
		lastOK := true
		restoreFailedOther := false
		for _, e := range x.Log {
			switch e.Kind {
			case "open":
				pv, attempted, last = nil, false, ""
			case "get":
				if e.Detail != "failed" {
					v := e.Detail == "true"
					pv = &v
				}
			case "set":
				f := strings.Fields(e.Detail)
				if f[0] == "false" && pv != nil && !attempted {
					attempted = true // the disable
					last = e.Detail
					continue
				}
				last = e.Detail
				lastOK = f[1] == "ok"
				if attempted && f[1] == "other" {
					restoreFailedOther = true
				}
			case "close":
				if c.Mode == Advertise && pv != nil && attempted && !strings.HasPrefix(last, "false ") && last != "" {
					f := strings.Fields(last)
					if f[0] != fmt.Sprint(*pv) {
						bad("C11:restored-wrong-value", "autoconf restored to %s, value before was %t", f[0], *pv)
					}
				}
			case "returned":
				// On every exit path, if we disabled autoconf, the last write must be the restore.
				if c.Mode == Advertise && attempted && pv != nil && strings.HasPrefix(last, "false ") && strings.HasSuffix(last, " ok") && *pv {
					// A disable that failed non-tolerably leaves no connection: then dial() failed and nothing is
					// to restore only if the write did not take effect; here it took effect.
					bad("C11:autoconf-not-restored", "Dial returned with autoconf left disabled (was %t before); last write %q", *pv, last)
				}
			}
		}
		_ = lastOK
		// "permission-denied and vanished-interface errors on restore are tolerated":
		// they must never surface as a cleanup failure.
		if retErr != nil && strings.Contains(retErr.Error(), "failed to clean up connection") && !restoreFailedOther {
			bad("C11:tolerated-restore-error-reported", "Dial returned %q although every failing restore was EPERM/ENOENT", retErr)
		}
		if restoreFailedOther && retErr == nil {
			// "any other restore error is reported"
			bad("C11:restore-error-swallowed", "a restore failed with a non-tolerated error but Dial returned nil")
		}
	}
	if st.autoconf != initial {
		// Host state differs from what it was: only acceptable if a write we needed was refused.
		refused := false
		for _, e := range x.Log {
			if e.Kind == "set" && !strings.HasSuffix(e.Detail, " ok") {
				refused = true
			}
		}
		if !refused {
			bad("C11:autoconf-not-restored", "autoconf is %t after Dial returned, was %t, and no write was refused", st.autoconf, initial)
		}
	}

	// --- C10 part 1: classification. After a recoverable cause (interface missing, down or
	// without a link-local address; a non-permission system call error; a link change)
	// the next thing Dial does is dial again; after any other failure it returns an error
	// without dialling again. (Skipped from a cancellation on: then a prompt nil is right.
	// A cleanup failure in between legitimately turns a re-dial into an error return.)
	recoverable := map[string]bool{"lookup=no-such": true, "lookup=down": true, "addrs=gua-only": true, "addrs=v4-only": true, "addrs=none": true,
		"dialNDP=einval": true, "task=link-change": true, "task=syscall": true}
	fatal := map[string]bool{"lookup=op-other": true, "lookup=other": true, "addrs=error": true, "dialNDP=eperm": true, "dialNDP=other": true,
		"task=permission": true, "task=other": true}
	// What decides is the cause that tore the task down (or failed the very first dial): a
	// failure of a re-dial *inside* a back-off loop that is not itself recoverable is a
	// not a new cause: the task "is re-established with bounded back-off (at most 50 attempts)",
	// so the loop goes on to its next attempt whatever kind of failure one attempt reports.
	if c.Script == "" {
		pending, nattempt, inLoop := "", 0, false
		loopFail, nLoop := "", 0
	classify:
		for _, e := range x.Log {
			switch e.Kind {
			case "cancel":
				break classify
			case "task":
				inLoop, loopFail, nLoop = false, "", 0 // the dial succeeded completely: the task runs
			case "answer":
				if recoverable[e.Detail] || (fatal[e.Detail] && !inLoop) {
					pending = e.Detail
				}
				if fatal[e.Detail] && inLoop {
					loopFail = e.Detail
				}
			case "attempt":
				nattempt++
				if fatal[pending] {
					bad("C10:classification:retried-fatal", "after %q (not a recoverable cause) the interface was dialled again", pending)
				}
				if pending != "" {
					inLoop = true
				}
				if inLoop {
					nLoop++
				}
				pending, loopFail = "", ""
			case "returned":
				if recoverable[pending] && nattempt <= 50 && !strings.Contains(e.Detail, "failed to clean up") {
					bad("C10:classification:gave-up-recoverable", "after %q (a recoverable cause) Dial returned %s instead of dialling again", pending, e.Detail)
				}
				if loopFail != "" && pending == "" && nLoop < 50 && e.Detail != "<nil>" && !strings.Contains(e.Detail, "failed to clean up") {
					bad("C10:classification:gave-up-inside-back-off", "the task failed for a recoverable cause; re-dial attempt %d of at most 50 failed with %q and Dial returned %s instead of going on to the next attempt", nLoop, loopFail, e.Detail)
				}
				if fatal[pending] && e.Detail == "<nil>" {
					bad("C10:classification:fatal-not-reported", "after %q Dial returned nil", pending)
				}
			}
		}
	}

	// --- C10 part 1: policy. Back-off between consecutive attempts of one retry loop.
	k := 0
	for i := range attempts {
		if loopStart[i] {
			// The very first dial is not a retry; after a task error the first dial of
			// the loop is retry 0 (no wait required by the statement before it).
			k = 0
			if i > 0 {
				k = 1
			}
			continue
		}
		// attempt i is the k-th retry (0-based) of its loop: preceded by a wait of min(k*250ms, 3s).
		want := time.Duration(k) * 250 * time.Millisecond
		if want > 3*time.Second {
			want = 3 * time.Second
		}
		if i > 0 {
			if got := attempts[i] - attempts[i-1]; got != want {
				bad("C10:back-off", "retry %d of a loop came %s after the previous attempt, want %s", k, got, want)
			}
		}
		k++
		if k > 50 {
			bad("C10:too-many-attempts", "more than 50 retries in one loop")
		}
	}
	if c.Script == "fail49" && (retErr != nil || len(attempts) != 51) {
		bad("C10:attempt-budget", "49 failing retries then success: Dial returned %v after %d attempts", retErr, len(attempts))
	}
	if c.Script == "fail50" && (retErr == nil || len(attempts) != 51) {
		bad("C10:attempt-budget", "50 failing retries: Dial returned %v after %d attempts (want an error after 1+50)", retErr, len(attempts))
	}
	if cancelled {
		var cancelT, retT time.Duration
		for _, e := range x.Log {
			if e.Kind == "cancel" && cancelT == 0 {
				cancelT = e.T
			}
			if e.Kind == "returned" {
				retT = e.T
			}
		}
		if retT-cancelT > 0 && retErr == nil {
			// returned nil but only after waiting: not prompt
			bad("C10:cancel-not-prompt", "Dial returned %s after cancellation", retT-cancelT)
		}
	}
	return out
}

func TestVerifC11(t *testing.T) {
	r := ev.Begin("C11", "envdfs")
	defer r.End(t)
	r.Rule = "executions = every sequence of environment answers with at most K non-default answers, asked by the real Dialer.Dial -> init -> dial() -> setAutoconf -> task -> done -> restore over fakes: net.InterfaceByName under the real lookupInterface {ok, no such interface, down, other OpError, other}, address listing under the real checkInterface {with link-local, global only, IPv4 only, none, error}, dialNDP {ok, EINVAL, EPERM, other}, autoconf get/disable/restore {ok, EPERM, ENOENT, other}, task outcome {link change, nil, syscall, permission, other, wait for cancel}, plus 'cancel the context now' at every question; x mode {advertise, monitor} x initial autoconf {on, off} x default re-dial rounds {1,2,3}; plus the scripted lines '49 failures then ok' and '50 failures'; oracle: invariants over the call log (cleanup exactly once before the next open / return, sysctl written only while a connection is held, restored to the value read at that open on every exit path, restore errors other than EPERM/ENOENT reported, monitor never touches it) and the dial policy (classification: recoverable causes are re-dialled, others returned as errors; back-off 0,250ms,...<=3s in virtual time, <=50 retries, prompt nil on cancel)"
	bound := 2
	if r.Thorough() {
		bound = 3
	}
	var cases []c11Case
	for _, mode := range []DialerMode{Advertise, Monitor} {
		for _, ac := range []bool{true, false} {
			for _, rounds := range []int{1, 2, 3} {
				if mode == Monitor && (!ac || rounds == 3) {
					continue
				}
				m := "advertise"
				if mode == Monitor {
					m = "monitor"
				}
				cases = append(cases, c11Case{Name: fmt.Sprintf("%s/autoconf=%t/rounds=%d", m, ac, rounds), Mode: mode, Autoconf: ac, Rounds: rounds})
			}
		}
	}
	cases = append(cases, c11Case{Name: "advertise/fail49", Mode: Advertise, Autoconf: true, Script: "fail49"}, c11Case{Name: "advertise/fail50", Mode: Advertise, Autoconf: true, Script: "fail50"})
	exploreCasesSys(t, r, cases, bound)
}
