//go:build verif

package system

import (
	"encoding/json"
	"fmt"
	"os"
	"strconv"
	"strings"
	"testing"

	"github.com/mdlayher/corerad/verifrt/ev"
	"github.com/mdlayher/corerad/verifrt/vsched"
)

type c11Replay struct {
	Case    c11Case `json:"case"`
	Choices []int   `json:"choices"`
}

func exploreCasesSys(t *testing.T, r *ev.Run, cases []c11Case, bound int) {
	if r.Replay != nil {
		var rp c11Replay
		if err := json.Unmarshal(r.Replay, &rp); err != nil {
			t.Fatalf("bad replay: %v", err)
		}
		sc := c11Scenario(rp.Case)
		x := vsched.RunOnce(t, sc, rp.Choices)
		r.Case(rp.Case.Name+fmt.Sprint(rp.Choices), true)
		r.Sample(rp)
		fmt.Printf("replay %s choices %v\n%s", rp.Case.Name, rp.Choices, x.LogString())
		for _, v := range sc.Check(x) {
			r.Violation(v[0], v[1], rp)
		}
		return
	}
	if s := os.Getenv("VERIF_BOUND"); s != "" {
		bound, _ = strconv.Atoi(s)
	}
	for _, c := range cases {
		c := c
		sc := c11Scenario(c)
		a, b := vsched.RunOnce(t, sc, nil), vsched.RunOnce(t, sc, nil)
		if a.Outcome() != b.Outcome() {
			r.Violation("MACHINERY:nondeterminism", "case "+c.Name+": default answers not reproducible", nil)
			continue
		}
		bnd := bound
		if c.Script != "" {
			bnd = 0
		}
		n := 0
		st := vsched.Explore(t, sc, vsched.Options{Bound: bnd, Shard: r.Shard, Shards: r.Shards,
			OnExec: func(x *vsched.Exec, viol [][2]string) {
				n++
				var answers []string
				for _, e := range x.Log {
					if e.Kind == "answer" {
						answers = append(answers, e.Detail)
					}
				}
				r.Case(c.Name+fmt.Sprint(x.Choices()), x.Deviations() > 0)
				r.Outcome(x.Log[len(x.Log)-1].Detail)
				if n <= 2 || x.Deviations() == bnd && n%997 == 0 {
					r.Sample(map[string]any{"case": c.Name, "answers": answers})
				}
				for _, v := range viol {
					r.Violation(v[0], "case "+c.Name+" answers ["+strings.Join(answers, ", ")+"]: "+v[1]+"\n"+x.LogString(), c11Replay{Case: c, Choices: x.Choices()})
				}
			}})
		r.Count("transitions", st.Transitions)
		r.Max("max_depth", int64(st.MaxDepth))
		if st.Capped != "" {
			r.Capped(st.Capped)
		}
	}
	r.Max("max_nondefault_answers", int64(bound))
}
