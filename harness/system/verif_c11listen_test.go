//go:build verif

package system

import (
	"errors"
	"fmt"
	"net"
	"net/netip"
	"testing"
	"time"

	"github.com/mdlayher/corerad/verifrt/ev"
	"github.com/mdlayher/ndp"
	"golang.org/x/net/ipv6"
)

// C11, the first steps of a connection's life: the real dialNDP (open the ICMPv6 socket,
// set the filter, enable hop-limit control messages, join the all-routers group) runs over
// a scripted socket (ndp.Listen goes through a seam in the staged copy of conn.go). A
// socket that was opened is a connection CoreRAD opened: when a later step of dialNDP
// fails and the dial is reported as failed, that socket must have been closed - nobody
// else will ever see it.

type lsConn struct {
	failAt         string
	nclose, nleave int
	steps          []string
	usedAfterClose bool
}

func (c *lsConn) step(name string) error {
	if c.nclose > 0 {
		c.usedAfterClose = true
	}
	c.steps = append(c.steps, name)
	if c.failAt == name {
		return errors.New("verif: " + name + " failed")
	}
	return nil
}

func (c *lsConn) SetICMPFilter(*ipv6.ICMPFilter) error            { return c.step("filter") }
func (c *lsConn) SetControlMessage(ipv6.ControlFlags, bool) error { return c.step("control-message") }
func (c *lsConn) JoinGroup(netip.Addr) error                      { return c.step("join") }
func (c *lsConn) LeaveGroup(netip.Addr) error                     { c.nleave++; return nil }
func (c *lsConn) Close() error                                    { c.nclose++; return nil }
func (c *lsConn) SetReadDeadline(time.Time) error                 { return nil }
func (c *lsConn) ReadFrom() (ndp.Message, *ipv6.ControlMessage, netip.Addr, error) {
	return nil, nil, netip.Addr{}, errors.New("verif: not used")
}
func (c *lsConn) WriteTo(ndp.Message, *ipv6.ControlMessage, netip.Addr) error { return nil }

func TestVerifC11Listen(t *testing.T) {
	r := ev.Begin("C11", "listen")
	defer r.End(t)
	r.Rule = "the real dialNDP over a scripted socket: the step that fails in {none, opening the socket, ICMPv6 filter, control-message flag, joining the all-routers group, any step name the code calls}; oracle: a failed dialNDP leaves no open socket behind (a socket that was opened has been closed exactly once and not used after), a successful one returns the opened socket unclosed; non-trivial = a step after the opening fails; distinct = distinct failing step"
	r.Assumptions = []string{"ndp.Listen inside dialNDP replaced by a scripted socket (AST rewrite in the staged copy; dialNDP's first result type becomes an interface)"}
	defer VerifSetNDPListen(nil)
	ifi := &net.Interface{Index: 2, Name: "eth0", Flags: net.FlagUp | net.FlagMulticast, MTU: 1500}
	seam := 0
	// First learn the steps a successful dialNDP performs, then fail each of them.
	probe := &lsConn{}
	VerifSetNDPListen(func(*net.Interface, ndp.Addr) (VerifListenConn, netip.Addr, error) {
		seam++
		return probe, netip.MustParseAddr("fe80::1"), nil
	})
	c, ip, err := dialNDP(ifi)
	r.Case("no failure", false)
	if seam == 0 {
		r.Capped("dialNDP no longer opens its socket through ndp.Listen: the seam is bypassed and this part decides nothing")
		return
	}
	if err != nil || c == nil || ip != netip.MustParseAddr("fe80::1") || probe.nclose != 0 {
		r.Violation("C11:listen:success", fmt.Sprintf("dialNDP over a socket on which every step succeeds: conn=%v ip=%s err=%v closed=%d", c, ip, err, probe.nclose), nil)
		return
	}
	{
		VerifSetNDPListen(func(*net.Interface, ndp.Addr) (VerifListenConn, netip.Addr, error) {
			return nil, netip.Addr{}, errors.New("verif: socket: permission denied")
		})
		c, _, err := dialNDP(ifi)
		r.Case("opening the socket fails", false)
		if err == nil || c != nil {
			r.Violation("C11:listen:open-failure-swallowed", fmt.Sprintf("opening the socket failed but dialNDP returned conn=%v err=%v", c, err), nil)
		}
	}
	for _, st := range probe.steps {
		fc := &lsConn{failAt: st}
		VerifSetNDPListen(func(*net.Interface, ndp.Addr) (VerifListenConn, netip.Addr, error) {
			return fc, netip.MustParseAddr("fe80::1"), nil
		})
		c, _, err := dialNDP(ifi)
		r.Case("step "+st+" fails", true)
		switch {
		case err == nil:
			// Tolerating a failed step is not C11's business; the socket then stays open.
			if fc.nclose != 0 || c == nil {
				r.Violation("C11:listen:success", fmt.Sprintf("step %s failed, dialNDP reported success but conn=%v closed=%d", st, c, fc.nclose), nil)
			}
		case fc.nclose != 1 || fc.usedAfterClose:
			r.Violation("C11:listen:socket-leaked", fmt.Sprintf("step %q of dialNDP failed (%v): the socket it had opened was closed %d times (want exactly once), used after close: %t; steps: %v", st, err, fc.nclose, fc.usedAfterClose, fc.steps), map[string]string{"failing_step": st})
		}
	}
}
