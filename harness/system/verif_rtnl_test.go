//go:build verif && linux

package system

import (
	"errors"
	"fmt"
	"net/netip"
	"syscall"
	"testing"

	"github.com/jsimonetti/rtnetlink"
	"github.com/mdlayher/corerad/verifrt/ev"
	"github.com/mdlayher/netlink"
	"golang.org/x/sys/unix"
)

// C13, "a failure to list addresses fails RA generation rather than silently advertising
// nothing", at the last link before the kernel: the real Addresser that Prepare installs
// (NewAddresser -> AddressesByIndex -> rtnlExecute) runs over a scripted netlink
// connection (the staged rtnlExecute dials through verifRtnlDial). Every answer the
// socket can give - the dial fails, the request fails, the close fails, 0..2 addresses
// come back - is enumerated.

type rtnlScript struct {
	DialErr  string `json:"dial_error,omitempty"`
	ExecErr  string `json:"request_error,omitempty"`
	CloseErr bool   `json:"close_fails,omitempty"`
	NMsgs    int    `json:"addresses"`
}

type rtnlFake struct {
	s              rtnlScript
	nexec, nclose  int
	execAfterClose bool
}

var rtnlErrnos = map[string]syscall.Errno{"ENODEV": syscall.ENODEV, "ENOBUFS": syscall.ENOBUFS, "EINTR": syscall.EINTR, "EPERM": syscall.EPERM, "EMFILE": syscall.EMFILE}

func (f *rtnlFake) Close() error {
	f.nclose++
	if f.s.CloseErr {
		return errors.New("verif: close failed")
	}
	return nil
}

func (f *rtnlFake) Execute(m rtnetlink.Message, family uint16, flags netlink.HeaderFlags) ([]rtnetlink.Message, error) {
	f.nexec++
	if f.nclose > 0 {
		f.execAfterClose = true
	}
	if f.s.ExecErr != "" {
		return nil, &netlink.OpError{Op: "receive", Err: rtnlErrnos[f.s.ExecErr]}
	}
	var out []rtnetlink.Message
	for i := 0; i < f.s.NMsgs; i++ {
		out = append(out, &rtnetlink.AddressMessage{
			Family: unix.AF_INET6, PrefixLength: 64, Index: 2,
			Attributes: &rtnetlink.AddressAttributes{Address: netip.MustParseAddr(fmt.Sprintf("2001:db8:%d::1", i+1)).AsSlice()},
		})
	}
	return out, nil
}

func TestVerifC13Rtnl(t *testing.T) {
	r := ev.Begin("C13", "rtnl")
	defer r.End(t)
	r.Rule = "the real NewAddresser().AddressesByIndex over a scripted netlink connection: dial {ok, EPERM, EMFILE} x request {ok, ENODEV, ENOBUFS, EINTR} x close {ok, fails} x reply of {0, 1, 2} addresses (72 scripts); oracle: an error iff the dial or the request failed (a failing close after a good reply: either), the reply's addresses are returned in order; non-trivial = every script; distinct = distinct script"
	r.Assumptions = []string{"rtnetlink.Dial inside rtnlExecute replaced by a scripted connection (AST rewrite in the staged copy); the kernel's own netlink behaviour is not modelled"}
	VerifSetAddresser(nil)
	defer VerifSetRtnlDial(nil)
	dialled := 0
	for _, de := range []string{"", "EPERM", "EMFILE"} {
		for _, ee := range []string{"", "ENODEV", "ENOBUFS", "EINTR"} {
			for _, ce := range []bool{false, true} {
				for n := 0; n <= 2; n++ {
					s := rtnlScript{DialErr: de, ExecErr: ee, CloseErr: ce, NMsgs: n}
					f := &rtnlFake{s: s}
					VerifSetRtnlDial(func(*netlink.Config) (VerifRtnlConn, error) {
						dialled++
						if s.DialErr != "" {
							return nil, &netlink.OpError{Op: "dial", Err: rtnlErrnos[s.DialErr]}
						}
						return f, nil
					})
					r.Case(ev.JSON(s), true)
					var (
						ips []IP
						err error
						pv  any
					)
					func() {
						defer func() { pv = recover() }()
						ips, err = NewAddresser().AddressesByIndex(2)
					}()
					bad := func(sig, format string, a ...any) {
						r.Violation(sig, ev.JSON(s)+": "+fmt.Sprintf(format, a...), s)
					}
					if pv != nil {
						bad("C13:rtnl:panic", "%v", pv)
						continue
					}
					switch {
					case de != "" || ee != "":
						if err == nil {
							bad("C13:rtnl:listing-failure-swallowed", "the address listing failed (dial %q, request %q) but AddressesByIndex returned %v, nil", de, ee, ips)
						}
					case ce:
						// don't care whether a failing close after a complete reply is reported
					default:
						if err != nil {
							bad("C13:rtnl:unexpected-error", "%v", err)
						} else if len(ips) != n {
							bad("C13:rtnl:addresses-lost", "%d addresses returned, the reply had %d", len(ips), n)
						} else {
							for i, ip := range ips {
								if want := fmt.Sprintf("2001:db8:%d::1/64", i+1); ip.Address.String() != want {
									bad("C13:rtnl:addresses-changed", "address %d is %s, want %s", i, ip.Address, want)
								}
							}
						}
					}
					// (How the connection is released is not part of C13's statement; counted only.)
					if de == "" && (f.nclose != 1 || f.execAfterClose) {
						r.Count("scripts_with_connection_not_closed_exactly_once", 1)
					}
				}
			}
		}
	}
	if dialled == 0 {
		r.Capped("rtnlExecute no longer dials through rtnetlink.Dial: the netlink seam is bypassed and this part decides nothing")
	}
}
