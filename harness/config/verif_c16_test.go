//go:build verif

package config_test

import (
	"encoding/json"
	"fmt"
	"github.com/mdlayher/corerad/internal/config"
	"github.com/mdlayher/corerad/verifrt/ref"
	"strings"
	"testing"
	"time"

	"github.com/mdlayher/corerad/internal/plugin"
	"github.com/mdlayher/corerad/internal/system"
	"github.com/mdlayher/corerad/verifrt/enum"
	"github.com/mdlayher/corerad/verifrt/ev"
	"github.com/mdlayher/ndp"
)

// C16: deprecated prefixes/routes advertise max(0, epoch+configured-t) at every
// clock reading t, never increase, never negative, zero from the deadline on,
// preferred <= valid at every instant; non-deprecated ones are constant.
// Documents go through the real config.Parse; the clock is the plugin's
// injected TimeNow, which hands out one reading per call (so a plugin reading
// the clock twice within one RA sees two successive readings).

type c16Case struct {
	Epoch    int      `json:"epoch"`      // index into c16Epochs
	Life     int      `json:"lifetimes"`  // index into c16Lifes
	Kind     string   `json:"kind"`       // prefix | prefix-auto | route | route-auto
	Dep      bool     `json:"deprecated"` // stanza deprecated?
	Offsets  []string `json:"clock"`      // successive clock readings, relative to epoch (durations)
	PerApply int      `json:"readings_per_apply"`
	// FailAt: the wildcard's address / route source fails during this build (0-based;
	// absent = never). The earlier builds succeeded.
	FailAt *int `json:"source_fails_at_build,omitempty"`
	// AbsentAt: during this build the interface has no (usable) address in the /64 / the
	// loopback route is not there (it appears later, or goes away and comes back); the
	// deadline of a deprecated wildcard stanza does not depend on when a network was seen.
	AbsentAt *int `json:"network_absent_at_build,omitempty"`
	// Group: the stanza belongs to an [[interfaces]] block with names = [eth0, eth1, eth2];
	// the plugin of the LAST interface of the group is the one judged.
	Group bool `json:"names_group,omitempty"`
}

var c16Epochs = []time.Time{
	time.Unix(1, 0),
	time.Date(2000, 1, 1, 0, 0, 0, 500_000_000, time.UTC),
}

type c16Life struct{ Valid, Pref time.Duration }

var c16Lifes = []c16Life{
	{10 * time.Second, 10 * time.Second},
	{10 * time.Second, 4 * time.Second},
	{time.Hour, time.Nanosecond},
	{ndp.Infinity - time.Second, time.Second},
}

func c16Instants(l c16Life) []time.Duration {
	return []time.Duration{
		-time.Second, 0, 1,
		l.Pref - 1, l.Pref, l.Pref + 1,
		l.Valid - 1, l.Valid, l.Valid + 1,
		10 * l.Valid,
	}
}

func c16Doc(c c16Case) ref.Doc {
	l := c16Lifes[c.Life]
	ifi := ref.Iface{Scalars: ref.Table{"name": "eth0", "advertise": true}}
	if c.Group {
		ifi.Scalars = ref.Table{"names": []string{"eth0", "eth1", "eth2"}, "advertise": true}
	}
	switch c.Kind {
	case "prefix", "prefix-auto":
		t := ref.Table{"valid_lifetime": l.Valid.String(), "preferred_lifetime": l.Pref.String(), "deprecated": c.Dep}
		if c.Kind == "prefix" {
			t["prefix"] = "2001:db8::/64"
		}
		ifi.Prefix = []ref.Table{t}
	default:
		t := ref.Table{"lifetime": l.Valid.String(), "deprecated": c.Dep}
		if c.Kind == "route" {
			t["prefix"] = "2001:db8:ffff::/48"
		}
		ifi.Route = []ref.Table{t}
	}
	return ref.Doc{Ifaces: []ref.Iface{ifi}}
}

func c16Remain(epoch time.Time, life time.Duration, now time.Time) time.Duration {
	d := epoch.Add(life).Sub(now)
	if d < 0 {
		return 0
	}
	return d
}

func c16Check(c c16Case) [][2]string {
	epoch := c16Epochs[c.Epoch]
	l := c16Lifes[c.Life]
	cfg, err := config.Parse(strings.NewReader(c16Doc(c).TOML()), epoch)
	if err != nil {
		return [][2]string{{"C16:rejected", "valid deprecated stanza rejected: " + err.Error()}}
	}
	var offs []time.Duration
	zeroAt := map[int]bool{}
	for _, s := range c.Offsets {
		if s == "unset-clock" {
			// The zero time.Time (a clock that has not been set): centuries before the epoch.
			zeroAt[len(offs)] = true
			offs = append(offs, 0)
			continue
		}
		d, err := time.ParseDuration(s)
		if err != nil {
			panic(err)
		}
		offs = append(offs, d)
	}
	// The clock: one reading per call, sticking at the last one.
	idx := 0
	var reads []time.Time
	clock := func() time.Time {
		i := idx
		if i >= len(offs) {
			i = len(offs) - 1
		} else {
			idx++
		}
		t := epoch.Add(offs[i])
		if zeroAt[i] {
			t = time.Time{}
		}
		reads = append(reads, t)
		return t
	}
	build := 0
	srcFails := func() bool { return c.FailAt != nil && *c.FailAt == build }
	absent := func() bool { return c.AbsentAt != nil && *c.AbsentAt == build }
	var plug plugin.Plugin
	judged := cfg.Interfaces[0]
	if c.Group {
		if len(cfg.Interfaces) != 3 {
			return [][2]string{{"C16:group", fmt.Sprintf("names group of 3 gave %d interfaces", len(cfg.Interfaces))}}
		}
		judged = cfg.Interfaces[2]
	}
	for _, p := range judged.Plugins {
		switch p := p.(type) {
		case *plugin.Prefix:
			p.TimeNow = clock
			p.Addrs = func() ([]system.IP, error) {
				if srcFails() {
					return nil, fmt.Errorf("verif: netlink dump interrupted")
				}
				// (the kernel has deprecated the address: that is a property of the address,
				// not of the stanza - a non-deprecated stanza keeps its constants)
				if absent() {
					return []system.IP{{Address: mustPrefix("2001:db8::1/64"), Tentative: true}, {Address: mustPrefix("fe80::1/64")}}, nil
				}
				return []system.IP{{Address: mustPrefix("2001:db8::1/64"), Deprecated: true}}, nil
			}
			plug = p
		case *plugin.Route:
			p.TimeNow = clock
			p.Routes = func() ([]system.Route, error) {
				if srcFails() {
					return nil, fmt.Errorf("verif: netlink dump interrupted")
				}
				if absent() {
					return []system.Route{{Prefix: mustPrefix("::1/128")}}, nil
				}
				return []system.Route{{Prefix: mustPrefix("2001:db8:ffff::/48")}}, nil
			}
			plug = p
		}
	}
	if plug == nil {
		return [][2]string{{"C16:no-plugin", "parser produced no prefix/route plugin"}}
	}

	var out [][2]string
	bad := func(sig, format string, a ...any) {
		out = append(out, [2]string{sig, fmt.Sprintf("%s: ", ev.JSON(c)) + fmt.Sprintf(format, a...)})
	}
	var prevV, prevP time.Duration = -1, -1
	napply := (len(offs) + c.PerApply - 1) / c.PerApply
	for k := 0; k < napply; k++ {
		// Position the clock at reading k*PerApply.
		idx = k * c.PerApply
		build = k
		reads = nil
		ra := &ndp.RouterAdvertisement{}
		var pv any
		func() {
			defer func() { pv = recover() }()
			err = plug.Apply(ra)
		}()
		if pv != nil {
			bad("C16:panic", "Apply panicked: %v", pv)
			return out
		}
		if err != nil && srcFails() {
			continue // no RA is generated when the source fails: nothing advertised, nothing to judge
		}
		if err == nil && absent() && len(ra.Options) == 0 {
			continue // nothing to advertise for the wildcard at this moment
		}
		if err != nil || len(ra.Options) != 1 {
			bad("C16:apply", "Apply: err=%v options=%d", err, len(ra.Options))
			return out
		}
		// The readings this Apply took bound what it may report: with first
		// reading tmin and last tmax (tmin<=tmax), any value between
		// ref.Remain(tmax) and ref.Remain(tmin) is a faithful "time remaining at that moment".
		if len(reads) == 0 {
			// Clock not consulted: judge the values against the reading the
			// clock would have given (the property is about values only).
			i := k * c.PerApply
			if i >= len(offs) {
				i = len(offs) - 1
			}
			reads = []time.Time{epoch.Add(offs[i])}
			if zeroAt[i] {
				reads = []time.Time{{}}
			}
		}
		var v, p time.Duration
		hasP := false
		switch o := ra.Options[0].(type) {
		case *ndp.PrefixInformation:
			v, p, hasP = o.ValidLifetime, o.PreferredLifetime, true
		case *ndp.RouteInformation:
			v = o.RouteLifetime
		default:
			bad("C16:apply", "unexpected option %T", o)
			return out
		}
		if !c.Dep {
			if v != l.Valid || (hasP && p != l.Pref) {
				bad("C16:non-deprecated-not-constant", "apply %d: valid=%s pref=%s, configured %s/%s", k, v, p, l.Valid, l.Pref)
			}
			continue
		}
		tmin, tmax := reads[0], reads[len(reads)-1]
		loV, hiV := c16Remain(epoch, l.Valid, tmax), c16Remain(epoch, l.Valid, tmin)
		if v < loV || v > hiV {
			bad("C16:valid-not-remaining", "apply %d at [%s,%s]: valid=%s, want within [%s,%s]", k, tmin.Sub(epoch), tmax.Sub(epoch), v, loV, hiV)
		}
		if hasP {
			loP, hiP := c16Remain(epoch, l.Pref, tmax), c16Remain(epoch, l.Pref, tmin)
			if p < loP || p > hiP {
				bad("C16:preferred-not-remaining", "apply %d at [%s,%s]: preferred=%s, want within [%s,%s]", k, tmin.Sub(epoch), tmax.Sub(epoch), p, loP, hiP)
			}
			if p > v {
				bad("C16:preferred-exceeds-valid", "apply %d: preferred %s > valid %s", k, p, v)
			}
		}
		if v < 0 || p < 0 {
			bad("C16:negative", "apply %d: valid=%s preferred=%s", k, v, p)
		}
		if prevV >= 0 && (v > prevV || (hasP && p > prevP)) {
			bad("C16:increased", "apply %d: valid %s->%s preferred %s->%s", k, prevV, v, prevP, p)
		}
		prevV, prevP = v, p
	}
	return out
}

func TestVerifC16(t *testing.T) {
	r := ev.Begin("C16", "enum")
	defer r.End(t)
	r.Rule = "cases = 2 epochs x 4 (valid,preferred) pairs x {static prefix, wildcard prefix, static route, wildcard route} x {deprecated, not} x all non-decreasing sequences (length<=L) over 10 instants around each deadline (before the epoch, at, 1ns before/after; also preceded by a reading of the zero time.Time, centuries before the epoch) x {one, two} clock readings per RA x (wildcards) the address / route source failing during build k, and the network being absent from the listing during build k (it appears later / comes back), for every k; documents parsed by the real config.Parse (the stanza on a single interface and, for sequences <=2, in a names group of three, judged on the last member); non-trivial = deprecated and some reading within [0, 10*valid]; distinct = distinct case"
	r.Assumptions = []string{"clock injected through Prefix.TimeNow / Route.TimeNow (Prepare installs time.Now in production)"}

	if r.Replay != nil {
		var c c16Case
		if err := json.Unmarshal(r.Replay, &c); err != nil {
			t.Fatalf("bad replay: %v", err)
		}
		r.Case(ev.JSON(c), true)
		r.Sample(c)
		for _, v := range c16Check(c) {
			r.Violation(v[0], v[1], c)
		}
		return
	}
	L := 2
	if r.Thorough() {
		L = 3
	}
	for e := range c16Epochs {
		for li, l := range c16Lifes {
			inst := c16Instants(l)
			for _, kind := range []string{"prefix", "prefix-auto", "route", "route-auto"} {
				for _, dep := range []bool{true, false} {
					enum.Sequences(len(inst), L, func(seq []int) bool {
						if len(seq) == 0 {
							return true
						}
						for i := 1; i < len(seq); i++ {
							if inst[seq[i]] < inst[seq[i-1]] {
								return true // clock never goes backwards
							}
						}
						var offs []string
						for _, s := range seq {
							offs = append(offs, inst[s].String())
						}
						if len(seq) <= 2 {
							// ... and the same stanza in a names group of three, on its last interface.
							c := c16Case{Epoch: e, Life: li, Kind: kind, Dep: dep, Offsets: offs, PerApply: 1, Group: true}
							r.Case(ev.JSON(c), dep)
							for _, v := range c16Check(c) {
								r.Violation(v[0], v[1], c)
							}
						}
						if dep && len(seq) <= 2 {
							// ... and the same readings after one taken from a clock that was not set yet.
							c := c16Case{Epoch: e, Life: li, Kind: kind, Dep: dep, Offsets: append([]string{"unset-clock"}, offs...), PerApply: 1}
							r.Case(ev.JSON(c), true)
							for _, v := range c16Check(c) {
								r.Violation(v[0], v[1], c)
							}
						}
						for _, per := range []int{1, 2} {
							if per == 2 && len(seq) < 2 {
								continue
							}
							fails := []*int{nil}
							if strings.HasSuffix(kind, "-auto") && per == 1 {
								// The source of a wildcard fails during build k (every k).
								for k := range seq {
									k := k
									fails = append(fails, &k)
								}
							}
							for _, fa := range fails {
								c := c16Case{Epoch: e, Life: li, Kind: kind, Dep: dep, Offsets: offs, PerApply: per, FailAt: fa}
								r.Case(ev.JSON(c), dep)
								r.Sample(c)
								for _, v := range c16Check(c) {
									r.Violation(v[0], v[1], c)
								}
								if fa != nil {
									// ... and the same build finding the network absent instead.
									c.FailAt, c.AbsentAt = nil, fa
									r.Case(ev.JSON(c), dep)
									for _, v := range c16Check(c) {
										r.Violation(v[0], v[1], c)
									}
								}
							}
						}
						return true
					})
				}
			}
		}
	}
	r.Count("max_clock_sequence_len", int64(L))
}
