//go:build verif

package config_test

import (
	"encoding/json"
	"fmt"
	"net"
	"reflect"
	"strings"
	"testing"
	"time"

	"github.com/mdlayher/corerad/internal/config"
	"github.com/mdlayher/corerad/internal/plugin"
	"github.com/mdlayher/corerad/internal/system"
	"github.com/mdlayher/corerad/verifrt/enum"
	"github.com/mdlayher/corerad/verifrt/ev"
	"github.com/mdlayher/corerad/verifrt/ref"
	"github.com/mdlayher/ndp"
)

// C01: every RA carries exactly the configured header fields and exactly the
// options the configuration calls for, in the documented order; rebuilding
// gives an identical RA and never alters the configuration.
//
// Lifecycle per case: real config.Parse -> real Plugin.Prepare for every
// interface (address/route source = fake behind the system.NewAddresser seam,
// per interface index) -> Interface.RouterAdvertisement x3 -> compare with the
// reference RA computed from the reference model's expected Config.

type c01Dim struct {
	Name string
	Vars []func(i *ref.Iface)
}

func c01Dims() []c01Dim {
	T := func(kv ...any) ref.Table {
		t := ref.Table{}
		for i := 0; i+1 < len(kv); i += 2 {
			t[kv[i].(string)] = kv[i+1]
		}
		return t
	}
	none := func(i *ref.Iface) {}
	return []c01Dim{
		{"prefix", []func(*ref.Iface){
			none,
			func(i *ref.Iface) { i.Prefix = []ref.Table{T("prefix", "2001:db8:a::/64")} },
			func(i *ref.Iface) { i.Prefix = []ref.Table{T()} },
			func(i *ref.Iface) { i.Prefix = []ref.Table{T("prefix", "2001:db8:a::/64"), T("autonomous", false)} },
			func(i *ref.Iface) {
				i.Prefix = []ref.Table{T("prefix", "2001:db8:b::/64", "on_link", false, "valid_lifetime", "2h", "preferred_lifetime", "1h"), T("prefix", "2001:db8:a::/56", "valid_lifetime", "infinite")}
			},
			func(i *ref.Iface) {
				i.Prefix = []ref.Table{T("prefix", "2001:db8:a::/64", "deprecated", true, "valid_lifetime", "2h", "preferred_lifetime", "1h")}
			},
			func(i *ref.Iface) {
				i.Prefix = []ref.Table{T("deprecated", true, "valid_lifetime", "2h", "preferred_lifetime", "1h")}
			},
			// the wildcard, then an explicit deprecated stanza for a /64 the wildcard also
			// expands to (the interface has an address in it): both are advertised
			func(i *ref.Iface) {
				i.Prefix = []ref.Table{T(), T("prefix", "2001:db8:1::/64", "deprecated", true, "valid_lifetime", "2h", "preferred_lifetime", "1h")}
			},
		}},
		{"route", []func(*ref.Iface){
			none,
			func(i *ref.Iface) { i.Route = []ref.Table{T("prefix", "2001:db8:ffff::/48", "preference", "high")} },
			func(i *ref.Iface) { i.Route = []ref.Table{T("lifetime", "30m")} },
			func(i *ref.Iface) { i.Route = []ref.Table{T("prefix", "2001:db8:ffff::/48"), T("preference", "low")} },
			func(i *ref.Iface) {
				i.Route = []ref.Table{T("prefix", "2001:db8:ffff::/48", "deprecated", true, "lifetime", "90m")}
			},
			func(i *ref.Iface) {
				i.Route = []ref.Table{T("deprecated", true, "lifetime", "90m", "preference", "high")}
			},
			// the wildcard, then an explicit deprecated route the wildcard also expands to
			func(i *ref.Iface) {
				i.Route = []ref.Table{T(), T("prefix", "2001:db8:f000::/48", "deprecated", true, "lifetime", "90m")}
			},
		}},
		{"rdnss", []func(*ref.Iface){
			none,
			func(i *ref.Iface) { i.RDNSS = []ref.Table{T("servers", []string{"2001:db8::54", "2001:db8::53"})} },
			func(i *ref.Iface) { i.RDNSS = []ref.Table{T()} },
			func(i *ref.Iface) {
				i.RDNSS = []ref.Table{T("servers", []string{"2001:db8::54", "::", "2001:db8::53"}, "lifetime", "1m")}
			},
		}},
		{"dnssl", []func(*ref.Iface){
			none,
			func(i *ref.Iface) { i.DNSSL = []ref.Table{T("domain_names", []string{"example.com"})} },
			func(i *ref.Iface) {
				i.DNSSL = []ref.Table{T("domain_names", []string{"b.example", "a.example"}, "lifetime", "infinite"), T("domain_names", []string{"lan"}, "lifetime", "")}
			},
		}},
		{"mtu", []func(*ref.Iface){none, func(i *ref.Iface) { i.Scalars["mtu"] = 1500 }}},
		{"lla", []func(*ref.Iface){none, func(i *ref.Iface) { i.Scalars["source_lla"] = true }, func(i *ref.Iface) { i.Scalars["source_lla"] = false }}},
		{"captive", []func(*ref.Iface){none, func(i *ref.Iface) { i.Scalars["captive_portal"] = "https://example.com/portal" }}},
		{"pref64", []func(*ref.Iface){
			none,
			func(i *ref.Iface) { i.PREF64 = []ref.Table{T()} },
			func(i *ref.Iface) { i.PREF64 = []ref.Table{T("prefix", "2001:db8:64::/64")} },
			func(i *ref.Iface) {
				i.PREF64 = []ref.Table{T("prefix", "64:ff9b::/96"), T("prefix", "2001:db8:64::/48")}
			},
			// a stanza that leaves the prefix out (the well-known one) after explicit ones
			func(i *ref.Iface) {
				i.PREF64 = []ref.Table{T("prefix", "2001:db8:64::/96"), T(), T("prefix", "2001:db8:65::/64"), T("prefix", "")}
			},
		}},
	}
}

type c01Header struct {
	Name string
	f    func(s ref.Table)
}

var c01Headers = []c01Header{
	{"default", func(s ref.Table) {}},
	{"managed", func(s ref.Table) { s["managed"] = true }},
	{"other_config", func(s ref.Table) { s["other_config"] = true }},
	{"preference=high", func(s ref.Table) { s["preference"] = "high" }},
	{"preference=low", func(s ref.Table) { s["preference"] = "low" }},
	{"hop_limit=0", func(s ref.Table) { s["hop_limit"] = 0 }},
	{"hop_limit=255", func(s ref.Table) { s["hop_limit"] = 255 }},
	{"reachable_time=1.5s", func(s ref.Table) { s["reachable_time"] = "1.5s" }},
	{"retransmit_timer=1s", func(s ref.Table) { s["retransmit_timer"] = "1s" }},
	{"default_lifetime=0", func(s ref.Table) { s["default_lifetime"] = "0s" }},
	{"default_lifetime=9000s", func(s ref.Table) { s["default_lifetime"] = "9000s" }},
	{"unicast_only+verbose", func(s ref.Table) { s["unicast_only"] = true; s["verbose"] = true }},
	{"all", func(s ref.Table) {
		s["managed"], s["other_config"], s["preference"], s["hop_limit"] = true, true, "low", 17
		s["reachable_time"], s["retransmit_timer"], s["default_lifetime"] = "3s", "2.5s", "1801s"
	}},
}

var c01Max = []string{"", "4s", "1800s"}

type c01State struct {
	Name string
	S    [2]ref.State // per interface index 1, 2
}

func c01States() []c01State {
	rich := []system.IP{
		ref.IP("fe80::1/64", "F"), ref.IP("2001:db8:1::2/64", ""), ref.IP("fd00:1::1/64", "S"), ref.IP("2001:db8:9::1/64", "T"),
		ref.IP("2001:db8:1::1/64", "F"), ref.IP("192.0.2.1/24", ""), ref.IP("2001:db8:3::1/48", ""), ref.IP("2001:db8:0:7::1/64", "D"),
	}
	rev := func(a []system.IP) []system.IP {
		o := make([]system.IP, len(a))
		for i := range a {
			o[len(a)-1-i] = a[i]
		}
		return o
	}
	alt := []system.IP{ref.IP("2001:db8:b1::1/64", ""), ref.IP("fe80::2/64", "")}
	one := []system.IP{ref.IP("2001:db8:1::1/64", "")}
	nested := []string{"2001:db8:f000::/48", "2001:db8:f000:1::/64", "2001:db8:e000::/48", "2001:db8:e000::/64", "::1/128", "192.0.2.0/24"}
	nestedRev := []string{"192.0.2.0/24", "::1/128", "2001:db8:e000::/64", "2001:db8:e000::/48", "2001:db8:f000:1::/64", "2001:db8:f000::/48"}
	mk := func(name string, addrs []system.IP, routes []string, mac string, fwd bool, clock time.Duration, fail bool) c01State {
		s1 := ref.State{Name: "eth0", Addrs: addrs, Routes: routes, MAC: mac, Forwarding: fwd, Clock: clock, AddrFail: fail}
		s2 := s1
		s2.Name = "eth1"
		s2.Addrs = alt
		if mac != "" {
			s2.MAC = "02:00:00:00:00:02"
		}
		return c01State{Name: name, S: [2]ref.State{s1, s2}}
	}
	const mac = "02:00:00:00:00:01"
	return []c01State{
		mk("rich/fwd/epoch", rich, nested, mac, true, 0, false),
		mk("rich/nofwd/epoch", rich, nested, mac, false, 0, false),
		mk("rich/fwd/+1h", rich, nested, mac, true, time.Hour, false),
		mk("one/fwd/nomac", one, nil, "", true, 30*time.Minute, false),
		mk("empty/fwd", nil, nil, mac, true, 0, false),
		mk("rich-reversed/fwd/+3h", rev(rich), nestedRev, mac, true, 3*time.Hour, false),
		mk("source-fails", rich, nested, mac, true, 0, true),
		mk("rich/nofwd/+90m/nomac", rich, nested, "", false, 90*time.Minute, false),
	}
}

type c01Addresser struct{ st *c01State }

func (a c01Addresser) AddressesByIndex(i int) ([]system.IP, error) {
	if i < 1 || i > 2 {
		return nil, fmt.Errorf("verif: unexpected interface index %d", i)
	}
	return ref.Addresser{S: &a.st.S[i-1]}.AddressesByIndex(i)
}
func (a c01Addresser) LoopbackRoutes() ([]system.Route, error) {
	return ref.Addresser{S: &a.st.S[0]}.LoopbackRoutes()
}

type c01Case struct {
	Desc  []string `json:"variant"`
	Doc   ref.Doc  `json:"document"`
	State int      `json:"state"`
}

func c01Snapshot(ifi config.Interface) string {
	var b strings.Builder
	fmt.Fprintf(&b, "%s|%t%t%t|%s %s|%t%t|%s %s|%d|%s|%t|%v|", ifi.Name, ifi.Monitor, ifi.Advertise, ifi.Verbose, ifi.MinInterval, ifi.MaxInterval,
		ifi.Managed, ifi.OtherConfig, ifi.ReachableTime, ifi.RetransmitTimer, ifi.HopLimit, ifi.DefaultLifetime, ifi.UnicastOnly, ifi.Preference)
	for _, p := range ifi.Plugins {
		switch p := p.(type) {
		case *plugin.Prefix:
			fmt.Fprintf(&b, "P{%t %s %t %t %s %s %t %s}", p.Auto, p.Prefix, p.OnLink, p.Autonomous, p.ValidLifetime, p.PreferredLifetime, p.Deprecated, p.Epoch.UTC())
		case *plugin.Route:
			fmt.Fprintf(&b, "R{%t %s %v %s %t %s}", p.Auto, p.Prefix, p.Preference, p.Lifetime, p.Deprecated, p.Epoch.UTC())
		case *plugin.RDNSS:
			fmt.Fprintf(&b, "D{%t %s %v}", p.Auto, p.Lifetime, p.Servers)
		case *plugin.DNSSL:
			fmt.Fprintf(&b, "L{%s %q}", p.Lifetime, p.DomainNames)
		case *plugin.MTU:
			fmt.Fprintf(&b, "M{%d}", int(*p))
		case *plugin.LLA:
			fmt.Fprintf(&b, "A{%s}", p.Addr)
		case *plugin.CaptivePortal:
			fmt.Fprintf(&b, "C{%s}", p.Portal.URI)
		case *plugin.PREF64:
			fmt.Fprintf(&b, "F{%s %s}", p.Inner.Prefix, p.Inner.Lifetime)
		default:
			fmt.Fprintf(&b, "?%T", p)
		}
	}
	return b.String()
}

func c01DescribeOpt(o ndp.Option) string {
	switch o := o.(type) {
	case *ndp.PrefixInformation:
		return fmt.Sprintf("PI{%s/%d L=%t A=%t v=%s p=%s}", o.Prefix, o.PrefixLength, o.OnLink, o.AutonomousAddressConfiguration, o.ValidLifetime, o.PreferredLifetime)
	case *ndp.RouteInformation:
		return fmt.Sprintf("RI{%s/%d %v %s}", o.Prefix, o.PrefixLength, o.Preference, o.RouteLifetime)
	case *ndp.RecursiveDNSServer:
		return fmt.Sprintf("RDNSS{%s %v}", o.Lifetime, o.Servers)
	case *ndp.DNSSearchList:
		return fmt.Sprintf("DNSSL{%s %q}", o.Lifetime, o.DomainNames)
	case *ndp.MTU:
		return fmt.Sprintf("MTU{%d}", o.MTU)
	case *ndp.LinkLayerAddress:
		return fmt.Sprintf("LLA{%v %s}", o.Direction, o.Addr)
	case *ndp.CaptivePortal:
		return fmt.Sprintf("CP{%s}", o.URI)
	case *ndp.PREF64:
		return fmt.Sprintf("PREF64{%s %s}", o.Prefix, o.Lifetime)
	}
	return fmt.Sprintf("%T", o)
}

func c01DescribeRA(ra *ndp.RouterAdvertisement) string {
	if ra == nil {
		return "<nil>"
	}
	var os []string
	for _, o := range ra.Options {
		os = append(os, c01DescribeOpt(o))
	}
	return fmt.Sprintf("hop=%d M=%t O=%t pref=%v life=%s reach=%s retrans=%s opts=%v", ra.CurrentHopLimit, ra.ManagedConfiguration, ra.OtherConfiguration,
		ra.RouterSelectionPreference, ra.RouterLifetime, ra.ReachableTime, ra.RetransmitTimer, os)
}

func c01OptKind(o ndp.Option) string {
	s := c01DescribeOpt(o)
	if i := strings.IndexByte(s, '{'); i > 0 {
		return s[:i]
	}
	return s
}

// c01CompareRA returns (signature, message) for the first difference.
func c01CompareRA(want, got *ndp.RouterAdvertisement) (string, string) {
	if reflect.DeepEqual(want, got) {
		return "", ""
	}
	w, g := reflect.ValueOf(*want), reflect.ValueOf(*got)
	for f := 0; f < w.NumField(); f++ {
		n := w.Type().Field(f).Name
		if n == "Options" {
			continue
		}
		if !reflect.DeepEqual(w.Field(f).Interface(), g.Field(f).Interface()) {
			return "C01:header:" + n, fmt.Sprintf("%s: want %v got %v", n, w.Field(f).Interface(), g.Field(f).Interface())
		}
	}
	var wk, gk []string
	for _, o := range want.Options {
		wk = append(wk, c01OptKind(o))
	}
	for _, o := range got.Options {
		gk = append(gk, c01OptKind(o))
	}
	if fmt.Sprint(wk) != fmt.Sprint(gk) {
		// Same multiset in another order?
		cnt := map[string]int{}
		for _, k := range wk {
			cnt[k]++
		}
		for _, k := range gk {
			cnt[k]--
		}
		same := true
		for _, n := range cnt {
			if n != 0 {
				same = false
			}
		}
		if same {
			return "C01:option-order", fmt.Sprintf("option kinds want %v got %v", wk, gk)
		}
		return "C01:option-set", fmt.Sprintf("option kinds want %v got %v", wk, gk)
	}
	for i := range want.Options {
		if !reflect.DeepEqual(want.Options[i], got.Options[i]) {
			if len(want.Options) == 0 && len(got.Options) == 0 {
				continue
			}
			return "C01:option-value:" + wk[i], fmt.Sprintf("option %d: want %s got %s", i, c01DescribeOpt(want.Options[i]), c01DescribeOpt(got.Options[i]))
		}
	}
	if len(want.Options) == 0 && len(got.Options) == 0 {
		return "", ""
	}
	return "C01:other", "RAs differ (DeepEqual)"
}

var c01Epoch = time.Date(2000, 1, 1, 0, 0, 0, 0, time.UTC)

func c01Check(c c01Case, states []c01State) [][2]string {
	text := c.Doc.TOML()
	verdict, wantCfg, why := ref.Parse(c.Doc, c01Epoch)
	if verdict != ref.Accept {
		panic(fmt.Sprintf("C01 generator produced a document the reference model does not accept (%s):\n%s", why, text))
	}
	var out [][2]string
	add := func(sig, format string, a ...any) {
		out = append(out, [2]string{sig, fmt.Sprintf("state %q: ", states[c.State].Name) + fmt.Sprintf(format, a...) + "\n" + text})
	}
	cfg, err := config.Parse(strings.NewReader(text), c01Epoch)
	if err != nil {
		add("C01:rejected", "valid configuration rejected: %v", err)
		return out
	}
	if len(cfg.Interfaces) != len(wantCfg.Interfaces) {
		add("C01:interface-count", "want %d interfaces got %d", len(wantCfg.Interfaces), len(cfg.Interfaces))
		return out
	}
	st := states[c.State]
	system.VerifSetAddresser(c01Addresser{&st})
	defer system.VerifSetAddresser(nil)
	// Prepare every interface first (as the server does: each advertiser
	// prepares its own interface's plugins), then build.
	for i := range cfg.Interfaces {
		s := &st.S[i]
		nif := &net.Interface{Index: i + 1, Name: cfg.Interfaces[i].Name, HardwareAddr: s.HW()}
		for _, p := range cfg.Interfaces[i].Plugins {
			if err := p.Prepare(nif); err != nil {
				add("C01:prepare", "Prepare(%s) failed: %v", p.Name(), err)
				return out
			}
			// The clock is the one seam Prepare cannot reach: time.Now.
			now := func() time.Time { return c01Epoch.Add(s.Clock) }
			switch p := p.(type) {
			case *plugin.Prefix:
				p.TimeNow = now
			case *plugin.Route:
				p.TimeNow = now
			}
		}
	}
	for i := range cfg.Interfaces {
		ifi := cfg.Interfaces[i]
		s := &st.S[i]
		want, ok := ref.RA(wantCfg.Interfaces[i], s, c01Epoch)
		before := c01Snapshot(ifi)
		var first *ndp.RouterAdvertisement
		for rep := 0; rep < 3; rep++ {
			var (
				ra *ndp.RouterAdvertisement
				ms []config.Misconfiguration
				pv any
			)
			func() {
				defer func() { pv = recover() }()
				ra, ms, err = ifi.RouterAdvertisement(s.Forwarding)
			}()
			if pv != nil {
				add("C01:panic", "RouterAdvertisement panicked: %v", pv)
				return out
			}
			if !ok {
				if err == nil {
					add("C01:error-expected", "interface %s: RA generation must fail (address/route source failed or no usable address) but produced %s", ifi.Name, c01DescribeRA(ra))
				}
				break
			}
			if err != nil {
				add("C01:unexpected-error", "interface %s: %v", ifi.Name, err)
				break
			}
			if sig, msg := c01CompareRA(want, ra); sig != "" {
				add(sig, "interface %s build %d: %s\n  want %s\n  got  %s", ifi.Name, rep, msg, c01DescribeRA(want), c01DescribeRA(ra))
				break
			}
			wantMis := wantCfg.Interfaces[i].DefaultLifetime > 0 && !s.Forwarding
			gotMis := len(ms) == 1 && ms[0] == config.InterfaceNotForwarding
			if wantMis != gotMis || len(ms) > 1 {
				add("C01:misconfiguration", "interface %s: misconfigurations %v, want not-forwarding=%t", ifi.Name, ms, wantMis)
			}
			if first == nil {
				first = ra
			} else if !reflect.DeepEqual(first, ra) {
				add("C01:rebuild-differs", "interface %s: build %d differs from build 0: %s vs %s", ifi.Name, rep, c01DescribeRA(ra), c01DescribeRA(first))
				break
			}
		}
		if after := c01Snapshot(ifi); after != before {
			add("C01:config-altered", "interface %s: configuration changed by building RAs:\n  before %s\n  after  %s", ifi.Name, before, after)
		}
	}
	return out
}

func c01Doc(dims []c01Dim, choice []int, header, max int, group bool) (ref.Doc, []string) {
	ifi := ref.Iface{Scalars: ref.Table{"advertise": true}}
	if group {
		ifi.Scalars["names"] = []string{"eth0", "eth1"}
	} else {
		ifi.Scalars["name"] = "eth0"
	}
	var desc []string
	for d, v := range choice {
		dims[d].Vars[v](&ifi)
		if v != 0 {
			desc = append(desc, fmt.Sprintf("%s#%d", dims[d].Name, v))
		}
	}
	c01Headers[header].f(ifi.Scalars)
	if header != 0 {
		desc = append(desc, c01Headers[header].Name)
	}
	if c01Max[max] != "" {
		ifi.Scalars["max_interval"] = c01Max[max]
		desc = append(desc, "max="+c01Max[max])
	}
	if group {
		desc = append(desc, "names=[eth0,eth1]")
	}
	return ref.Doc{Ifaces: []ref.Iface{ifi}}, desc
}

func TestVerifC01(t *testing.T) {
	r := ev.Begin("C01", "build")
	defer r.End(t)
	r.Rule = "documents = product of stanza-kind variants (prefix 8 x route 7 x rdnss 4 x dnssl 3 x mtu 2 x source_lla 3 x captive portal 2 x pref64 5; quick: all choices with <=2 non-default dimensions) with default header, plus 13 header variants x 3 max_interval x {name, names group} on 1-dimension-varied documents from the empty and the all-options base, plus pref64 for all 1797 whole-second max_interval; each x system states (address lists rich/reversed/one/empty/failing, nested loopback routes, MAC present/absent, forwarding on/off, clock at epoch/+30m/+1h/+90m/+3h); lifecycle Parse -> real Prepare (NewAddresser seam, per-interface index) -> RouterAdvertisement x3; oracle = reference RA from the reference model's expected Config; non-trivial = document has >=1 option-producing stanza; distinct = distinct TOML x state"
	r.Assumptions = []string{"system.NewAddresser returns a fake through a build-time seam (overlay); plugin clock overridden after Prepare"}
	states := c01States()

	if r.Replay != nil {
		var c c01Case
		if err := json.Unmarshal(r.Replay, &c); err != nil {
			t.Fatalf("bad replay: %v", err)
		}
		c.Doc = fixDoc(c.Doc)
		r.Case(c.Doc.TOML(), true)
		r.Sample(c)
		for _, v := range c01Check(c, states) {
			r.Violation(v[0], v[1], c)
		}
		return
	}

	dims := c01Dims()
	nstates := 7
	if r.Thorough() {
		nstates = len(states)
	}
	one := func(doc ref.Doc, desc []string, nontrivial bool) {
		text := doc.TOML()
		if !r.MineKey(text) {
			return
		}
		for s := 0; s < nstates; s++ {
			c := c01Case{Desc: desc, Doc: doc, State: s}
			r.Case(fmt.Sprintf("%s@%d", text, s), nontrivial)
			r.Sample(map[string]any{"variant": desc, "state": states[s].Name})
			for _, v := range c01Check(c, states) {
				r.Violation(v[0], v[1], c)
			}
		}
	}
	sizes := make([]int, len(dims))
	for i, d := range dims {
		sizes[i] = len(d.Vars)
	}
	enum.Product(sizes, func(choice []int) bool {
		nz := 0
		for _, v := range choice {
			if v != 0 {
				nz++
			}
		}
		if !r.Thorough() && nz > 2 {
			return true
		}
		doc, desc := c01Doc(dims, choice, 0, 0, false)
		one(doc, desc, nz > 0)
		return true
	})
	// Header variants x max_interval x group on 1-dimension-varied documents
	// from the empty base and from the all-options base.
	allOn := []int{3, 3, 3, 2, 1, 1, 1, 3}
	for h := range c01Headers {
		for m := range c01Max {
			for _, group := range []bool{false, true} {
				for _, base := range [][]int{make([]int, len(dims)), allOn} {
					{
						dd, ds := c01Doc(dims, base, h, m, group)
						one(dd, ds, true)
					}
					_ = base
				}
				if !r.Thorough() && (m != 0 || group) && h > 2 {
					continue
				}
				for d := range dims {
					for v := 1; v < len(dims[d].Vars); v++ {
						ch := make([]int, len(dims))
						ch[d] = v
						doc, desc := c01Doc(dims, ch, h, m, group)
						one(doc, desc, true)
						ch2 := append([]int(nil), allOn...)
						ch2[d] = (allOn[d] + v) % len(dims[d].Vars)
						doc, desc = c01Doc(dims, ch2, h, m, group)
						one(doc, desc, true)
					}
				}
			}
		}
	}
	// PREF64 lifetime for every whole-second MaxRtrAdvInterval.
	for mx := 4; mx <= 1800; mx++ {
		ifi := ref.Iface{Scalars: ref.Table{"name": "eth0", "advertise": true, "max_interval": fmt.Sprintf("%ds", mx)}, PREF64: []ref.Table{{}}}
		doc := ref.Doc{Ifaces: []ref.Iface{ifi}}
		text := doc.TOML()
		if !r.MineKey(text) {
			continue
		}
		c := c01Case{Desc: []string{fmt.Sprintf("pref64 max=%ds", mx)}, Doc: doc, State: 0}
		r.Case(text+"@0", true)
		for _, v := range c01Check(c, states) {
			r.Violation(v[0], v[1], c)
		}
	}
	r.Count("states_per_document", int64(nstates))
}
