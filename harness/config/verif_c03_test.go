//go:build verif

package config_test

import (
	"encoding/json"
	"fmt"
	"github.com/mdlayher/corerad/internal/config"
	"github.com/mdlayher/corerad/internal/plugin"
	"github.com/mdlayher/corerad/internal/system"
	"github.com/mdlayher/corerad/verifrt/ref"
	"net/netip"
	"strings"
	"testing"
	"time"

	"github.com/mdlayher/corerad/verifrt/ev"
	"github.com/mdlayher/ndp"
)

// C03: whatever config.Parse ACCEPTS yields an RA that encodes, decodes, and
// decodes to the same advertisement up to truncation to the field's unit.

var c03Durations = []string{"-1ns", "-1s", "-24h", "", "0s", "1ns", "999ms", "1s", "1.5s", "65535s", "65536s", "9000s", "1h",
	"4294967294s", "4294967295s", "4294967295.5s", "4294967296s", "1200000h", "2562047h47m16.854775807s", "infinite", "auto",
	// other spellings a lenient parser might take: bare integers (seconds?), signs, exponents
	"0", "30", "-30", "4294967296", "+5s", "1e3s", " 5s"}

var c03PREF64 = []string{"", "64:ff9b::/96", "2001:db8::/64", "2001:db8::/56", "2001:db8::/48", "2001:db8::/40", "2001:db8::/32",
	"2001:db8::/33", "2001:db8::/0", "::/0", "2001:db8::/128", "2001:db8::1/96", "64:ff9b::1/96", "10.0.0.0/8", "10.0.0.0/32", "192.0.2.0/24", "::ffff:10.0.0.0/96", "fe80::%eth0/64", "garbage"}

var c03CIDRs = []string{"::ffff:0:0/96", "::ffff:192.0.2.0/120", "::ffff:10.0.0.0/104", "::ffff:0.0.0.0/64", "0.0.0.0/0", "0.0.0.0/32", "192.0.2.0/24",
	"64:ff9b::/96", "fe80::/64", "ff02::/16", "::/64", "::/0", "0::/64", "0::/0", "::1/128", "2001:db8::/127", "2002:c000:204::/48", "::/1", "8000::/1"}

type c03Key struct{ Kind, Key string } // Kind "" = interface scalar

var c03Keys = []c03Key{
	{"", "max_interval"}, {"", "min_interval"}, {"", "default_lifetime"}, {"", "reachable_time"}, {"", "retransmit_timer"},
	{"prefix", "valid_lifetime"}, {"prefix", "preferred_lifetime"}, {"route", "lifetime"}, {"rdnss", "lifetime"}, {"dnssl", "lifetime"},
}

// Interface modes that a range check could (wrongly) be made conditional on.
var c03Modes = []map[string]any{
	{"unicast_only": true},
	{"managed": true, "other_config": true},
	{"preference": "high", "hop_limit": 0},
	{"unicast_only": true, "max_interval": "1800s", "min_interval": "1350s"},
}

type c03Case struct {
	Devs  []string      `json:"deviations"`
	Doc   ref.Doc       `json:"document"`
	Clock time.Duration `json:"clock_after_epoch"`
	// Step: every reading of the clock is this much later than the previous one
	// (time passes while an RA is being built).
	Step time.Duration `json:"clock_step,omitempty"`
}

func c03Base(dep bool, wild bool) ref.Doc {
	d := ref.Doc{Ifaces: []ref.Iface{{
		Scalars: ref.Table{"name": "eth0", "advertise": true, "mtu": 1500, "captive_portal": "https://example.com/portal"},
		Prefix:  []ref.Table{{"prefix": "2001:db8::/64"}},
		Route:   []ref.Table{{"prefix": "2001:db8:ffff::/48"}},
		RDNSS:   []ref.Table{{"servers": []string{"2001:db8::1"}}},
		DNSSL:   []ref.Table{{"domain_names": []string{"example.com", "lan.example.org"}}},
		PREF64:  []ref.Table{{}},
	}}}
	if dep {
		d.Ifaces[0].Prefix[0]["deprecated"] = true
		d.Ifaces[0].Route[0]["deprecated"] = true
	}
	if wild {
		delete(d.Ifaces[0].Prefix[0], "prefix")
		delete(d.Ifaces[0].Route[0], "prefix")
		d.Ifaces[0].RDNSS[0]["servers"] = []string{"::", "2001:db8::1"}
	}
	return d
}

// c03WildOnly: the RDNSS stanza is the wildcard alone (the documented default).
func c03WildOnly(d ref.Doc) ref.Doc {
	d.Ifaces[0].RDNSS[0]["servers"] = []string{"::"}
	return d
}

func c03Set(d *ref.Doc, k c03Key, v string) {
	i := &d.Ifaces[0]
	switch k.Kind {
	case "":
		i.Scalars[k.Key] = v
	case "prefix":
		i.Prefix[0][k.Key] = v
	case "route":
		i.Route[0][k.Key] = v
	case "rdnss":
		i.RDNSS[0][k.Key] = v
	case "dnssl":
		i.DNSSL[0][k.Key] = v
	}
}

var c03State = ref.State{
	Name:       "eth0",
	Addrs:      nil,
	MAC:        "02:00:00:00:00:01",
	Forwarding: true,
	Routes:     []string{"2001:db8:f000::/48@reserved", "fd00::/64@high", "2001:db8:f100::/48@low"},
}

func init() {
	c03State.Addrs = append(c03State.Addrs, ref.IP("2001:db8:1::1/64", "F"), ref.IP("fe80::1/64", ""), ref.IP("fd00:1::1/64", ""),
		// addresses with a mask longer than /64 (a DHCPv6 /128, a point-to-point /127): not part of any advertised /64
		ref.IP("2001:db8:0:2::abcd/128", ""), ref.IP("2001:db8:0:3::1/127", ""), ref.IP("2001:db8:0:4:8000::1/65", ""))
}

func trunc(d, unit time.Duration) time.Duration { return d - d%unit }

// c03FieldCheck: d must be representable: 0 <= d <= max, and decoded == trunc(d, unit).
func c03Field(name string, built, decoded, unit, max time.Duration) (string, string) {
	if built < 0 {
		return "C03:negative:" + name, fmt.Sprintf("%s = %s is negative; on the wire it becomes %s", name, built, decoded)
	}
	if built > max {
		return "C03:out-of-range:" + name, fmt.Sprintf("%s = %s exceeds the field maximum %s; on the wire it becomes %s", name, built, max, decoded)
	}
	if decoded != trunc(built, unit) {
		return "C03:changed:" + name, fmt.Sprintf("%s = %s decodes as %s (want %s)", name, built, decoded, trunc(built, unit))
	}
	return "", ""
}

func c03Check(c c03Case) [][2]string {
	text := c.Doc.TOML()
	var (
		cfg *config.Config
		err error
		pv  any
	)
	func() {
		defer func() { pv = recover() }()
		cfg, err = config.Parse(strings.NewReader(text), c02Epoch)
	}()
	if pv != nil {
		return [][2]string{{"C03:parse-panic", fmt.Sprint(pv)}}
	}
	if err != nil {
		return nil // not accepted: nothing to encode
	}
	var out [][2]string
	add := func(sig, msg string) {
		if sig != "" {
			out = append(out, [2]string{sig, msg + "\n" + text})
		}
	}
	for _, ifi := range cfg.Interfaces {
		if !ifi.Advertise {
			continue
		}
		for _, mac := range []string{c03State.MAC, "", "tentative"} {
			// Bound to the system the way the daemon does it (real Prepare), on a link with
			// and on one without a hardware address (tunnels, point-to-point links), and on
			// one whose addresses are all still tentative (duplicate address detection
			// after boot: nothing usable for a wildcard yet).
			st := c03State
			st.Clock, st.MAC = c.Clock, mac
			if mac == "tentative" {
				st.MAC = c03State.MAC
				st.Addrs = []system.IP{ref.IP("2001:db8:1::1/64", "N"), ref.IP("fe80::1/64", "N"), ref.IP("fd00:1::1/64", "N")}
			}
			if err := ref.Prepare(&ifi, &st, c02Epoch); err != nil {
				add("C03:prepare", err.Error())
				continue
			}
			if c.Step > 0 {
				nread := 0
				tick := func() time.Time {
					t := c02Epoch.Add(c.Clock + time.Duration(nread)*c.Step)
					nread++
					return t
				}
				for _, p := range ifi.Plugins {
					switch p := p.(type) {
					case *plugin.Prefix:
						p.TimeNow = tick
					case *plugin.Route:
						p.TimeNow = tick
					}
				}
			}
			var ra *ndp.RouterAdvertisement
			func() {
				defer func() { pv = recover() }()
				ra, _, err = ifi.RouterAdvertisement(true)
			}()
			if pv != nil {
				add("C03:build-panic", fmt.Sprint(pv))
				continue
			}
			if err != nil {
				// The quantifier is over system states for which generation succeeds.
				continue
			}
			b, err := ndp.MarshalMessage(ra)
			if err != nil {
				add("C03:unencodable:"+c02Norm(err.Error()), fmt.Sprintf("accepted configuration yields an RA the encoder refuses: %v", err))
				continue
			}
			m, err := ndp.ParseMessage(b)
			if err != nil {
				add("C03:undecodable:"+c02Norm(err.Error()), fmt.Sprintf("encoded RA does not decode: %v", err))
				continue
			}
			got, ok := m.(*ndp.RouterAdvertisement)
			if !ok {
				add("C03:not-an-ra", fmt.Sprintf("decoded %T", m))
				continue
			}
			const s, ms = time.Second, time.Millisecond
			max16, max32s, max32ms := 65535*s, ndp.Infinity, time.Duration(0xffffffff)*ms
			add(c03Field("router_lifetime", ra.RouterLifetime, got.RouterLifetime, s, max16))
			add(c03Field("reachable_time", ra.ReachableTime, got.ReachableTime, ms, max32ms))
			add(c03Field("retransmit_timer", ra.RetransmitTimer, got.RetransmitTimer, ms, max32ms))
			if ra.CurrentHopLimit != got.CurrentHopLimit || ra.ManagedConfiguration != got.ManagedConfiguration ||
				ra.OtherConfiguration != got.OtherConfiguration || ra.RouterSelectionPreference != got.RouterSelectionPreference {
				add("C03:changed:header", fmt.Sprintf("header %+v decodes as %+v", ra, got))
			}
			if len(ra.Options) != len(got.Options) {
				add("C03:changed:option-count", fmt.Sprintf("%d options built, %d decoded", len(ra.Options), len(got.Options)))
				continue
			}
			for i, o := range ra.Options {
				g := got.Options[i]
				if fmt.Sprintf("%T", o) != fmt.Sprintf("%T", g) {
					add("C03:changed:option-type", fmt.Sprintf("option %d: %T decodes as %T", i, o, g))
					continue
				}
				switch o := o.(type) {
				case *ndp.PrefixInformation:
					g := g.(*ndp.PrefixInformation)
					add(c03Field("prefix.valid_lifetime", o.ValidLifetime, g.ValidLifetime, s, max32s))
					add(c03Field("prefix.preferred_lifetime", o.PreferredLifetime, g.PreferredLifetime, s, max32s))
					if o.Prefix != g.Prefix || o.PrefixLength != g.PrefixLength || o.OnLink != g.OnLink || o.AutonomousAddressConfiguration != g.AutonomousAddressConfiguration {
						add("C03:changed:prefix", fmt.Sprintf("%+v decodes as %+v", o, g))
					}
				case *ndp.RouteInformation:
					g := g.(*ndp.RouteInformation)
					add(c03Field("route.lifetime", o.RouteLifetime, g.RouteLifetime, s, max32s))
					// The prefix is read from the wire bytes themselves: ndp v1.1.0's decoder
					// returns :: for route prefixes shorter than /8 although the bytes are right.
					wirePfx, wok := c03WireRoutePrefix(b, i)
					if !wok || o.Prefix != wirePfx || o.PrefixLength != g.PrefixLength || o.Preference != g.Preference {
						add("C03:changed:route", fmt.Sprintf("%+v is %s/%d on the wire (decoder: %+v)", o, wirePfx, g.PrefixLength, g))
					}
				case *ndp.RecursiveDNSServer:
					g := g.(*ndp.RecursiveDNSServer)
					add(c03Field("rdnss.lifetime", o.Lifetime, g.Lifetime, s, max32s))
					if fmt.Sprint(o.Servers) != fmt.Sprint(g.Servers) {
						add("C03:changed:rdnss-servers", fmt.Sprintf("%v decodes as %v", o.Servers, g.Servers))
					}
				case *ndp.DNSSearchList:
					g := g.(*ndp.DNSSearchList)
					add(c03Field("dnssl.lifetime", o.Lifetime, g.Lifetime, s, max32s))
					if fmt.Sprint(o.DomainNames) != fmt.Sprint(g.DomainNames) {
						add("C03:changed:dnssl-names", fmt.Sprintf("%v decodes as %v", o.DomainNames, g.DomainNames))
					}
				case *ndp.MTU:
					if o.MTU != g.(*ndp.MTU).MTU {
						add("C03:changed:mtu", fmt.Sprintf("%d decodes as %d", o.MTU, g.(*ndp.MTU).MTU))
					}
				case *ndp.LinkLayerAddress:
					g := g.(*ndp.LinkLayerAddress)
					if o.Direction != g.Direction || o.Addr.String() != g.Addr.String() {
						add("C03:changed:lla", fmt.Sprintf("%v decodes as %v", o, g))
					}
				case *ndp.CaptivePortal:
					if o.URI != g.(*ndp.CaptivePortal).URI {
						add("C03:changed:captive-portal", fmt.Sprintf("%q decodes as %q", o.URI, g.(*ndp.CaptivePortal).URI))
					}
				case *ndp.PREF64:
					g := g.(*ndp.PREF64)
					add(c03Field("pref64.lifetime", o.Lifetime, g.Lifetime, 8*s, 65528*s))
					a := o.Prefix.Addr()
					if !a.Is6() || a.Is4In6() {
						add("C03:changed:pref64-not-ipv6", fmt.Sprintf("pref64 prefix %s is not IPv6; decodes as %s", o.Prefix, g.Prefix))
					} else if o.Prefix.Masked() != g.Prefix {
						add("C03:changed:pref64-prefix", fmt.Sprintf("pref64 prefix %s decodes as %s", o.Prefix, g.Prefix))
					}
				default:
					add("C03:unknown-option", fmt.Sprintf("%T", o))
				}
			}
		}
	}
	return out
}

func TestVerifC03(t *testing.T) {
	r := ev.Begin("C03", "codec")
	defer r.End(t)
	r.Rule = "documents = base documents {static, wildcard} x {plain, deprecated at 4 clock readings, deprecated with a clock that advances 0.3 s / 2 s per reading across each deadline} with every duration-typed key set to each of 21 boundary strings (negative, empty, sub-second, 16/32-bit limits +-1, int64 limit, infinite, auto) one at a time, alone and in each of 4 interface modes (unicast_only, managed+other_config, preference high + hop_limit 0, unicast_only with the longest intervals) (quick) and all pairs of duration keys (thorough), the pref64 prefix set to each of 19 CIDR strings, and the prefix / route stanza's prefix set to each of 19 CIDR strings (IPv4, IPv4-mapped, 6to4, multicast, link-local, wildcard spellings); every ACCEPTED document is built (on a link with a MAC, without one, and with all addresses still tentative; loopback routes carrying the kernel preferences reserved/high/low; also with the RDNSS stanza reduced to the wildcard alone), encoded with ndp.MarshalMessage, decoded with ndp.ParseMessage and compared field by field up to truncation; non-trivial = accepted by the parser and RA generation succeeded; distinct = distinct TOML x clock"
	r.Assumptions = []string{"github.com/mdlayher/ndp's codec is the wire format (trusted)", "system state fixed to one for which RA generation succeeds (quantifier)"}

	if r.Replay != nil {
		var c c03Case
		if err := json.Unmarshal(r.Replay, &c); err != nil {
			t.Fatalf("bad replay: %v", err)
		}
		c.Doc = fixDoc(c.Doc)
		r.Case(c.Doc.TOML(), true)
		r.Sample(c)
		for _, v := range c03Check(c) {
			r.Violation(v[0], v[1], c)
		}
		return
	}
	accepted := int64(0)
	one := func(devs []string, d ref.Doc, clock time.Duration) {
		if !r.MineKey(fmt.Sprintf("%s@%s", d.TOML(), clock)) {
			return
		}
		c := c03Case{Devs: devs, Doc: d, Clock: clock}
		_, err := config.Parse(strings.NewReader(d.TOML()), c02Epoch)
		if err == nil {
			accepted++
		}
		r.Case(fmt.Sprintf("%s@%s", d.TOML(), clock), err == nil)
		r.Sample(map[string]any{"deviations": devs, "clock": clock.String(), "accepted": err == nil})
		for _, v := range c03Check(c) {
			r.Violation(v[0], v[1], c)
		}
	}
	clocks := []time.Duration{0}
	// Every prefix length for pref64.
	for bits := 0; bits <= 128; bits++ {
		d := c03Base(false, false)
		d.Ifaces[0].PREF64[0]["prefix"] = netip.PrefixFrom(netip.MustParseAddr("2001:db8:64::"), bits).Masked().String()
		one([]string{fmt.Sprintf("pref64.prefix=/%d", bits)}, d, 0)
	}
	for _, wild := range []bool{false, true} {
		for _, dep := range []bool{false, true} {
			cl := clocks
			if dep {
				cl = []time.Duration{0, 2 * time.Hour, 4 * time.Hour, 25 * time.Hour}
			}
			if dep {
				// The clock advances while the RA is being built, across each deadline
				// (preferred 4h, valid and route 24h after the epoch).
				for _, at := range []time.Duration{4*time.Hour - time.Second, 24*time.Hour - time.Second, 24*time.Hour - 100*time.Millisecond} {
					for _, step := range []time.Duration{300 * time.Millisecond, 2 * time.Second} {
						d := c03Base(dep, wild)
						c := c03Case{Devs: []string{"stepping-clock"}, Doc: d, Clock: at, Step: step}
						key := fmt.Sprintf("%s@%s+%s", d.TOML(), at, step)
						if r.MineKey(key) {
							r.Case(key, true)
							for _, v := range c03Check(c) {
								r.Violation(v[0], v[1], c)
							}
						}
					}
				}
			}
			for _, clock := range cl {
				one(nil, c03Base(dep, wild), clock)
				if wild {
					one([]string{"rdnss=wildcard-only"}, c03WildOnly(c03Base(dep, wild)), clock)
					d := c03Base(dep, wild)
					delete(d.Ifaces[0].RDNSS[0], "servers")
					one([]string{"rdnss=servers-omitted"}, d, clock)
				}
				for _, k := range c03Keys {
					for _, v := range c03Durations {
						d := c03Base(dep, wild)
						c03Set(&d, k, v)
						one([]string{k.Kind + "." + k.Key + "=" + v}, d, clock)
						// The same value in every operating mode a validation rule might be
						// conditional on.
						for _, mode := range c03Modes {
							d := c03Base(dep, wild)
							for mk, mv := range mode {
								d.Ifaces[0].Scalars[mk] = mv
							}
							c03Set(&d, k, v)
							one([]string{k.Kind + "." + k.Key + "=" + v, fmt.Sprint(mode)}, d, clock)
						}
					}
				}
				if r.Thorough() {
					for i, k1 := range c03Keys {
						for _, k2 := range c03Keys[i+1:] {
							for _, v1 := range c03Durations {
								for _, v2 := range c03Durations {
									d := c03Base(dep, wild)
									c03Set(&d, k1, v1)
									c03Set(&d, k2, v2)
									one([]string{k1.Kind + "." + k1.Key + "=" + v1, k2.Kind + "." + k2.Key + "=" + v2}, d, clock)
								}
							}
						}
					}
				}
			}
		}
		// Captive portal URIs around the option's 8-bit length (and IP literals, which the
		// option constructor refuses): accepted => encodable and unchanged on the wire.
		for _, n := range []int{100, 240, 246, 247, 248, 249, 250, 251, 252, 253, 254, 255, 256, 257, 300, 600} {
			d := c03Base(false, wild)
			d.Ifaces[0].Scalars["captive_portal"] = "https://example.com/" + strings.Repeat("a", n-len("https://example.com/"))
			one([]string{fmt.Sprintf("captive_portal of %d bytes", n)}, d, 0)
		}
		for _, u := range []string{"http://[2001:db8::1]/portal", "http://192.0.2.1/", "urn:ietf:params:capport:unrestricted", "https://example.com/" + strings.Repeat("%20", 90), "relative/path", ""} {
			d := c03Base(false, wild)
			d.Ifaces[0].Scalars["captive_portal"] = u
			one([]string{"captive_portal=" + u}, d, 0)
		}
		// Duration keys under stanza kinds that do not have them today (a version that
		// starts to accept one must range-check it like the others).
		for _, kind := range []string{"prefix", "route", "rdnss", "dnssl", "pref64"} {
			for _, key := range []string{"lifetime", "valid_lifetime", "preferred_lifetime"} {
				for _, v := range c03Durations {
					d := c03Base(false, wild)
					i := &d.Ifaces[0]
					t := map[string][]ref.Table{"prefix": i.Prefix, "route": i.Route, "rdnss": i.RDNSS, "dnssl": i.DNSSL, "pref64": i.PREF64}[kind][0]
					if _, has := t[key]; has {
						continue
					}
					t[key] = v
					one([]string{kind + "." + key + "=" + v + " (key not defined for this stanza today)"}, d, 0)
				}
			}
		}
		// pref64 lifetimes around the 13-bit scaled limit (65528 s = 8191 * 8 s).
		for _, v := range []string{"65527s", "65528s", "65529s", "65535s", "65535.5s", "65536s", "18h12m9s", "8s", "7s", "1s"} {
			d := c03Base(false, wild)
			d.Ifaces[0].PREF64[0]["lifetime"] = v
			one([]string{"pref64.lifetime=" + v}, d, 0)
		}
		// Prefix and route stanzas over address-family and wildcard-spelling edge cases:
		// whatever is accepted must survive the wire (the decoder refuses IPv4-mapped prefixes).
		for _, cidr := range c03CIDRs {
			for _, kind := range []string{"prefix", "route"} {
				d := c03Base(false, wild)
				if kind == "prefix" {
					d.Ifaces[0].Prefix[0]["prefix"] = cidr
				} else {
					d.Ifaces[0].Route[0]["prefix"] = cidr
				}
				one([]string{kind + ".prefix=" + cidr}, d, 0)
			}
		}
		for _, p := range c03PREF64 {
			for _, mx := range []string{"", "4s", "1800s", "1799s"} {
				d := c03Base(false, wild)
				d.Ifaces[0].PREF64[0]["prefix"] = p
				if mx != "" {
					d.Ifaces[0].Scalars["max_interval"] = mx
				}
				one([]string{"pref64.prefix=" + p, "max_interval=" + mx}, d, 0)
			}
		}
	}
	// Every whole-second max_interval: derived defaults (3*max lifetimes, PREF64 scaling) must encode.
	for mx := 4; mx <= 1800; mx++ {
		d := c03Base(false, false)
		d.Ifaces[0].Scalars["max_interval"] = fmt.Sprintf("%ds", mx)
		one([]string{fmt.Sprintf("max_interval=%ds", mx)}, d, 0)
	}
	r.Count("accepted_documents", accepted)
	_ = netip.Addr{}
}

// c03WireRoutePrefix returns the prefix bytes (zero-extended to 16) of the option with
// index idx of the marshalled RA b, which must be a Route Information option (type 24).
func c03WireRoutePrefix(b []byte, idx int) (netip.Addr, bool) {
	off := 16 // ICMPv6 header (4) + RA fields (12)
	for i := 0; off+2 <= len(b); i++ {
		l := int(b[off+1]) * 8
		if l == 0 || off+l > len(b) {
			return netip.Addr{}, false
		}
		if i == idx {
			if b[off] != 24 || l < 8 {
				return netip.Addr{}, false
			}
			var a [16]byte
			copy(a[:], b[off+8:off+l])
			return netip.AddrFrom16(a), true
		}
		off += l
	}
	return netip.Addr{}, false
}
