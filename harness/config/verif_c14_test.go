//go:build verif

package config_test

import (
	"encoding/json"
	"fmt"
	"net/netip"
	"sort"
	"strings"
	"testing"

	"github.com/mdlayher/corerad/internal/config"
	"github.com/mdlayher/corerad/internal/plugin"
	"github.com/mdlayher/corerad/internal/system"
	"github.com/mdlayher/corerad/verifrt/enum"
	"github.com/mdlayher/corerad/verifrt/ev"
	"github.com/mdlayher/corerad/verifrt/ref"
	"github.com/mdlayher/ndp"
)

// C14, configuration part: for every static server list (with the :: wildcard at
// every position) parsed by the real parser, the option built repeatedly from
// the SAME plugin instance is: the best interface address first, then the static
// servers sorted and without duplicates; the configuration is never altered.

type c14ParseCase struct {
	Servers []string `json:"servers"`
	Addrs   int      `json:"address_list"`
}

var c14ParseAddrs = [][]system.IP{
	{ref.IP("fd00::5/64", "F"), ref.IP("2001:db8::9/64", ""), ref.IP("fe80::1/64", "")},
	{ref.IP("fe80::1/64", ""), ref.IP("2001:db8::9/64", "")},
}

func c14ParseCheck(c c14ParseCase) (out [][2]string) {
	bad := func(sig, format string, a ...any) {
		out = append(out, [2]string{sig, ev.JSON(c) + ": " + fmt.Sprintf(format, a...)})
	}
	doc := ref.Doc{Ifaces: []ref.Iface{{Scalars: ref.Table{"name": "eth0", "advertise": true}, RDNSS: []ref.Table{{"servers": c.Servers}}}}}
	cfg, err := config.Parse(strings.NewReader(doc.TOML()), c02Epoch)
	if err != nil {
		bad("C14:parse:rejected", "%v", err)
		return out
	}
	var rd *plugin.RDNSS
	for _, p := range cfg.Interfaces[0].Plugins {
		if r, ok := p.(*plugin.RDNSS); ok {
			rd = r
		}
	}
	if rd == nil {
		bad("C14:parse:no-plugin", "no RDNSS plugin")
		return out
	}
	addrs := c14ParseAddrs[c.Addrs]
	rd.Addrs = func() ([]system.IP, error) { return append([]system.IP(nil), addrs...), nil }
	var static []string
	wild := false
	for _, s := range c.Servers {
		if netip.MustParseAddr(s).IsUnspecified() {
			wild = true
			continue
		}
		static = append(static, netip.MustParseAddr(s).String())
	}
	sort.Slice(static, func(i, j int) bool { return netip.MustParseAddr(static[i]).Less(netip.MustParseAddr(static[j])) })
	want := static
	if wild {
		best, _ := ref.BestRDNSS(addrs)
		want = append([]string{best.String()}, static...)
	}
	before := fmt.Sprint(rd.Servers, rd.Auto, rd.Lifetime)
	var firstRA *ndp.RouterAdvertisement
	for rep := 0; rep < 3; rep++ {
		ra := &ndp.RouterAdvertisement{}
		if err := rd.Apply(ra); err != nil {
			bad("C14:parse:apply-error", "build %d: %v", rep, err)
			return out
		}
		var got []string
		for _, s := range ra.Options[0].(*ndp.RecursiveDNSServer).Servers {
			got = append(got, s.String())
		}
		if fmt.Sprint(got) != fmt.Sprint(want) {
			bad("C14:parse:servers", "build %d: servers %v, want %v", rep, got, want)
			break
		}
		if firstRA == nil {
			firstRA = ra
		}
	}
	if firstRA != nil {
		// Earlier RAs must not be rewritten by later builds (shared backing array).
		var got []string
		for _, s := range firstRA.Options[0].(*ndp.RecursiveDNSServer).Servers {
			got = append(got, s.String())
		}
		if fmt.Sprint(got) != fmt.Sprint(want) {
			bad("C14:parse:earlier-ra-rewritten", "the first RA's servers changed to %v after later builds (want %v)", got, want)
		}
	}
	if after := fmt.Sprint(rd.Servers, rd.Auto, rd.Lifetime); after != before {
		bad("C14:parse:config-altered", "plugin configuration changed by building RAs: %s -> %s", before, after)
	}
	return out
}

func TestVerifC14Parse(t *testing.T) {
	r := ev.Begin("C14", "parse")
	defer r.End(t)
	r.Rule = "static server lists = all subsets (size<=3) of {::, 2001:db8::54, 2001:db8::53, fd00::53} in all permutations, parsed by the real config.Parse, x 2 interface address lists; the option is built 3 times from the same plugin instance; oracle: best interface address first (when :: is present), static servers sorted ascending without duplicates, identical across builds, earlier RAs not rewritten, configuration unchanged; non-trivial = list has >=2 entries; distinct = distinct case"
	if r.Replay != nil {
		var c c14ParseCase
		if err := json.Unmarshal(r.Replay, &c); err != nil {
			t.Fatalf("bad replay: %v", err)
		}
		r.Case(ev.JSON(c), true)
		r.Sample(c)
		for _, v := range c14ParseCheck(c) {
			r.Violation(v[0], v[1], c)
		}
		return
	}
	pool := []string{"::", "2001:db8::54", "2001:db8::53", "fd00::53"}
	enum.Subsets(len(pool), 3, func(ix []int) bool {
		if len(ix) == 0 {
			return true
		}
		var base []string
		for _, i := range ix {
			base = append(base, pool[i])
		}
		enum.Permutations(base, func(a, b string) bool { return a == b }, func(p []string) bool {
			for ai := range c14ParseAddrs {
				c := c14ParseCase{Servers: p, Addrs: ai}
				r.Case(ev.JSON(c), len(p) >= 2)
				r.Sample(c)
				for _, v := range c14ParseCheck(c) {
					r.Violation(v[0], v[1], c)
				}
			}
			return true
		})
		return true
	})
}
