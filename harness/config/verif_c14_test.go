//go:build verif

package config_test

import (
	"encoding/json"
	"fmt"
	"net"
	"net/netip"
	"sort"
	"strings"
	"testing"

	"github.com/mdlayher/corerad/internal/config"
	"github.com/mdlayher/corerad/internal/plugin"
	"github.com/mdlayher/corerad/internal/system"
	"github.com/mdlayher/corerad/verifrt/enum"
	"github.com/mdlayher/corerad/verifrt/ev"
	"github.com/mdlayher/corerad/verifrt/ref"
	"github.com/mdlayher/ndp"
)

// C14, configuration part: for every static server list (with the :: wildcard at
// every position) parsed by the real parser, the option built repeatedly from
// the SAME plugin instance is: the best interface address first, then the static
// servers sorted and without duplicates; the configuration is never altered.

type c14ParseCase struct {
	Servers []string `json:"servers"`
	Addrs   int      `json:"address_list"`
}

var c14ParseAddrs = [][]system.IP{
	{ref.IP("fd00::5/64", "F"), ref.IP("2001:db8::9/64", ""), ref.IP("fe80::1/64", "")},
	{ref.IP("fe80::1/64", ""), ref.IP("2001:db8::9/64", "")},
}

func c14ParseCheck(c c14ParseCase) (out [][2]string) {
	bad := func(sig, format string, a ...any) {
		out = append(out, [2]string{sig, ev.JSON(c) + ": " + fmt.Sprintf(format, a...)})
	}
	doc := ref.Doc{Ifaces: []ref.Iface{{Scalars: ref.Table{"name": "eth0", "advertise": true}, RDNSS: []ref.Table{{"servers": c.Servers}}}}}
	cfg, err := config.Parse(strings.NewReader(doc.TOML()), c02Epoch)
	// The same address spelled twice is a duplicate: the parser may refuse the list (it
	// does); if it accepts it the advertised list must still be free of duplicates.
	seen, dup := map[netip.Addr]bool{}, false
	for _, s := range c.Servers {
		a := netip.MustParseAddr(s)
		dup = dup || seen[a]
		seen[a] = true
	}
	if err != nil && dup {
		return out
	}
	if err != nil {
		bad("C14:parse:rejected", "%v", err)
		return out
	}
	var rd *plugin.RDNSS
	for _, p := range cfg.Interfaces[0].Plugins {
		if r, ok := p.(*plugin.RDNSS); ok {
			rd = r
		}
	}
	if rd == nil {
		bad("C14:parse:no-plugin", "no RDNSS plugin")
		return out
	}
	addrs := c14ParseAddrs[c.Addrs]
	rd.Addrs = func() ([]system.IP, error) { return append([]system.IP(nil), addrs...), nil }
	var static []string
	wild := false
	for _, s := range c.Servers {
		if netip.MustParseAddr(s).IsUnspecified() {
			wild = true
			continue
		}
		if a := netip.MustParseAddr(s).String(); !slicesContains(static, a) {
			static = append(static, a)
		}
	}
	sort.Slice(static, func(i, j int) bool { return netip.MustParseAddr(static[i]).Less(netip.MustParseAddr(static[j])) })
	want := static
	if wild {
		best, _ := ref.BestRDNSS(addrs)
		want = append([]string{best.String()}, static...)
	}
	before := fmt.Sprint(rd.Servers, rd.Auto, rd.Lifetime)
	var firstRA *ndp.RouterAdvertisement
	for rep := 0; rep < 3; rep++ {
		ra := &ndp.RouterAdvertisement{}
		if err := rd.Apply(ra); err != nil {
			bad("C14:parse:apply-error", "build %d: %v", rep, err)
			return out
		}
		var got []string
		for _, s := range ra.Options[0].(*ndp.RecursiveDNSServer).Servers {
			got = append(got, s.String())
		}
		if fmt.Sprint(got) != fmt.Sprint(want) {
			bad("C14:parse:servers", "build %d: servers %v, want %v", rep, got, want)
			break
		}
		if firstRA == nil {
			firstRA = ra
		}
	}
	if firstRA != nil {
		// Earlier RAs must not be rewritten by later builds (shared backing array).
		var got []string
		for _, s := range firstRA.Options[0].(*ndp.RecursiveDNSServer).Servers {
			got = append(got, s.String())
		}
		if fmt.Sprint(got) != fmt.Sprint(want) {
			bad("C14:parse:earlier-ra-rewritten", "the first RA's servers changed to %v after later builds (want %v)", got, want)
		}
	}
	if after := fmt.Sprint(rd.Servers, rd.Auto, rd.Lifetime); after != before {
		bad("C14:parse:config-altered", "plugin configuration changed by building RAs: %s -> %s", before, after)
	}
	return out
}

// c14GroupAddresser: interface index i (1-based) has the addresses fd00:0:0:i::1 and
// 2001:db8:0:i::1.
type c14GroupAddresser struct{}

func (c14GroupAddresser) AddressesByIndex(i int) ([]system.IP, error) {
	return []system.IP{ref.IP(fmt.Sprintf("2001:db8:0:%x::1/64", i), ""), ref.IP(fmt.Sprintf("fd00:0:0:%x::1/64", i), ""), ref.IP("fe80::1/64", "")}, nil
}
func (c14GroupAddresser) LoopbackRoutes() ([]system.Route, error) { return nil, nil }

// c14GroupCheck: interfaces configured together (names = [...]) or one by one, each with
// the :: wildcard, every one prepared (as each interface's advertiser does) before any
// RA is built, in every preparation order: the wildcard of each interface resolves to an
// address of that interface.
func c14GroupCheck(grouped bool, order []int) (out [][2]string) {
	names := []string{"lan0", "lan1", "lan2"}
	var doc ref.Doc
	rd := []ref.Table{{"servers": []string{"::", "2001:db8::53"}}}
	if grouped {
		doc.Ifaces = []ref.Iface{{Scalars: ref.Table{"names": names, "advertise": true}, RDNSS: rd, Prefix: []ref.Table{{}}}}
	} else {
		for _, n := range names {
			doc.Ifaces = append(doc.Ifaces, ref.Iface{Scalars: ref.Table{"name": n, "advertise": true}, RDNSS: rd, Prefix: []ref.Table{{}}})
		}
	}
	cfg, err := config.Parse(strings.NewReader(doc.TOML()), c02Epoch)
	if err != nil || len(cfg.Interfaces) != 3 {
		return [][2]string{{"C14:group:rejected", fmt.Sprintf("%v (%d interfaces)", err, len(cfg.Interfaces))}}
	}
	system.VerifSetAddresser(c14GroupAddresser{})
	defer system.VerifSetAddresser(nil)
	// An earlier incarnation of every interface (same name, another index - the device
	// was deleted and re-created): each was prepared for it once; the preparation below,
	// for the current device, is the one that counts.
	for i := range cfg.Interfaces {
		for _, p := range cfg.Interfaces[i].Plugins {
			if err := p.Prepare(&net.Interface{Index: 9, Name: names[i]}); err != nil {
				return [][2]string{{"C14:group:prepare", err.Error()}}
			}
		}
	}
	for _, i := range order {
		for _, p := range cfg.Interfaces[i].Plugins {
			if err := p.Prepare(&net.Interface{Index: i + 1, Name: names[i]}); err != nil {
				return [][2]string{{"C14:group:prepare", err.Error()}}
			}
		}
	}
	for i, ifi := range cfg.Interfaces {
		ra, _, err := ifi.RouterAdvertisement(true)
		if err != nil {
			out = append(out, [2]string{"C14:group:build", fmt.Sprintf("grouped=%t order=%v: %s: %v", grouped, order, ifi.Name, err)})
			continue
		}
		want := fmt.Sprintf("fd00:0:0:%x::1", i+1)
		var pfx []string
		for _, o := range ra.Options {
			if p, ok := o.(*ndp.PrefixInformation); ok {
				pfx = append(pfx, fmt.Sprintf("%s/%d", p.Prefix, p.PrefixLength))
			}
		}
		if wantP := fmt.Sprintf("[2001:db8:0:%x::/64 fd00:0:0:%x::/64]", i+1, i+1); fmt.Sprint(pfx) != wantP {
			out = append(out, [2]string{"C13:group:not-own-networks", fmt.Sprintf("grouped=%t prepared in order %v: %s advertises prefixes %v, want the /64s of its own addresses %s", grouped, order, ifi.Name, pfx, wantP)})
		}
		for _, o := range ra.Options {
			if r, ok := o.(*ndp.RecursiveDNSServer); ok {
				if len(r.Servers) == 0 || r.Servers[0].String() != want {
					out = append(out, [2]string{"C14:group:not-own-address", fmt.Sprintf("grouped=%t prepared in order %v: %s advertises %v, want its own address %s first", grouped, order, ifi.Name, r.Servers, want)})
				}
			}
		}
	}
	return out
}

func TestVerifC14Parse(t *testing.T) {
	r := ev.Begin("C14", "parse")
	defer r.End(t)
	r.Rule = "static server lists = all subsets (size<=3) of {::, 2001:db8::54, 2001:db8::53, fd00::53, and a second spelling of the last two} in all permutations, parsed by the real config.Parse, x 2 interface address lists; the option is built 3 times from the same plugin instance; oracle: best interface address first (when :: is present), static servers sorted ascending without duplicates, identical across builds, earlier RAs not rewritten, configuration unchanged; plus three interfaces configured as one names group / one by one, each with the wildcard, prepared in all 6 orders before any RA is built: each advertises its own address; non-trivial = list has >=2 entries; distinct = distinct case"
	if r.Replay != nil {
		var c c14ParseCase
		if err := json.Unmarshal(r.Replay, &c); err != nil {
			t.Fatalf("bad replay: %v", err)
		}
		r.Case(ev.JSON(c), true)
		r.Sample(c)
		for _, v := range c14ParseCheck(c) {
			r.Violation(v[0], v[1], c)
		}
		return
	}
	enum.Permutations([]int{0, 1, 2}, func(a, b int) bool { return a == b }, func(order []int) bool {
		for _, g := range []bool{true, false} {
			r.Case(fmt.Sprint("group ", g, order), true)
			for _, v := range c14GroupCheck(g, append([]int(nil), order...)) {
				r.Violation(v[0], v[1], nil)
			}
		}
		return true
	})
	// (the last two are other spellings of an address already in the pool)
	pool := []string{"::", "2001:db8::54", "2001:db8::53", "fd00::53", "2001:0db8::53", "FD00:0:0:0:0:0:0:53"}
	enum.Subsets(len(pool), 3, func(ix []int) bool {
		if len(ix) == 0 {
			return true
		}
		var base []string
		for _, i := range ix {
			base = append(base, pool[i])
		}
		enum.Permutations(base, func(a, b string) bool { return a == b }, func(p []string) bool {
			for ai := range c14ParseAddrs {
				c := c14ParseCase{Servers: p, Addrs: ai}
				r.Case(ev.JSON(c), len(p) >= 2)
				r.Sample(c)
				for _, v := range c14ParseCheck(c) {
					r.Violation(v[0], v[1], c)
				}
			}
			return true
		})
		return true
	})
}

func slicesContains(xs []string, x string) bool {
	for _, y := range xs {
		if y == x {
			return true
		}
	}
	return false
}

// TestVerifC13Group: the same group scenario, for the ::/64 prefix wildcard (C13).
func TestVerifC13Group(t *testing.T) {
	r := ev.Begin("C13", "group")
	defer r.End(t)
	r.Rule = "three interfaces configured as one names group / one by one, each with the ::/64 wildcard, parsed by the real config.Parse, every interface prepared through the real Prepare (address source per interface index) in all 6 orders before any RA is built: each interface advertises exactly the /64s of its own addresses; non-trivial = every case"
	enum.Permutations([]int{0, 1, 2}, func(a, b int) bool { return a == b }, func(order []int) bool {
		for _, g := range []bool{true, false} {
			r.Case(fmt.Sprint("group ", g, order), true)
			for _, v := range c14GroupCheck(g, append([]int(nil), order...)) {
				r.Violation(v[0], v[1], nil)
			}
		}
		return true
	})
}
