//go:build verif

package config_test

import (
	"encoding/json"
	"fmt"
	"github.com/mdlayher/corerad/internal/config"
	"github.com/mdlayher/corerad/verifrt/ref"
	"os"
	"path/filepath"
	"reflect"
	"regexp"
	"sort"
	"strings"
	"testing"
	"time"

	"github.com/mdlayher/corerad/verifrt/ev"
)

// C02: a document is accepted iff the documented constraints hold; on
// acceptance every default is exact; Parse never panics.

var c02Epoch = time.Date(2000, 1, 1, 0, 0, 0, 0, time.UTC)

func c02Base() ref.Doc {
	return ref.Doc{
		Ifaces: []ref.Iface{{
			Scalars: ref.Table{"name": "eth0", "advertise": true},
			Prefix:  []ref.Table{{"prefix": "2001:db8::/64"}},
			Route:   []ref.Table{{"prefix": "2001:db8:ffff::/48"}},
			RDNSS:   []ref.Table{{"servers": []string{"2001:db8::1"}}},
			DNSSL:   []ref.Table{{"domain_names": []string{"example.com"}}},
			PREF64:  []ref.Table{{}},
		}},
		Debug: ref.Table{"address": "localhost:9430"},
	}
}

type c02Dev struct {
	Slot, Name string
	f          func(d *ref.Doc)
}

func c02Devs() []c02Dev {
	var ds []c02Dev
	add := func(slot, name string, f func(d *ref.Doc)) { ds = append(ds, c02Dev{slot, name, f}) }
	setI := func(slot, key string, vals ...any) {
		for _, v := range vals {
			v := v
			add(slot, fmt.Sprintf("%s=%s", key, ref.TOMLValue(v)), func(d *ref.Doc) { d.Ifaces[0].Scalars[key] = v })
		}
	}
	tables := func(d *ref.Doc, kind string) *[]ref.Table {
		i := &d.Ifaces[0]
		switch kind {
		case "prefix":
			return &i.Prefix
		case "route":
			return &i.Route
		case "rdnss":
			return &i.RDNSS
		case "dnssl":
			return &i.DNSSL
		default:
			return &i.PREF64
		}
	}
	setT := func(slot, kind, key string, vals ...any) {
		for _, v := range vals {
			v := v
			add(slot, fmt.Sprintf("%s.%s=%s", kind, key, ref.TOMLValue(v)), func(d *ref.Doc) { (*tables(d, kind))[0][key] = v })
		}
	}
	addT := func(slot, name, kind string, t ref.Table) {
		add(slot, name, func(d *ref.Doc) { ts := tables(d, kind); *ts = append(*ts, t.Clone()) })
	}
	noT := func(slot, kind string) {
		add(slot, "no-"+kind, func(d *ref.Doc) { *tables(d, kind) = nil })
	}

	// Interface identity.
	add("ident", "names-1", func(d *ref.Doc) { s := d.Ifaces[0].Scalars; delete(s, "name"); s["names"] = []string{"eth0"} })
	add("ident", "names-2", func(d *ref.Doc) { s := d.Ifaces[0].Scalars; delete(s, "name"); s["names"] = []string{"eth0", "eth1"} })
	add("ident", "name+names", func(d *ref.Doc) { d.Ifaces[0].Scalars["names"] = []string{"eth1"} })
	add("ident", "name+names-same", func(d *ref.Doc) { d.Ifaces[0].Scalars["names"] = []string{"eth0"} })
	add("ident", "no-name", func(d *ref.Doc) { delete(d.Ifaces[0].Scalars, "name") })
	add("ident", "names-dup", func(d *ref.Doc) { s := d.Ifaces[0].Scalars; delete(s, "name"); s["names"] = []string{"eth0", "eth0"} })
	add("ident", "names-3", func(d *ref.Doc) {
		s := d.Ifaces[0].Scalars
		delete(s, "name")
		s["names"] = []string{"eth0", "eth1", "eth2"}
	})
	add("ident", "names-dup-nonadjacent", func(d *ref.Doc) {
		s := d.Ifaces[0].Scalars
		delete(s, "name")
		s["names"] = []string{"eth0", "eth1", "eth0"}
	})
	add("ident", "names-dup-last", func(d *ref.Doc) {
		s := d.Ifaces[0].Scalars
		delete(s, "name")
		s["names"] = []string{"eth0", "eth1", "eth2", "eth1"}
	})
	add("ident", "name-empty", func(d *ref.Doc) { d.Ifaces[0].Scalars["name"] = "" })
	add("ident", "names-empty", func(d *ref.Doc) { s := d.Ifaces[0].Scalars; delete(s, "name"); s["names"] = []string{} })
	add("ident", "name+names-empty", func(d *ref.Doc) { d.Ifaces[0].Scalars["names"] = []string{} })
	add("ident", "names-emptystring", func(d *ref.Doc) { s := d.Ifaces[0].Scalars; delete(s, "name"); s["names"] = []string{""} })

	// A second interface table.
	second := func(name string, s ref.Table, pfx []ref.Table) {
		add("second", name, func(d *ref.Doc) {
			d.Ifaces = append(d.Ifaces, ref.Iface{Scalars: s.Clone(), Prefix: ref.CloneTables(pfx)})
		})
	}
	second("second-monitor-eth1", ref.Table{"name": "eth1", "monitor": true}, nil)
	second("second-dup-eth0", ref.Table{"name": "eth0", "monitor": true}, nil)
	second("second-names-overlap", ref.Table{"names": []string{"eth1", "eth0"}, "advertise": true}, nil)
	second("second-adv-eth1", ref.Table{"name": "eth1", "advertise": true, "max_interval": "4s", "min_interval": "3s"}, []ref.Table{{}})
	second("second-neither-eth2", ref.Table{"name": "eth2"}, nil)
	second("second-nameless", ref.Table{"advertise": true}, nil)
	second("second-names-dup-nonadjacent", ref.Table{"names": []string{"eth1", "eth2", "eth1"}, "monitor": true}, nil)
	second("second-names-3-overlap-last", ref.Table{"names": []string{"eth1", "eth2", "eth0"}, "advertise": true}, nil)
	second("second-monitor-verbose-names", ref.Table{"names": []string{"eth1", "eth2"}, "monitor": true, "verbose": true}, nil)
	add("second", "no-interfaces", func(d *ref.Doc) { d.Ifaces = nil })

	// Mode.
	add("mode", "monitor+advertise", func(d *ref.Doc) { d.Ifaces[0].Scalars["monitor"] = true })
	add("mode", "monitor-only", func(d *ref.Doc) { s := d.Ifaces[0].Scalars; s["monitor"] = true; delete(s, "advertise") })
	add("mode", "neither", func(d *ref.Doc) { delete(d.Ifaces[0].Scalars, "advertise") })
	add("mode", "advertise-false", func(d *ref.Doc) { d.Ifaces[0].Scalars["advertise"] = false })

	setI("max", "max_interval", c02Max...)
	setI("min", "min_interval", c02Min...)
	setI("deflt", "default_lifetime", c02Deflt...)
	timers := []any{"", "0s", "1ns", "1.5s", "1h", "1h0m0.000000001s", "3601s", "-1ns", "abc", "auto", "infinite", "30", "3600.5s", "-500ms"}
	setI("reach", "reachable_time", timers...)
	setI("retrans", "retransmit_timer", timers...)
	setI("hop", "hop_limit", 0, 1, 64, 255, 256, -1)
	setI("mtu", "mtu", 0, 1, 1280, 1500, 65536, 65537, -1)
	setI("pref", "preference", "", "low", "medium", "high", "Medium", "highest")
	setI("lla", "source_lla", true, false)
	setI("cp", "captive_portal", "", "urn:ietf:params:capport:unrestricted", "https://example.com/portal")
	setI("unicast", "unicast_only", true)
	setI("managed", "managed", true)
	setI("other", "other_config", true)
	setI("verbose", "verbose", true)
	setI("unknown-iface", "bogus", "x")
	setI("unknown-iface", "max_intervals", "600s")

	// Prefix stanza.
	setT("p-prefix", "prefix", "prefix", "", "::/64", "::/0", "::/48", "::/63", "::/128", "2001:db8::/48", "2001:db8::/128",
		"2001:db8::1/64", "10.0.0.0/8", "::ffff:10.0.0.0/104", "2001:db8::", "garbage", "fe80::/64", "fd00::/8",
		// the unspecified IPv4 address, IPv4-mapped networks, other spellings of the wildcard
		"0.0.0.0/0", "0.0.0.0/32", "::ffff:0:0/96", "::ffff:192.0.2.0/120", "0::/64", "::0/64", "0:0:0:0:0:0:0:0/64", "0::/0")
	setT("p-valid", "prefix", "valid_lifetime", c02Life...)
	setT("p-pref", "prefix", "preferred_lifetime", c02Life...)
	setT("p-pref", "prefix", "preferred_lifetime", "24h0m0.000000001s", "24h0m1s", "4h0m0.000000001s")
	setT("p-dep", "prefix", "deprecated", true)
	setT("p-onlink", "prefix", "on_link", false, true)
	setT("p-auto", "prefix", "autonomous", false, true)
	setT("p-unknown", "prefix", "bogus", "x")
	noT("p-struct", "prefix")
	addT("p-struct", "prefix2-disjoint", "prefix", ref.Table{"prefix": "2001:db8:1::/64"})
	addT("p-struct", "prefix2-nested", "prefix", ref.Table{"prefix": "2001:db8::/65"})
	addT("p-struct", "prefix2-covering", "prefix", ref.Table{"prefix": "2001:db8::/32"})
	addT("p-struct", "prefix2-identical", "prefix", ref.Table{"prefix": "2001:db8::/64"})
	addT("p-struct", "prefix2-wildcard", "prefix", ref.Table{})
	addT("p-struct", "prefix2-wildcard-explicit", "prefix", ref.Table{"prefix": "::/64"})

	// Route stanza.
	setT("r-prefix", "route", "prefix", "", "::/0", "::/64", "::/1", "2001:db8:ffff::/64", "2001:db8:ffff::1/128", "2001:db8:ffff::1/48",
		"10.0.0.0/8", "::ffff:10.0.0.0/104", "garbage",
		"0.0.0.0/0", "0.0.0.0/32", "::ffff:0:0/96", "::ffff:192.0.2.0/120", "0::/0", "::0/0", "0:0:0:0:0:0:0:0/0", "0:0::/0", "0::/64")
	setT("r-life", "route", "lifetime", c02Life...)
	setT("r-pref", "route", "preference", "", "low", "medium", "high", "HIGH", "x")
	setT("r-dep", "route", "deprecated", true)
	setT("r-unknown", "route", "bogus", "x")
	noT("r-struct", "route")
	addT("r-struct", "route2-disjoint", "route", ref.Table{"prefix": "2001:db8:eeee::/48"})
	addT("r-struct", "route2-nested", "route", ref.Table{"prefix": "2001:db8:ffff:1::/64"})
	addT("r-struct", "route2-covering", "route", ref.Table{"prefix": "2001:db8::/32"})
	addT("r-struct", "route2-identical", "route", ref.Table{"prefix": "2001:db8:ffff::/48"})
	addT("r-struct", "route2-wildcard", "route", ref.Table{})
	addT("r-struct", "route2-wildcard-explicit", "route", ref.Table{"prefix": "::/0", "preference": "high"})

	// RDNSS.
	setT("d-servers", "rdnss", "servers", []string{}, []string{"::"}, []string{"::", "2001:db8::1"}, []string{"2001:db8::2", "::", "2001:db8::1"},
		[]string{"2001:db8::2", "2001:db8::1"}, []string{"::", "::"}, []string{"2001:db8::1", "2001:db8::1"}, []string{"2001:db8::1", "2001:db8:0::1"},
		[]string{"10.0.0.1"}, []string{"::ffff:10.0.0.1"}, []string{"garbage"}, []string{"fe80::1%eth0"}, []string{""})
	add("d-servers", "rdnss.no-servers-key", func(d *ref.Doc) { delete(d.Ifaces[0].RDNSS[0], "servers") })
	setT("d-life", "rdnss", "lifetime", c02Life...)
	setT("d-unknown", "rdnss", "bogus", "x")
	noT("d-struct", "rdnss")
	addT("d-struct", "rdnss2", "rdnss", ref.Table{"servers": []string{"2001:db8::1"}, "lifetime": "1s"})

	// DNSSL.
	setT("l-names", "dnssl", "domain_names", []string{}, []string{"a.example", "b.example"}, []string{"b.example", "a.example"},
		[]string{"example.com", "example.com"}, []string{""})
	add("l-names", "dnssl.no-names-key", func(d *ref.Doc) { delete(d.Ifaces[0].DNSSL[0], "domain_names") })
	setT("l-life", "dnssl", "lifetime", c02Life...)
	setT("l-unknown", "dnssl", "bogus", "x")
	noT("l-struct", "dnssl")
	addT("l-struct", "dnssl2", "dnssl", ref.Table{"domain_names": []string{"example.com"}})

	// PREF64.
	setT("f-prefix", "pref64", "prefix", "", "64:ff9b::/96", "2001:db8::/64", "2001:db8::/56", "2001:db8::/48", "2001:db8::/40", "2001:db8::/32",
		"2001:db8::/33", "2001:db8::/95", "2001:db8::/97", "2001:db8::/24", "2001:db8::/72", "2001:db8::/80", "2001:db8::/88", "2001:db8::/104", "::/0", "2001:db8::/128", "10.0.0.0/8", "10.0.0.0/32", "::ffff:10.0.0.0/96", "64:ff9b::1/96", "garbage", "/33")
	setT("f-unknown", "pref64", "bogus", "x")
	noT("f-struct", "pref64")
	addT("f-struct", "pref64-2", "pref64", ref.Table{"prefix": "2001:db8:64::/96"})
	add("f-struct", "pref64-default-after-explicit", func(d *ref.Doc) {
		ts := tables(d, "pref64")
		*ts = []ref.Table{{"prefix": "2001:db8:64::/96"}, {}, {"prefix": ""}}
	})

	// Debug and top level.
	for _, a := range []string{"", ":9430", "[::1]:9430", "127.0.0.1:9430", "localhost:0", "localhost:65535", "localhost", "localhost:65536", "localhost:-1", "a:b:c", "[::1]", "localhost:http2x"} {
		a := a
		add("g-addr", "debug.address="+a, func(d *ref.Doc) { d.Debug["address"] = a })
	}
	add("g-prom", "debug.prometheus", func(d *ref.Doc) { d.Debug["prometheus"] = true })
	add("g-pprof", "debug.pprof", func(d *ref.Doc) { d.Debug["pprof"] = true })
	add("g-unknown", "debug.bogus", func(d *ref.Doc) { d.Debug["bogus"] = true })
	add("g-addr", "no-debug", func(d *ref.Doc) { d.Debug = nil })
	add("top", "top.bogus", func(d *ref.Doc) { d.Top = ref.Table{"bogus": "x"} })
	return ds
}

var (
	c02Max = []any{"", "3s", "3.999999999s", "4s", "4.5s", "8s", "8.999999999s", "9s", "10s", "12.121212122s", "600s", "1800s",
		"1800.000000001s", "1801s", "-4s", "abc", "0s", "30m", "auto", "infinite", "600", "1800.5s"}
	c02Min = []any{"auto", "", "2s", "2.999999999s", "3s", "3.000000001s", "3.5s", "3.9s", "4s", "6s", "7s", "449s", "450s", "450.000000001s", "451s",
		"1350s", "1351s", "-3s", "abc", "0s", "infinite", "3"}
	c02Deflt = []any{"auto", "", "0s", "1s", "3s", "4s", "599s", "599.999999999s", "600s", "600.000000001s", "1800s", "1801s", "5400s", "9000s", "9000.000000001s", "9001s",
		"infinite", "-1s", "-9000s", "abc", "1800", "-30"}
	c02Life = []any{"auto", "", "0s", "1ns", "1s", "4h", "24h", "infinite", "-1ns", "-1s", "-24h", "abc", "4294967294s", "4294967295s", "4294967296s", "1200000h",
		"3600", "-30", "4294967296", "0"}
)

type c02Case struct {
	Devs []string `json:"deviations"`
	Doc  ref.Doc  `json:"document"`
}

var (
	reNum  = regexp.MustCompile(`-?[0-9][0-9a-zµ.:]*`)
	reQuot = regexp.MustCompile(`"[^"]*"`)
)

func c02Norm(s string) string {
	s = reQuot.ReplaceAllString(s, `"*"`)
	s = reNum.ReplaceAllString(s, "N")
	if len(s) > 90 {
		s = s[:90]
	}
	return s
}

// c02Eval parses one document and compares with the reference model.
func c02Eval(doc ref.Doc) (verdict ref.Verdict, out [][2]string) {
	text := doc.TOML()
	want, wantCfg, why := ref.Parse(doc, c02Epoch)
	var (
		got *config.Config
		err error
		pv  any
	)
	func() {
		defer func() { pv = recover() }()
		got, err = config.Parse(strings.NewReader(text), c02Epoch)
	}()
	if pv != nil {
		return want, [][2]string{{"C02:panic", fmt.Sprintf("Parse panicked: %v\n%s", pv, text)}}
	}
	switch want {
	case ref.DontCare:
		return want, nil
	case ref.Reject:
		if err == nil {
			out = append(out, [2]string{"C02:accepts:" + c02Norm(why), fmt.Sprintf("accepted although %s:\n%s", why, text)})
		}
		return want, out
	}
	if err != nil {
		return want, [][2]string{{"C02:rejects-valid:" + c02Norm(err.Error()), fmt.Sprintf("rejected (%v) a document satisfying every documented constraint:\n%s", err, text)}}
	}
	for _, d := range c02Diff(wantCfg, got) {
		out = append(out, [2]string{"C02:default:" + d[0], fmt.Sprintf("%s\n%s", d[1], text)})
	}
	return want, out
}

// c02Diff names the fields in which two configurations differ.
func c02Diff(want, got *config.Config) [][2]string {
	var out [][2]string
	if reflect.DeepEqual(want, got) {
		return nil
	}
	if want.Debug != got.Debug {
		out = append(out, [2]string{"debug", fmt.Sprintf("debug: want %+v got %+v", want.Debug, got.Debug)})
	}
	if len(want.Interfaces) != len(got.Interfaces) {
		return append(out, [2]string{"interface-count", fmt.Sprintf("want %d interfaces, got %d", len(want.Interfaces), len(got.Interfaces))})
	}
	for i := range want.Interfaces {
		w, g := reflect.ValueOf(want.Interfaces[i]), reflect.ValueOf(got.Interfaces[i])
		for f := 0; f < w.NumField(); f++ {
			name := w.Type().Field(f).Name
			if name == "Plugins" {
				continue
			}
			if !reflect.DeepEqual(w.Field(f).Interface(), g.Field(f).Interface()) {
				out = append(out, [2]string{name, fmt.Sprintf("interface %d %s: want %v got %v", i, name, w.Field(f).Interface(), g.Field(f).Interface())})
			}
		}
		wp, gp := want.Interfaces[i].Plugins, got.Interfaces[i].Plugins
		if len(wp) != len(gp) {
			out = append(out, [2]string{"plugin-count", fmt.Sprintf("interface %d: want plugins %v got %v", i, pluginNames(wp), pluginNames(gp))})
			continue
		}
		for k := range wp {
			if !reflect.DeepEqual(wp[k], gp[k]) {
				out = append(out, [2]string{"plugin:" + fmt.Sprintf("%T", wp[k]), fmt.Sprintf("interface %d plugin %d: want %T %s got %T %s", i, k, wp[k], wp[k], gp[k], gp[k])})
			}
		}
	}
	if len(out) == 0 {
		out = append(out, [2]string{"other", "configs differ (DeepEqual) but no field located"})
	}
	return out
}

func pluginNames(ps interface{}) []string {
	v := reflect.ValueOf(ps)
	var s []string
	for i := 0; i < v.Len(); i++ {
		s = append(s, fmt.Sprintf("%T", v.Index(i).Interface()))
	}
	return s
}

func TestVerifC02(t *testing.T) {
	r := ev.Begin("C02", "docs")
	defer r.End(t)
	r.Rule = "documents = a valid base document (one of every stanza kind + debug) with every combination of <=2 deviations from different slots (per-key boundary values: valid, limit-1, limit, limit+1, invalid; structural choices: name/names, second table, modes, 0-2 stanzas incl. overlapping/nested/wildcard), plus full products inside interaction groups (max x min, max x default_lifetime, valid x preferred x deprecated, route lifetime x deprecated, all 1797 whole-second max x boundary mins); each parsed by the real config.Parse and compared with a reference verdict and expected Config; non-trivial = reference verdict is accept or reject (not don't-care) and the document differs from the base; distinct = distinct rendered TOML"
	r.Assumptions = []string{"reference model written from the property statement and reference.toml; where they are silent the verdict is don't-care and nothing is compared (listed in DESIGN.md C02)"}

	if r.Replay != nil {
		var c c02Case
		if err := json.Unmarshal(r.Replay, &c); err != nil {
			t.Fatalf("bad replay: %v", err)
		}
		c.Doc = fixDoc(c.Doc)
		_, vs := c02Eval(c.Doc)
		r.Case(c.Doc.TOML(), true)
		r.Sample(c)
		for _, v := range vs {
			r.Violation(v[0], v[1], c)
		}
		return
	}

	verdicts := map[ref.Verdict]int64{}
	one := func(names []string, doc ref.Doc) {
		if !r.MineKey(doc.TOML()) {
			return
		}
		v, vs := c02Eval(doc)
		verdicts[v]++
		c := c02Case{Devs: names, Doc: doc}
		r.Case(doc.TOML(), v != ref.DontCare && len(names) > 0)
		r.Sample(map[string]any{"deviations": names, "reference_verdict": v.String(), "toml": doc.TOML()})
		for _, x := range vs {
			r.Violation(x[0], x[1], c)
		}
	}

	devs := c02Devs()
	one(nil, c02Base())
	for _, a := range devs {
		d := c02Base()
		a.f(&d)
		one([]string{a.Name}, d)
	}
	apply2 := func(a, b c02Dev) {
		d := c02Base()
		ok := true
		func() {
			defer func() {
				if recover() != nil {
					ok = false // deviations that do not compose (e.g. stanza removed, then key set)
				}
			}()
			a.f(&d)
			b.f(&d)
		}()
		if ok {
			one([]string{a.Name, b.Name}, d)
		}
	}
	for i, a := range devs {
		for _, b := range devs[i+1:] {
			if a.Slot == b.Slot {
				continue
			}
			apply2(a, b)
		}
	}
	r.Count("single_deviations", int64(len(devs)))

	// Interaction groups: full products.
	setI := func(d *ref.Doc, k string, v any) { d.Ifaces[0].Scalars[k] = v }
	for _, mx := range c02Max {
		for _, mn := range c02Min {
			d := c02Base()
			setI(&d, "max_interval", mx)
			setI(&d, "min_interval", mn)
			one([]string{"max=" + mx.(string), "min=" + mn.(string)}, d)
		}
		for _, dl := range c02Deflt {
			d := c02Base()
			setI(&d, "max_interval", mx)
			setI(&d, "default_lifetime", dl)
			one([]string{"max=" + mx.(string), "default_lifetime=" + dl.(string)}, d)
		}
		for _, lt := range []any{"auto", "", "1s"} {
			d := c02Base()
			setI(&d, "max_interval", mx)
			d.Ifaces[0].RDNSS[0]["lifetime"] = lt
			d.Ifaces[0].DNSSL[0]["lifetime"] = lt
			one([]string{"max=" + mx.(string), "rdnss/dnssl.lifetime=" + lt.(string)}, d)
		}
	}
	for _, v := range c02Life {
		for _, p := range c02Life {
			for _, dep := range []bool{false, true} {
				d := c02Base()
				d.Ifaces[0].Prefix[0]["valid_lifetime"] = v
				d.Ifaces[0].Prefix[0]["preferred_lifetime"] = p
				d.Ifaces[0].Prefix[0]["deprecated"] = dep
				one([]string{"valid=" + v.(string), "preferred=" + p.(string), fmt.Sprint("deprecated=", dep)}, d)
			}
		}
		for _, dep := range []bool{false, true} {
			d := c02Base()
			d.Ifaces[0].Route[0]["lifetime"] = v
			d.Ifaces[0].Route[0]["deprecated"] = dep
			one([]string{"route.lifetime=" + v.(string), fmt.Sprint("deprecated=", dep)}, d)
		}
	}
	// Every whole-second max_interval with the boundary min_intervals around
	// its own upper bound, and the derived defaults.
	stride := 7
	if r.Thorough() {
		stride = 1
	}
	for mx := 4; mx <= 1800; mx += stride {
		upper := mx * 3 / 4
		for _, mn := range []string{"auto", "2s", "3s", fmt.Sprintf("%ds", upper), fmt.Sprintf("%ds", upper+1), fmt.Sprintf("%d.000000001s", upper), fmt.Sprintf("%d.5s", upper)} {
			d := c02Base()
			setI(&d, "max_interval", fmt.Sprintf("%ds", mx))
			setI(&d, "min_interval", mn)
			one([]string{fmt.Sprintf("max=%ds", mx), "min=" + mn}, d)
		}
	}
	if stride != 1 {
		r.Note("quick tier: whole-second max_interval sweep uses stride %d (thorough: all 1797 values)", stride)
	}
	for v, n := range verdicts {
		r.Count("reference_"+v.String(), n)
	}
}

// fixDoc repairs types lost in a JSON round trip of a replay ([]any -> []string, float64 -> int).
func fixDoc(d ref.Doc) ref.Doc {
	fix := func(t ref.Table) {
		for k, v := range t {
			switch x := v.(type) {
			case []any:
				ss := make([]string, 0, len(x))
				for _, e := range x {
					ss = append(ss, fmt.Sprint(e))
				}
				t[k] = ss
			case float64:
				t[k] = int(x)
			}
		}
	}
	fix(d.Top)
	fix(d.Debug)
	for i := range d.Ifaces {
		fix(d.Ifaces[i].Scalars)
		for _, ts := range [][]ref.Table{d.Ifaces[i].Prefix, d.Ifaces[i].Route, d.Ifaces[i].RDNSS, d.Ifaces[i].DNSSL, d.Ifaces[i].PREF64} {
			for _, t := range ts {
				fix(t)
			}
		}
	}
	return d
}

// --- totality ---------------------------------------------------------------

func c02ParseTotal(r *ev.Run, text string, what string) {
	var pv any
	func() {
		defer func() { pv = recover() }()
		_, _ = config.Parse(strings.NewReader(text), c02Epoch)
	}()
	if pv != nil {
		r.Violation("C02:panic:"+c02Norm(fmt.Sprint(pv)), fmt.Sprintf("Parse panicked (%v) on %s: %q", pv, what, text), map[string]any{"text": text})
	}
}

func TestVerifC02Total(t *testing.T) {
	r := ev.Begin("C02", "total")
	defer r.End(t)
	r.Rule = "totality: (a) every byte string of length <=L over a 14-symbol TOML-structural alphabet; (b) every prefix, every single-byte deletion and every single-byte substitution (10 symbols) of reference.toml, the Minimal template and the C02 base document (quick: position stride); oracle = no panic; non-trivial = every string; distinct = distinct string"

	if r.Replay != nil {
		var c struct {
			Text string `json:"text"`
		}
		if err := json.Unmarshal(r.Replay, &c); err != nil {
			t.Fatalf("bad replay: %v", err)
		}
		r.Case(c.Text, true)
		r.Sample(c.Text)
		c02ParseTotal(r, c.Text, "replay")
		return
	}

	alpha := []byte{'[', ']', '"', '\'', '=', '\n', 'a', '1', '.', ',', '#', '{', '}', '-'}
	L := 4
	if r.Thorough() {
		L = 6
	}
	idx := 0
	buf := make([]byte, 0, L)
	var rec func(n int)
	rec = func(n int) {
		idx++
		if s := string(buf); r.MineKey(s) {
			r.Case(s, true)
			if idx%9973 == 1 {
				r.Sample(s)
			}
			c02ParseTotal(r, s, "short string")
		}
		if n == L {
			return
		}
		for _, c := range alpha {
			buf = append(buf, c)
			rec(n + 1)
			buf = buf[:len(buf)-1]
		}
	}
	rec(0)
	r.Count("max_string_len", int64(L))

	repo := os.Getenv("VERIF_REPO")
	if repo == "" {
		repo = "/repo"
	}
	ref, err := os.ReadFile(filepath.Join(repo, "internal/config/reference.toml"))
	if err != nil {
		t.Fatalf("reference.toml: %v", err)
	}
	subst := []byte{'[', ']', '"', '=', '\n', '#', '0', '-', '.', 0xff}
	stride := 23
	if r.Thorough() {
		stride = 1
	}
	for _, base := range []struct {
		name string
		text string
	}{{"reference.toml", string(ref)}, {"Minimal", fmt.Sprintf(config.Minimal, "CoreRAD")}, {"base", c02Base().TOML()}} {
		b := []byte(base.text)
		for pos := 0; pos <= len(b); pos++ {
			if pos%stride != 0 && base.name == "reference.toml" {
				continue
			}
			idx++
			if s := string(b[:pos]); r.MineKey(s) {
				r.Case(s, true)
				c02ParseTotal(r, s, "prefix of "+base.name)
			}
			if pos == len(b) {
				break
			}
			if del := string(b[:pos]) + string(b[pos+1:]); r.MineKey(del) {
				r.Case(del, true)
				c02ParseTotal(r, del, "deletion in "+base.name)
			}
			for _, c := range subst {
				if c == b[pos] {
					continue
				}
				m := string(append(append(append([]byte(nil), b[:pos]...), c), b[pos+1:]...))
				if !r.MineKey(m) {
					continue
				}
				r.Case(m, true)
				if idx%4099 == 0 {
					r.Sample(map[string]any{"base": base.name, "pos": pos, "byte": c})
				}
				c02ParseTotal(r, m, "substitution in "+base.name)
			}
		}
	}
	if stride != 1 {
		r.Note("quick tier: reference.toml positions use stride %d (thorough: every position)", stride)
	}
	_ = sort.Strings
}
