//go:build verif

package config_test

import "net/netip"

func mustPrefix(s string) netip.Prefix { return netip.MustParsePrefix(s) }
func mustAddr(s string) netip.Addr     { return netip.MustParseAddr(s) }
