//go:build verif

package config_test

import (
	"encoding/json"
	"fmt"
	"net/netip"
	"strings"
	"testing"
	"time"

	"github.com/mdlayher/corerad/internal/config"
	"github.com/mdlayher/corerad/internal/plugin"
	"github.com/mdlayher/corerad/internal/system"
	"github.com/mdlayher/corerad/verifrt/enum"
	"github.com/mdlayher/corerad/verifrt/ev"
	"github.com/mdlayher/corerad/verifrt/ref"
	"github.com/mdlayher/ndp"
)

// C15 through the configuration: (a) "with the ::/0 route wildcard" - however the wildcard
// is written (omitted, "", "::/0", or another spelling of the same prefix) the stanza
// expands to the loopback routes; (b) "the same rule the configuration enforces for static
// routes" - a list of static routes is accepted iff no two of them overlap, whatever
// their order, and what is accepted yields non-overlapping route options.

type c15ParseCase struct {
	Spelling *string  `json:"wildcard_spelling,omitempty"` // nil = key omitted
	Dump     int      `json:"route_dump,omitempty"`
	Static   []string `json:"static_routes,omitempty"`
}

var c15Dumps = [][]string{
	{"2001:db8::/32", "2001:db8:ffff::/48", "fd00:2::/64", "::1/128"},
	{"fd00::/48", "fd00::/64", "2001:db8:1:2::/64"},
	{},
}

func c15ParseCheck(c c15ParseCase) (out [][2]string) {
	bad := func(sig, format string, a ...any) {
		out = append(out, [2]string{sig, ev.JSON(c) + ": " + fmt.Sprintf(format, a...)})
	}
	ifi := ref.Iface{Scalars: ref.Table{"name": "eth0", "advertise": true}}
	if c.Static == nil {
		t := ref.Table{"preference": "high", "lifetime": "10m"}
		if c.Spelling != nil {
			t["prefix"] = *c.Spelling
		}
		ifi.Route = []ref.Table{t}
	} else {
		for _, p := range c.Static {
			ifi.Route = append(ifi.Route, ref.Table{"prefix": p})
		}
	}
	text := ref.Doc{Ifaces: []ref.Iface{ifi}}.TOML()
	cfg, err := config.Parse(strings.NewReader(text), c02Epoch)
	if c.Static != nil {
		overlap := ""
		for i, a := range c.Static {
			for j, b := range c.Static {
				if i < j && netip.MustParsePrefix(a).Overlaps(netip.MustParsePrefix(b)) {
					overlap = a + " and " + b
				}
			}
		}
		switch {
		case overlap != "" && err == nil:
			bad("C15:parse:overlapping-static-routes-accepted", "static routes %v accepted although %s overlap", c.Static, overlap)
		case overlap == "" && err != nil:
			bad("C15:parse:disjoint-static-routes-rejected", "static routes %v rejected: %v", c.Static, err)
		}
		if err != nil {
			return out
		}
	} else if err != nil {
		bad("C15:parse:wildcard-rejected", "%v\n%s", err, text)
		return out
	}
	var dump []system.Route
	for i, p := range c15Dumps[c.Dump] {
		dump = append(dump, system.Route{Prefix: netip.MustParsePrefix(p), Index: 1 + i%2})
	}
	ra := &ndp.RouterAdvertisement{}
	for _, p := range cfg.Interfaces[0].Plugins {
		if rt, ok := p.(*plugin.Route); ok {
			rt.TimeNow = func() time.Time { return c02Epoch }
			rt.Routes = func() ([]system.Route, error) { return append([]system.Route(nil), dump...), nil }
		}
		if err := p.Apply(ra); err != nil {
			bad("C15:parse:apply", "%v", err)
			return out
		}
	}
	var got []netip.Prefix
	for _, o := range ra.Options {
		if ri, ok := o.(*ndp.RouteInformation); ok {
			got = append(got, netip.PrefixFrom(ri.Prefix, int(ri.PrefixLength)))
			if c.Static == nil && (ri.Preference != ndp.High || ri.RouteLifetime != 10*time.Minute) {
				bad("C15:parse:wildcard-fields", "route %s/%d advertised with preference %s lifetime %s, the stanza says high / 10m", ri.Prefix, ri.PrefixLength, ri.Preference, ri.RouteLifetime)
			}
		}
	}
	for i, a := range got {
		for j, b := range got {
			if i < j && a.Overlaps(b) {
				bad("C15:parse:overlapping-options", "the RA carries overlapping routes %s and %s (all: %v)", a, b, got)
			}
		}
	}
	if c.Static == nil {
		want := ref.WildRoutes(dump)
		if fmt.Sprint(got) != fmt.Sprint(want) && !(len(got) == 0 && len(want) == 0) {
			sp := "<omitted>"
			if c.Spelling != nil {
				sp = fmt.Sprintf("%q", *c.Spelling)
			}
			bad("C15:parse:wildcard-not-expanded", "route stanza with prefix %s over the loopback routes %v advertises %v, want %v", sp, c15Dumps[c.Dump], got, want)
		}
	}
	return out
}

func TestVerifC15Parse(t *testing.T) {
	r := ev.Begin("C15", "parse")
	defer r.End(t)
	r.Rule = "through the real config.Parse: (a) the route wildcard written in 8 ways (key omitted, empty, ::/0, 0::/0, ::0/0, 0:0::/0, 0:0:0:0:0:0:0:0/0, ::0.0.0.0/0) x 3 loopback route dumps: accepted, expands to the maximal non-overlapping loopback routes with the stanza's preference and lifetime; (b) all ordered lists of 2 and 3 static routes from an 8-prefix pool (nested with equal and different base addresses, disjoint): accepted iff no two overlap, and an accepted list yields non-overlapping route options; non-trivial = every case; distinct = distinct case"
	if r.Replay != nil {
		var c c15ParseCase
		if err := json.Unmarshal(r.Replay, &c); err != nil {
			t.Fatalf("bad replay: %v", err)
		}
		r.Case(ev.JSON(c), true)
		for _, v := range c15ParseCheck(c) {
			r.Violation(v[0], v[1], c)
		}
		return
	}
	spell := []string{"", "::/0", "0::/0", "::0/0", "0:0::/0", "0:0:0:0:0:0:0:0/0", "::0.0.0.0/0"}
	for d := range c15Dumps {
		cases := []c15ParseCase{{Dump: d}}
		for i := range spell {
			cases = append(cases, c15ParseCase{Spelling: &spell[i], Dump: d})
		}
		for _, c := range cases {
			r.Case(ev.JSON(c), true)
			for _, v := range c15ParseCheck(c) {
				r.Violation(v[0], v[1], c)
			}
		}
	}
	pool := []string{"2001:db8::/32", "2001:db8:ffff::/48", "2001:db8:ffff::/64", "fd00::/48", "fd00:0:0:1::/64", "2001:db9::/32", "2001:db8::/48", "fd00:1::/64"}
	enum.Sequences(len(pool), 3, func(seq []int) bool {
		if len(seq) < 2 {
			return true
		}
		var st []string
		for _, i := range seq {
			st = append(st, pool[i])
		}
		c := c15ParseCase{Static: st}
		r.Case(ev.JSON(c), true)
		for _, v := range c15ParseCheck(c) {
			r.Violation(v[0], v[1], c)
		}
		return true
	})
}
