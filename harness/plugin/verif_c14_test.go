//go:build verif

package plugin

import (
	"encoding/json"
	"errors"
	"fmt"
	"net/netip"
	"testing"
	"time"

	"github.com/mdlayher/corerad/internal/system"
	"github.com/mdlayher/corerad/verifrt/enum"
	"github.com/mdlayher/corerad/verifrt/ev"
	"github.com/mdlayher/ndp"
)

// C14: the :: RDNSS wildcard picks, independent of listing order, the eligible
// (IPv6, not deprecated/temporary/tentative) address that is best under the
// documented ranking; static servers follow; none eligible => error.

var c14Pool = []vfIP{
	{Class: "ula-flag", Addr: "fd00::5/64", Flags: "F"},
	{Class: "ula-eui64", Addr: "fd00::211:22ff:fe33:4455/64"},
	{Class: "ula-plain", Addr: "fd00:0:0:1::a/64"},
	{Class: "ula-plain-2", Addr: "fd00:0:0:1::b/64"},
	{Class: "gua-flag", Addr: "2001:db8::9/64", Flags: "S"},
	{Class: "gua-eui64", Addr: "2001:db8::211:22ff:fe33:4455/64"},
	{Class: "gua-plain", Addr: "2001:db8::1/64"},
	{Class: "ll-flag", Addr: "fe80::1/64", Flags: "F"},
	{Class: "ll-eui64", Addr: "fe80::211:22ff:fe33:4455/64"},
	{Class: "ll-plain", Addr: "fe80::2/64"},
	{Class: "deprecated-stable-ula", Addr: "fd00::1/64", Flags: "DF"},
	{Class: "temporary-ula", Addr: "fd00::2/64", Flags: "TM"},
	{Class: "tentative-ula", Addr: "fd00::3/64", Flags: "NS"},
	{Class: "ipv4", Addr: "10.0.0.1/8", Flags: "F"},
	{Class: "other-loopback", Addr: "::1/128"},
	{Class: "gua-flag-mgmt", Addr: "2001:db8::8/64", Flags: "M"},
	// Half an EUI-64 pattern (only ff, only fe at the marker bytes) is not EUI-64.
	{Class: "gua-ff-only", Addr: "2001:db8::ff:100:1/64"},
	{Class: "ula-fe-only", Addr: "fd00::fe00:1/64"},
}

var c14Static = [][]string{
	nil,
	{"2001:db8::53"},
	{"2001:db8::53", "2001:db8::54"},
	// A static server that is also an address of the interface (the best-ranked one
	// of the pool, and a middling one): the wildcard's choice must still come first.
	{"2001:db8::53", "fd00::5"},
	{"2001:db8::1", "fd00:0:0:1::a"},
}

type c14Case struct {
	Addrs  []vfIP `json:"addrs"`
	Static int    `json:"static"`
	Fail   bool   `json:"source_fails,omitempty"`
	// see c13Case
	Transient     int `json:"transient_failures,omitempty"`
	TransientKind int `json:"transient_kind,omitempty"`
}

func c14Eligible(ip system.IP) bool {
	a := ip.Address.Addr()
	return a.Is6() && !a.Is4In6() && !ip.Deprecated && !ip.Temporary && !ip.Tentative
}

// c14Key is the documented ranking as a sort key (lower is better).
func c14Key(ip system.IP) (int, int, netip.Addr) {
	a := ip.Address.Addr()
	b := a.As16()
	stable := ip.ValidForever || ip.ManageTemporaryAddresses || ip.StablePrivacy || (b[11] == 0xff && b[12] == 0xfe)
	s := 1
	if stable {
		s = 0
	}
	class := 3
	switch {
	case b[0]&0xfe == 0xfc: // unique local fc00::/7
		class = 0
	case a.IsLinkLocalUnicast():
		class = 2
	case a.IsGlobalUnicast():
		class = 1
	}
	return s, class, a
}

func c14Less(x, y system.IP) bool {
	xs, xc, xa := c14Key(x)
	ys, yc, ya := c14Key(y)
	if xs != ys {
		return xs < ys
	}
	if xc != yc {
		return xc < yc
	}
	return xa.Less(ya)
}

func c14ExpectedBest(c c14Case) (vfIP, bool) {
	var best vfIP
	found := false
	for _, v := range c.Addrs {
		if !c14Eligible(v.IP()) {
			continue
		}
		if !found || c14Less(v.IP(), best.IP()) {
			best, found = v, true
		}
	}
	return best, found
}

func c14Run(c c14Case) (servers []netip.Addr, lifetime time.Duration, err error, panicked any) {
	p := &RDNSS{Auto: true, Lifetime: 1800 * time.Second}
	for _, s := range c14Static[c.Static] {
		p.Servers = append(p.Servers, netip.MustParseAddr(s))
	}
	staticBefore := append([]netip.Addr(nil), p.Servers...)
	in := vfIPs(c.Addrs)
	ncall := 0
	p.Addrs = func() ([]system.IP, error) {
		if c.Fail {
			return nil, errors.New("verif: injected address listing failure")
		}
		ncall++
		if ncall <= c.Transient {
			return nil, vfTransient[c.TransientKind]
		}
		return append([]system.IP(nil), in...), nil
	}
	defer func() { panicked = recover() }()
	ra := &ndp.RouterAdvertisement{}
	err = p.Apply(ra)
	if err == nil {
		// Second build must not be affected by the first (configuration not altered).
		ra2 := &ndp.RouterAdvertisement{}
		if err2 := p.Apply(ra2); err2 != nil || len(ra2.Options) != len(ra.Options) {
			return nil, 0, fmt.Errorf("verif: second Apply differs: %v", err2), nil
		}
		if fmt.Sprint(p.Servers) != fmt.Sprint(staticBefore) {
			return nil, 0, fmt.Errorf("verif: Apply altered the configured servers: %v -> %v", staticBefore, p.Servers), nil
		}
	}
	if err != nil {
		return nil, 0, err, nil
	}
	if len(ra.Options) != 1 {
		return nil, 0, fmt.Errorf("verif: %d options produced", len(ra.Options)), nil
	}
	o, ok := ra.Options[0].(*ndp.RecursiveDNSServer)
	if !ok {
		return nil, 0, fmt.Errorf("verif: option %T produced", ra.Options[0]), nil
	}
	return o.Servers, o.Lifetime, nil, nil
}

func c14Check(c c14Case) [][2]string {
	servers, lt, err, pv := c14Run(c)
	if pv != nil {
		return [][2]string{{"C14:panic", fmt.Sprintf("RDNSS.Apply panicked: %v", pv)}}
	}
	if c.Fail {
		if err == nil {
			return [][2]string{{"C14:source-failure-swallowed", "address source failed but Apply returned nil"}}
		}
		return nil
	}
	best, ok := c14ExpectedBest(c)
	if !ok {
		if err == nil {
			return [][2]string{{"C14:no-error-when-none-eligible", fmt.Sprintf("addresses %s: no eligible address but advertised %v", ev.JSON(c.Addrs), servers)}}
		}
		return nil
	}
	if err != nil && c.Transient > 0 {
		return nil // the listing did fail during this build
	}
	if err != nil {
		return [][2]string{{"C14:unexpected-error", fmt.Sprintf("addresses %s: %v", ev.JSON(c.Addrs), err)}}
	}
	var out [][2]string
	if lt != 1800*time.Second {
		out = append(out, [2]string{"C14:wrong-lifetime", fmt.Sprint(lt)})
	}
	if len(servers) == 0 {
		return append(out, [2]string{"C14:no-servers", "empty option"})
	}
	if servers[0] != best.IP().Address.Addr() {
		gotClass := "not-on-interface"
		elig := false
		for _, v := range c.Addrs {
			if v.IP().Address.Addr() == servers[0] {
				gotClass = v.Class
				elig = c14Eligible(v.IP())
			}
		}
		sig := fmt.Sprintf("C14:wrong-best:want-%s-got-%s", best.Class, gotClass)
		if !elig {
			sig = "C14:ineligible-chosen:" + gotClass
		}
		out = append(out, [2]string{sig, fmt.Sprintf("addresses %s: first server %s, want %s (%s)", ev.JSON(c.Addrs), servers[0], best.IP().Address.Addr(), best.Class)})
	}
	want := c14Static[c.Static]
	if len(servers)-1 != len(want) {
		out = append(out, [2]string{"C14:static-servers", fmt.Sprintf("servers %v, want wildcard + %v", servers, want)})
	} else {
		for i, s := range want {
			if servers[i+1].String() != s {
				out = append(out, [2]string{"C14:static-servers", fmt.Sprintf("servers %v, want wildcard + %v", servers, want)})
				break
			}
		}
	}
	return out
}

func TestVerifC14(t *testing.T) {
	r := ev.Begin("C14", "fold")
	defer r.End(t)
	r.Rule = "[histories: all sequences of 2..3 address listings from a 6-entry menu (eligible, none eligible, empty, failing) x {no static server, one} on ONE plugin value, each build compared with a fresh plugin given the same listing] address lists = all subsets (size<=K) of an 18-address pool covering class {ULA,GUA,LL,other} x stability {flag,EUI-64,plain} x exclusion {deprecated,temporary,tentative,IPv4}, each in all permutations, x 3 static server lists, + failing source; plus all ordered pairs and triples of the pool through betterRDNSS (antisymmetry, transitivity, agreement with the ranking key); non-trivial = >=2 eligible addresses or >=1 eligible + >=1 excluded; distinct = distinct ordered list x static list"
	r.Assumptions = []string{"address source replaced by an injected function (RDNSS.Addrs)"}

	if r.Replay != nil {
		var h c14History
		if err := json.Unmarshal(r.Replay, &h); err == nil && len(h.Steps) > 0 {
			r.Case(ev.JSON(h), true)
			for _, v := range c14HistoryRun(h) {
				r.Violation(v[0], v[1], h)
			}
			return
		}
		var c c14Case
		if err := json.Unmarshal(r.Replay, &c); err != nil {
			t.Fatalf("bad replay: %v", err)
		}
		r.Case(ev.JSON(c), true)
		r.Sample(c)
		for _, v := range c14Check(c) {
			r.Violation(v[0], v[1], c)
		}
		return
	}

	// The total-order claim itself, on the real betterRDNSS.
	// (only eligible addresses ever reach betterRDNSS: current() filters first.)
	var elig []vfIP
	for _, v := range c14Pool {
		if c14Eligible(v.IP()) {
			elig = append(elig, v)
		}
	}
	eligPool := elig
	n := len(eligPool)
	for i := 0; i < n; i++ {
		for j := 0; j < n; j++ {
			a, b := eligPool[i].IP(), eligPool[j].IP()
			r.Case(fmt.Sprintf("pair %d %d", i, j), i != j)
			w1, w2 := betterRDNSS(a, b), betterRDNSS(b, a)
			if i != j && w1 != w2 {
				r.Violation("C14:not-antisymmetric", fmt.Sprintf("betterRDNSS(%s,%s)=%v but reversed=%v", eligPool[i].Class, eligPool[j].Class, w1.Address, w2.Address), nil)
			}
			want := a
			if c14Less(b, a) {
				want = b
			}
			if i != j && w1 != want {
				r.Violation(fmt.Sprintf("C14:pair-ranking:%s-vs-%s", eligPool[i].Class, eligPool[j].Class), fmt.Sprintf("betterRDNSS picks %v, ranking says %v", w1.Address, want.Address), nil)
			}
			for k := 0; k < n; k++ {
				c := eligPool[k].IP()
				r.Case(fmt.Sprintf("triple %d %d %d", i, j, k), i != j && j != k && i != k)
				if i == j || j == k || i == k {
					continue
				}
				// a beats b and b beats c => a beats c.
				if betterRDNSS(b, a) == a && betterRDNSS(c, b) == b && betterRDNSS(c, a) != a {
					r.Violation("C14:not-transitive", fmt.Sprintf("%s > %s > %s but not %s > %s", eligPool[i].Class, eligPool[j].Class, eligPool[k].Class, eligPool[i].Class, eligPool[k].Class), nil)
				}
			}
		}
	}

	K := 3
	if r.Thorough() {
		K = 4
	}
	eq := func(a, b vfIP) bool { return a == b }
	enum.Subsets(len(c14Pool), K, func(ix []int) bool {
		base := make([]vfIP, 0, len(ix))
		for _, i := range ix {
			base = append(base, c14Pool[i])
		}
		nElig := 0
		for _, v := range base {
			if c14Eligible(v.IP()) {
				nElig++
			}
		}
		nontrivial := nElig >= 2 || (nElig >= 1 && len(base) > nElig)
		enum.Permutations(base, eq, func(p []vfIP) bool {
			for s := range c14Static {
				c := c14Case{Addrs: p, Static: s}
				r.Case(ev.JSON(c), nontrivial)
				r.Sample(c)
				for _, v := range c14Check(c) {
					r.Violation(v[0], v[1], c)
				}
			}
			return true
		})
		return true
	})
	for kind := range vfTransient {
		for n := 1; n <= 5; n++ {
			c := c14Case{Addrs: []vfIP{c14Pool[6], c14Pool[2]}, Static: 1, Transient: n, TransientKind: kind}
			r.Case(ev.JSON(c), true)
			for _, v := range c14Check(c) {
				r.Violation(v[0], v[1], c)
			}
		}
	}
	// Histories on ONE long-lived plugin value (the daemon builds every RA of an interface
	// with the same plugin): all sequences of <=3 address listings from a menu that
	// includes "no eligible address", an empty listing and a failing source; every build
	// must equal the build of a fresh plugin given the same listing (no memory of
	// earlier listings).
	c14HistoryCheck(r)
	for s := range c14Static {
		c := c14Case{Static: s, Fail: true}
		r.Case(ev.JSON(c), true)
		for _, v := range c14Check(c) {
			r.Violation(v[0], v[1], c)
		}
	}
	r.Count("max_list_len", int64(K))
}

type c14Step struct {
	Addrs []vfIP `json:"addrs"`
	Fail  bool   `json:"source_fails,omitempty"`
}

type c14History struct {
	Static int       `json:"static"`
	Steps  []c14Step `json:"steps"`
}

func c14HistoryMenu() []c14Step {
	byClass := func(cs ...string) (out []vfIP) {
		for _, c := range cs {
			for _, v := range c14Pool {
				if v.Class == c {
					out = append(out, v)
				}
			}
		}
		if len(out) != len(cs) {
			panic("c14HistoryMenu: unknown class")
		}
		return out
	}
	return []c14Step{
		{Addrs: byClass("gua-plain")},
		{Addrs: byClass("gua-flag", "ll-plain")},
		{Addrs: byClass("deprecated-stable-ula", "temporary-ula")}, // none eligible
		{Addrs: nil},
		{Fail: true},
		{Addrs: byClass("ll-plain", "tentative-ula")},
	}
}

func c14Build(p *RDNSS, st c14Step) (out string) {
	p.Addrs = func() ([]system.IP, error) {
		if st.Fail {
			return nil, errors.New("verif: injected address listing failure")
		}
		return vfIPs(st.Addrs), nil
	}
	defer func() {
		if pv := recover(); pv != nil {
			out = fmt.Sprintf("panic: %v", pv)
		}
	}()
	ra := &ndp.RouterAdvertisement{}
	if err := p.Apply(ra); err != nil {
		return "error"
	}
	for _, o := range ra.Options {
		if d, ok := o.(*ndp.RecursiveDNSServer); ok {
			out += fmt.Sprintf("%+v;", *d)
		} else {
			out += fmt.Sprintf("%T;", o)
		}
	}
	return out
}

func c14HistoryRun(h c14History) [][2]string {
	mk := func() *RDNSS {
		p := &RDNSS{Auto: true, Lifetime: 1800 * time.Second}
		for _, s := range c14Static[h.Static] {
			p.Servers = append(p.Servers, netip.MustParseAddr(s))
		}
		return p
	}
	long := mk()
	for i, st := range h.Steps {
		got, want := c14Build(long, st), c14Build(mk(), st)
		if got != want {
			return [][2]string{{"C14:history-dependent", fmt.Sprintf("history %s: build %d on the long-lived plugin gives %s, a fresh plugin given the same listing gives %s", ev.JSON(h), i, got, want)}}
		}
	}
	return nil
}

func c14HistoryCheck(r *ev.Run) {
	menu := c14HistoryMenu()
	n := int64(0)
	for _, static := range []int{0, 1} {
		enum.Sequences(len(menu), 3, func(seq []int) bool {
			if len(seq) < 2 {
				return true
			}
			h := c14History{Static: static}
			for _, i := range seq {
				h.Steps = append(h.Steps, menu[i])
			}
			n++
			r.Case(ev.JSON(h), true)
			for _, v := range c14HistoryRun(h) {
				r.Violation(v[0], v[1], h)
			}
			return true
		})
	}
	r.Count("histories_on_one_plugin", n)
}
