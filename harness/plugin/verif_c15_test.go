//go:build verif

package plugin

import (
	"encoding/json"
	"errors"
	"fmt"
	"net/netip"
	"reflect"
	"sort"
	"testing"
	"time"

	"github.com/mdlayher/corerad/internal/system"
	"github.com/mdlayher/corerad/verifrt/enum"
	"github.com/mdlayher/corerad/verifrt/ev"
	"github.com/mdlayher/ndp"
)

// C15: the ::/0 route wildcard expands to exactly the IPv6 loopback routes
// that are not /128 and not contained in a different, shorter listed route,
// each once, ascending, non-overlapping, independent of dump order and
// multiplicity.

type c15Route struct {
	Class  string `json:"class"`
	Prefix string `json:"prefix"`
}

var c15Pool = []c15Route{
	{"p32", "2001:db8::/32"},
	{"p48-in-32-otherbase", "2001:db8:ffff::/48"},
	{"p48-in-32-samebase", "2001:db8::/48"},
	{"p64-in-48-samebase", "2001:db8::/64"},
	{"ula48", "fd00::/48"},
	{"ula64-in-48-otherbase", "fd00:0:0:1::/64"},
	{"loopback128", "::1/128"},
	{"host128-in-32", "2001:db8::1/128"},
	{"default", "::/0"},
	{"ipv4", "192.0.2.0/24"},
	{"disjoint56", "2001:db9:0:100::/56"},
	{"ula64-samebase", "fd00::/64"},
}

type c15Stanza struct {
	Pref     ndp.Preference
	Lifetime time.Duration
	// Deprecated: the stanza's lifetime counts down from the epoch; the clock stands at
	// epoch + Elapsed, so "the stanza's lifetime" is what remains then.
	Deprecated bool
	Elapsed    time.Duration
	// Step: every reading of the clock is this much later than the previous one (time
	// passes while the RA is built); one RA still carries ONE lifetime on all its routes.
	Step time.Duration
}

var c15Stanzas = []c15Stanza{
	{Pref: ndp.Medium, Lifetime: 24 * time.Hour},
	{Pref: ndp.High, Lifetime: 10 * time.Second},
	{Pref: ndp.Low, Lifetime: time.Hour, Deprecated: true, Elapsed: 20 * time.Minute},
	{Pref: ndp.Medium, Lifetime: time.Hour, Deprecated: true, Elapsed: 30 * time.Minute, Step: time.Second},
	{Pref: ndp.High, Lifetime: time.Hour, Deprecated: true, Elapsed: time.Hour - time.Second, Step: time.Second},
}

func (st c15Stanza) want() time.Duration {
	if !st.Deprecated {
		return st.Lifetime
	}
	if st.Elapsed >= st.Lifetime {
		return 0
	}
	return st.Lifetime - st.Elapsed
}

type c15Case struct {
	Routes []c15Route `json:"routes"`
	Stanza int        `json:"stanza"`
	Fail   bool       `json:"source_fails,omitempty"`
}

func c15Expected(c c15Case) []ndp.Option {
	st := c15Stanzas[c.Stanza]
	var all []netip.Prefix
	for _, r := range c.Routes {
		all = append(all, netip.MustParsePrefix(r.Prefix))
	}
	set := map[netip.Prefix]struct{}{}
	for _, p := range all {
		if !p.Addr().Is6() || p.Addr().Is4In6() || p.Bits() == 128 {
			continue
		}
		covered := false
		for _, q := range all {
			if q.Addr().Is6() && q.Bits() < p.Bits() && q.Contains(p.Addr()) {
				covered = true
			}
		}
		if !covered {
			set[p] = struct{}{}
		}
	}
	ps := make([]netip.Prefix, 0, len(set))
	for p := range set {
		ps = append(ps, p)
	}
	sort.Slice(ps, func(i, j int) bool { return ps[i].Addr().Less(ps[j].Addr()) })
	var out []ndp.Option
	for _, p := range ps {
		out = append(out, &ndp.RouteInformation{
			PrefixLength:  uint8(p.Bits()),
			Preference:    st.Pref,
			RouteLifetime: st.want(),
			Prefix:        p.Addr(),
		})
	}
	return out
}

func c15Run(c c15Case) (opts []ndp.Option, err error, panicked any) {
	st := c15Stanzas[c.Stanza]
	p := &Route{
		Auto:       true,
		Prefix:     netip.MustParsePrefix("::/0"),
		Preference: st.Pref,
		Lifetime:   st.Lifetime,
		Deprecated: st.Deprecated,
		Epoch:      vfEpoch,
	}
	nread := 0
	p.TimeNow = func() time.Time {
		nread++
		return vfEpoch.Add(st.Elapsed + time.Duration(nread-1)*st.Step)
	}
	var in []system.Route
	for i, r := range c.Routes {
		// The kernel's own per-route preference varies; the statement says every
		// advertised route carries the STANZA's preference.
		kp := []ndp.Preference{ndp.Medium, ndp.High, ndp.Low}[i%3]
		in = append(in, system.Route{Prefix: netip.MustParsePrefix(r.Prefix), Index: 1 + i%2, Preference: kp})
	}
	p.Routes = func() ([]system.Route, error) {
		if c.Fail {
			return nil, errors.New("verif: injected route dump failure")
		}
		return append([]system.Route(nil), in...), nil
	}
	defer func() { panicked = recover() }()
	ra := &ndp.RouterAdvertisement{}
	err = p.Apply(ra)
	return ra.Options, err, nil
}

func c15Describe(opts []ndp.Option) []string {
	var s []string
	for _, o := range opts {
		if ri, ok := o.(*ndp.RouteInformation); ok {
			s = append(s, fmt.Sprintf("%s/%d %s %s", ri.Prefix, ri.PrefixLength, ri.Preference, ri.RouteLifetime))
		} else {
			s = append(s, fmt.Sprintf("%T", o))
		}
	}
	return s
}

func c15Check(c c15Case) [][2]string {
	got, err, pv := c15Run(c)
	if pv != nil {
		return [][2]string{{"C15:panic", fmt.Sprintf("Route.Apply panicked: %v", pv)}}
	}
	if c.Fail {
		if err == nil {
			return [][2]string{{"C15:source-failure-swallowed", "route source failed but Apply returned nil"}}
		}
		return nil
	}
	if err != nil {
		return [][2]string{{"C15:unexpected-error", err.Error()}}
	}
	want := c15Expected(c)
	if reflect.DeepEqual(got, want) || (len(got) == 0 && len(want) == 0) {
		return nil
	}
	key := func(o ndp.Option) string {
		if ri, ok := o.(*ndp.RouteInformation); ok {
			return fmt.Sprintf("%s/%d", ri.Prefix, ri.PrefixLength)
		}
		return fmt.Sprintf("%T", o)
	}
	gset, wset := map[string]int{}, map[string]int{}
	for _, o := range got {
		gset[key(o)]++
	}
	for _, o := range want {
		wset[key(o)]++
	}
	// Which pool classes are involved, for a signature that names the input class.
	classOf := map[string]string{}
	for _, r := range c.Routes {
		classOf[netip.MustParsePrefix(r.Prefix).String()] = r.Class
	}
	var dup, extra, missing []string
	for k, n := range gset {
		if wset[k] >= 1 && n > wset[k] {
			dup = append(dup, classOf[k])
		}
		if wset[k] == 0 {
			extra = append(extra, classOf[k])
		}
	}
	for k := range wset {
		if gset[k] == 0 {
			missing = append(missing, classOf[k])
		}
	}
	sort.Strings(dup)
	sort.Strings(extra)
	sort.Strings(missing)
	sig := "C15:wrong-fields"
	switch {
	case len(missing) > 0:
		sig = "C15:missing:" + missing[0]
	case len(extra) > 0:
		sig = "C15:extra:" + extra[0]
	case len(dup) > 0:
		sig = "C15:duplicate-route"
	case len(got) == len(want):
		for i := range got {
			if key(got[i]) != key(want[i]) {
				sig = "C15:wrong-order"
			}
		}
	}
	return [][2]string{{sig, fmt.Sprintf("routes %s stanza %d: got %v want %v", ev.JSON(c.Routes), c.Stanza, c15Describe(got), c15Describe(want))}}
}

func c15Nontrivial(c c15Case) bool {
	c0 := c
	c0.Stanza = 0
	want := c15Expected(c0)
	return len(want) >= 1 && (len(c.Routes) > len(want) || len(want) >= 2)
}

func TestVerifC15(t *testing.T) {
	r := ev.Begin("C15", "enum")
	defer r.End(t)
	r.Rule = "route lists = all subsets (size<=K) of a 12-route pool (nested prefixes with equal and different base address, /128s, ::/0, IPv4, disjoint), each in all permutations, plus each list with one element duplicated, x 5 stanza variants (one deprecated, 20 min into its hour; two deprecated under a clock that advances 1 s per reading, mid-life and 1 s before the deadline: all routes of one RA carry one lifetime), + dumps of 16-300 disjoint /48s (ascending, descending, interleaved, with covered and duplicate entries) + failing source; non-trivial = >=1 advertised route and (a dropped route or >=2 advertised); distinct = distinct ordered list x stanza"
	r.Assumptions = []string{"route source replaced by an injected function (Route.Routes); the rtnetlink loopback-route dump is not covered"}

	if r.Replay != nil {
		var c c15Case
		if err := json.Unmarshal(r.Replay, &c); err != nil {
			t.Fatalf("bad replay: %v", err)
		}
		r.Case(ev.JSON(c), true)
		r.Sample(c)
		for _, v := range c15Check(c) {
			r.Violation(v[0], v[1], c)
		}
		return
	}
	K := 3
	if r.Thorough() {
		K = 4
	}
	eq := func(a, b c15Route) bool { return a == b }
	one := func(list []c15Route) {
		for s := range c15Stanzas {
			c := c15Case{Routes: list, Stanza: s}
			r.Case(ev.JSON(c), c15Nontrivial(c))
			r.Sample(c)
			for _, v := range c15Check(c) {
				r.Violation(v[0], v[1], c)
			}
		}
	}
	enum.Subsets(len(c15Pool), K, func(ix []int) bool {
		base := make([]c15Route, 0, len(ix))
		for _, i := range ix {
			base = append(base, c15Pool[i])
		}
		enum.Permutations(base, eq, func(p []c15Route) bool { one(p); return true })
		if len(base) >= 1 && len(base) <= 3 {
			for d := range base {
				withDup := append(append([]c15Route(nil), base...), base[d])
				enum.Permutations(withDup, eq, func(p []c15Route) bool { one(p); return true })
			}
		}
		return true
	})
	// Long dumps (no count the statement mentions bounds the expansion): 16, 17, 18, 20, 40
	// and 300 disjoint /48s plus some covered and duplicate entries, ascending, descending
	// and interleaved: all of the maximal ones, in ascending order.
	for _, n := range []int{16, 17, 18, 20, 40, 300} {
		var asc []c15Route
		for i := 0; i < n; i++ {
			asc = append(asc, c15Route{Class: "disjoint48", Prefix: fmt.Sprintf("2001:db8:%x::/48", i+1)})
			if i%7 == 3 {
				asc = append(asc, c15Route{Class: "covered64", Prefix: fmt.Sprintf("2001:db8:%x:1::/64", i+1)})
			}
		}
		desc := make([]c15Route, len(asc))
		for i := range asc {
			desc[len(asc)-1-i] = asc[i]
		}
		var mix []c15Route
		for i := 0; i < len(asc)/2; i++ {
			mix = append(mix, asc[i], desc[i])
		}
		mix = append(mix, asc[len(asc)/2:]...)
		for _, l := range [][]c15Route{asc, desc, mix} {
			one(l)
		}
	}
	for s := range c15Stanzas {
		c := c15Case{Stanza: s, Fail: true}
		r.Case(ev.JSON(c), true)
		for _, v := range c15Check(c) {
			r.Violation(v[0], v[1], c)
		}
	}
	r.Count("max_list_len", int64(K+1))
}
