//go:build verif

package plugin

import (
	"encoding/json"
	"errors"
	"fmt"
	"net"
	"net/netip"
	"os"
	"reflect"
	"sort"
	"strings"
	"syscall"
	"testing"
	"time"

	"github.com/mdlayher/corerad/internal/system"
	"github.com/mdlayher/corerad/verifrt/enum"
	"github.com/mdlayher/corerad/verifrt/ev"
	"github.com/mdlayher/ndp"
)

// C13: the ::/64 wildcard expands to exactly the distinct /64 networks of the
// eligible interface addresses, once each, ascending, with the stanza's flags
// and lifetimes, independent of order and multiplicity; a failing address
// source fails Apply.

var c13Pool = []vfIP{
	{Class: "gua64-a", Addr: "2001:db8:1::1/64"},
	{Class: "gua64-a-host2", Addr: "2001:db8:1::2/64", Flags: "F"},
	{Class: "gua64-b", Addr: "2001:db8:2::1/64"},
	{Class: "ula64", Addr: "fd00:1::1/64", Flags: "S"},
	{Class: "linklocal", Addr: "fe80::1/64"},
	{Class: "ipv4", Addr: "192.0.2.1/24"},
	{Class: "gua48", Addr: "2001:db8:3::1/48"},
	{Class: "gua128", Addr: "2001:db8:4::1/128"},
	{Class: "temporary", Addr: "2001:db8:5::1/64", Flags: "T"},
	{Class: "tentative", Addr: "2001:db8:6::1/64", Flags: "N"},
	{Class: "deprecated", Addr: "2001:db8:0:7::1/64", Flags: "D"},
	{Class: "gua64-a-temp", Addr: "2001:db8:1::3/64", Flags: "T"},
	{Class: "low64", Addr: "2001:db7:ffff:ffff::9/64", Flags: "M"},
	// Ineligible addresses that sort *below* every eligible address of their /64.
	{Class: "gua64-a-temp-lowest", Addr: "2001:db8:1::/64", Flags: "T"},
	{Class: "gua64-b-tentative-lowest", Addr: "2001:db8:2::/64", Flags: "N"},
}

var c13OrderPool = []vfIP{
	{Class: "h2", Addr: "2001:db8:2::1/64"},
	{Class: "ha", Addr: "2001:db8:a::1/64"},
	{Class: "h10", Addr: "2001:db8:10::1/64"},
	{Class: "h100", Addr: "2001:db8:100::1/64"},
	{Class: "h0-1", Addr: "2001:db8:0:1::1/64"},
	{Class: "db80", Addr: "2001:db80::1/64"},
	{Class: "low", Addr: "::1:0:0:0:1/64"},
	{Class: "ula-ff", Addr: "fd00:0:0:ff::1/64"},
	// link-local unicast is fe80::/10, not only fe80::/64: never advertised
	{Class: "linklocal-subnet1", Addr: "fe80:0:0:1::1/64"},
	{Class: "linklocal-top", Addr: "febf:ffff:ffff:ffff::1/64"},
	{Class: "ula-100", Addr: "fd00:0:0:100::1/64"},
}

type c13Stanza struct {
	OnLink, Autonomous bool
	Valid, Preferred   time.Duration
}

var c13Stanzas = []c13Stanza{
	{true, true, 24 * time.Hour, 4 * time.Hour},
	{false, true, 10 * time.Second, 5 * time.Second},
	{true, false, ndp.Infinity, time.Hour},
}

type c13Case struct {
	Addrs  []vfIP `json:"addrs"`
	Stanza int    `json:"stanza"`
	Fail   bool   `json:"source_fails,omitempty"`
	// Transient: the source fails this many times in a row with a temporary error
	// (EINTR / EAGAIN, bare or wrapped) before it answers; kind selects the error value.
	Transient     int `json:"transient_failures,omitempty"`
	TransientKind int `json:"transient_kind,omitempty"`
}

// vfTransient are error values a listing interrupted by a signal / a busy netlink
// socket produces.
var vfTransient = []error{
	syscall.EINTR,
	fmt.Errorf("netlink receive: %w", syscall.EAGAIN),
	&net.OpError{Op: "receive", Net: "netlink", Err: os.NewSyscallError("recvmsg", syscall.EINTR)},
}

// c13Expected is the reference: a set comprehension from the statement.
func c13Expected(c c13Case) []ndp.Option {
	st := c13Stanzas[c.Stanza]
	set := map[netip.Prefix]struct{}{}
	for _, v := range c.Addrs {
		ip := v.IP()
		a := ip.Address.Addr()
		if !a.Is6() || a.Is4In6() || a.IsLinkLocalUnicast() || ip.Address.Bits() != 64 {
			continue
		}
		if ip.Temporary || ip.Tentative {
			continue
		}
		set[ip.Address.Masked()] = struct{}{}
	}
	ps := make([]netip.Prefix, 0, len(set))
	for p := range set {
		ps = append(ps, p)
	}
	sort.Slice(ps, func(i, j int) bool { return ps[i].Addr().Less(ps[j].Addr()) })
	var out []ndp.Option
	for _, p := range ps {
		out = append(out, &ndp.PrefixInformation{
			PrefixLength:                   64,
			OnLink:                         st.OnLink,
			AutonomousAddressConfiguration: st.Autonomous,
			ValidLifetime:                  st.Valid,
			PreferredLifetime:              st.Preferred,
			Prefix:                         p.Addr(),
		})
	}
	return out
}

func c13Run(c c13Case) (opts []ndp.Option, err error, panicked any) {
	st := c13Stanzas[c.Stanza]
	p := &Prefix{
		Auto:              true,
		Prefix:            netip.MustParsePrefix("::/64"),
		OnLink:            st.OnLink,
		Autonomous:        st.Autonomous,
		ValidLifetime:     st.Valid,
		PreferredLifetime: st.Preferred,
		Epoch:             vfEpoch,
	}
	// The stanza is not deprecated: nothing may count down, however the clock moves and
	// whatever the kernel says about the addresses (a stepping clock makes any countdown
	// that starts inside the plugin visible).
	nclock := 0
	p.TimeNow = func() time.Time { nclock++; return vfEpoch.Add(time.Duration(nclock) * time.Minute) }
	in := vfIPs(c.Addrs)
	ncall := 0
	p.Addrs = func() ([]system.IP, error) {
		if c.Fail {
			return nil, errors.New("verif: injected address listing failure")
		}
		ncall++
		if ncall <= c.Transient {
			return nil, vfTransient[c.TransientKind]
		}
		// A fresh copy on every call, as the OS would give.
		return append([]system.IP(nil), in...), nil
	}
	defer func() { panicked = recover() }()
	ra := &ndp.RouterAdvertisement{}
	err = p.Apply(ra)
	if err == nil {
		// A second build from the same plugin value gives the same options.
		ra2 := &ndp.RouterAdvertisement{}
		if err2 := p.Apply(ra2); err2 != nil || !reflect.DeepEqual(ra.Options, ra2.Options) {
			return ra2.Options, fmt.Errorf("verif: second build differs (%v): %v vs %v", err2, c13Describe(ra2.Options), c13Describe(ra.Options)), nil
		}
	}
	if err == nil {
		// A build onto an RA that already carries options (stanzas listed before the
		// wildcard, among them prefixes with the same base address as an interface /64, at
		// another length and at the same length): the earlier options stay, the wildcard's
		// are appended unchanged.
		pre := []ndp.Option{ndp.NewMTU(1480)}
		for _, ip := range in {
			a := ip.Address.Addr()
			if a.Is6() && !a.Is4In6() {
				m64, _ := a.Prefix(64)
				m56, _ := a.Prefix(56)
				pre = append(pre,
					&ndp.PrefixInformation{Prefix: m64.Addr(), PrefixLength: 56, OnLink: true, ValidLifetime: 9 * time.Second, PreferredLifetime: 8 * time.Second},
					&ndp.PrefixInformation{Prefix: m56.Addr(), PrefixLength: 56, OnLink: true, ValidLifetime: 9 * time.Second, PreferredLifetime: 8 * time.Second},
					&ndp.PrefixInformation{Prefix: m64.Addr(), PrefixLength: 64, ValidLifetime: 7 * time.Second, PreferredLifetime: 6 * time.Second})
			}
		}
		ra3 := &ndp.RouterAdvertisement{Options: append([]ndp.Option(nil), pre...)}
		err3 := p.Apply(ra3)
		ok := err3 == nil && len(ra3.Options) >= len(pre)
		for i := 0; ok && i < len(pre); i++ {
			ok = ra3.Options[i] == pre[i]
		}
		if !ok || !(reflect.DeepEqual(ra3.Options[len(pre):], ra.Options) || len(ra3.Options) == len(pre) && len(ra.Options) == 0) {
			return ra3.Options, fmt.Errorf("verif: build onto an RA that already carries %d options differs (%v): %v, alone: %v", len(pre), err3, c13Describe(ra3.Options), c13Describe(ra.Options)), nil
		}
	}
	if err == nil {
		// The same plugin value, rebuilt after the kernel changed nothing but the flags of
		// the addresses (same addresses, same order): (i) duplicate address detection done
		// and nothing temporary any more, (ii) every address tentative. The options follow
		// the flags as they are NOW.
		for vi, flags := range []string{"", "N"} {
			c2 := c
			c2.Addrs = append([]vfIP(nil), c.Addrs...)
			for i := range c2.Addrs {
				c2.Addrs[i].Flags = flags
			}
			in = vfIPs(c2.Addrs)
			ra4 := &ndp.RouterAdvertisement{}
			err4 := p.Apply(ra4)
			want := c13Expected(c2)
			if err4 != nil || !(reflect.DeepEqual(ra4.Options, want) || len(ra4.Options) == 0 && len(want) == 0) {
				return ra4.Options, fmt.Errorf("verif: rebuild after only the address flags changed (variant %d, all flags now %q) differs (%v): %v, want %v", vi, flags, err4, c13Describe(ra4.Options), c13Describe(want)), nil
			}
		}
	}
	return ra.Options, err, nil
}

func c13Describe(opts []ndp.Option) []string {
	var s []string
	for _, o := range opts {
		if pi, ok := o.(*ndp.PrefixInformation); ok {
			s = append(s, fmt.Sprintf("%s/%d L=%t A=%t v=%s p=%s", pi.Prefix, pi.PrefixLength, pi.OnLink, pi.AutonomousAddressConfiguration, pi.ValidLifetime, pi.PreferredLifetime))
		} else {
			s = append(s, fmt.Sprintf("%T", o))
		}
	}
	return s
}

// c13Check evaluates one case and returns (signature, message) pairs.
func c13Check(c c13Case) [][2]string {
	var out [][2]string
	got, err, pv := c13Run(c)
	if pv != nil {
		return [][2]string{{"C13:panic", fmt.Sprintf("Prefix.Apply panicked: %v", pv)}}
	}
	if c.Fail {
		if err == nil {
			out = append(out, [2]string{"C13:source-failure-swallowed", "address source failed but Apply returned nil (advertising " + fmt.Sprint(c13Describe(got)) + ")"})
		}
		return out
	}
	if err != nil && strings.HasPrefix(err.Error(), "verif: build onto an RA") {
		return [][2]string{{"C13:depends-on-earlier-options", fmt.Sprintf("addresses %s stanza %d: %v", ev.JSON(c.Addrs), c.Stanza, err)}}
	}
	if err != nil && strings.HasPrefix(err.Error(), "verif: second build differs") {
		return [][2]string{{"C13:rebuild-differs", fmt.Sprintf("addresses %s stanza %d: %v", ev.JSON(c.Addrs), c.Stanza, err)}}
	}
	if err != nil && c.Transient > 0 {
		return out // the listing did fail during this build: failing RA generation is right
	}
	if err != nil {
		return [][2]string{{"C13:unexpected-error", "Apply failed: " + err.Error()}}
	}
	want := c13Expected(c)
	if reflect.DeepEqual(got, want) || (len(got) == 0 && len(want) == 0) {
		return nil
	}
	// Classify the difference.
	gs, ws := c13Describe(got), c13Describe(want)
	gset, wset := map[string]int{}, map[string]int{}
	for _, o := range got {
		if pi, ok := o.(*ndp.PrefixInformation); ok {
			gset[fmt.Sprintf("%s/%d", pi.Prefix, pi.PrefixLength)]++
		} else {
			gset[fmt.Sprintf("%T", o)]++
		}
	}
	for _, o := range want {
		pi := o.(*ndp.PrefixInformation)
		wset[fmt.Sprintf("%s/%d", pi.Prefix, pi.PrefixLength)]++
	}
	sig := "C13:wrong-fields"
	switch {
	case func() bool {
		for k, n := range gset {
			if n > 1 && wset[k] == 1 {
				return true
			}
		}
		return false
	}():
		sig = "C13:duplicate-prefix"
	case func() bool {
		for k := range gset {
			if wset[k] == 0 {
				return true
			}
		}
		return false
	}():
		sig = "C13:extra-prefix"
	case func() bool {
		for k := range wset {
			if gset[k] == 0 {
				return true
			}
		}
		return false
	}():
		sig = "C13:missing-prefix"
	case len(got) == len(want):
		same := true
		for i := range got {
			gp, wp := got[i].(*ndp.PrefixInformation), want[i].(*ndp.PrefixInformation)
			if gp.Prefix != wp.Prefix {
				same = false
			}
		}
		if !same {
			sig = "C13:wrong-order"
		}
	}
	out = append(out, [2]string{sig, fmt.Sprintf("addresses %s stanza %d: got %v want %v", ev.JSON(c.Addrs), c.Stanza, gs, ws)})
	return out
}

func c13Nontrivial(c c13Case) bool {
	// Exercises the mechanism: at least one eligible address and at least one
	// of {an excluded address, two addresses in one /64, two distinct /64s}.
	c0 := c
	c0.Stanza = 0
	want := c13Expected(c0)
	if len(want) == 0 {
		return false
	}
	return len(c.Addrs) > len(want) || len(want) >= 2
}

func TestVerifC13(t *testing.T) {
	r := ev.Begin("C13", "enum")
	defer r.End(t)
	r.Rule = "[every successful build is repeated on the same plugin value and onto an RA that already carries an MTU option and prefix options with the base addresses of the interface /64s (at /56 and /64): same result, earlier options untouched] address lists = all subsets (size<=K) of a 13-address pool (GUA/ULA/link-local/IPv4, /48 /64 /128, every exclusion flag, several hosts per /64), each in all permutations, plus each list with one element duplicated, x 3 stanza variants, + all subsets (size<=4) in all permutations of an 11-address pool of eligible /64s whose textual and numeric orders differ and two link-local addresses outside fe80::/64 + failing source + source failing transiently (EINTR/EAGAIN, bare and wrapped) 1..5 times in a row before answering; non-trivial = >=1 eligible address and (an excluded address, a shared /64 or >=2 distinct /64s); distinct = distinct ordered list x stanza"
	r.Assumptions = []string{"address source replaced by an injected function (Prefix.Addrs); rtnetlink decoding not covered"}

	if r.Replay != nil {
		var c c13Case
		if err := json.Unmarshal(r.Replay, &c); err != nil {
			t.Fatalf("bad replay: %v", err)
		}
		r.Case(ev.JSON(c), true)
		r.Sample(c)
		for _, v := range c13Check(c) {
			r.Violation(v[0], v[1], c)
		}
		return
	}

	K := 3
	if r.Thorough() {
		K = 4
	}
	idx := 0
	eq := func(a, b vfIP) bool { return a == b }
	one := func(list []vfIP) {
		for s := range c13Stanzas {
			idx++
			if !r.Mine(idx) {
				continue
			}
			c := c13Case{Addrs: list, Stanza: s}
			r.Case(ev.JSON(c), c13Nontrivial(c))
			r.Sample(c)
			for _, v := range c13Check(c) {
				r.Violation(v[0], v[1], c)
			}
		}
	}
	enum.Subsets(len(c13Pool), K, func(ix []int) bool {
		base := make([]vfIP, 0, len(ix))
		for _, i := range ix {
			base = append(base, c13Pool[i])
		}
		enum.Permutations(base, eq, func(p []vfIP) bool { one(p); return true })
		// One element duplicated (multiplicity in the OS listing).
		if len(base) >= 1 && len(base) < K+1 && len(base) <= 3 {
			for d := range base {
				withDup := append(append([]vfIP(nil), base...), base[d])
				enum.Permutations(withDup, eq, func(p []vfIP) bool { one(p); return true })
			}
		}
		return true
	})
	// Ordering pool: eligible /64s (and two link-local addresses outside fe80::/64), whose textual forms (hextets of 1-4 hex digits,
	// "::" compression at different places, letters vs digits) order differently from
	// their numeric values; all subsets of <=4 in all permutations.
	enum.Subsets(len(c13OrderPool), 4, func(ix []int) bool {
		base := make([]vfIP, 0, len(ix))
		for _, i := range ix {
			base = append(base, c13OrderPool[i])
		}
		enum.Permutations(base, eq, func(p []vfIP) bool {
			idx++
			if r.Mine(idx) {
				c := c13Case{Addrs: append([]vfIP(nil), p...), Stanza: 0}
				r.Case(ev.JSON(c), len(p) >= 2)
				for _, v := range c13Check(c) {
					r.Violation(v[0], v[1], c)
				}
			}
			return true
		})
		return true
	})
	// A source that fails transiently 1..5 times in a row, then answers: the build either
	// fails or advertises exactly what the answer calls for (never "nothing, no error").
	for kind := range vfTransient {
		for n := 1; n <= 5; n++ {
			c := c13Case{Addrs: []vfIP{c13Pool[0], c13Pool[3]}, Stanza: 0, Transient: n, TransientKind: kind}
			r.Case(ev.JSON(c), true)
			for _, v := range c13Check(c) {
				r.Violation(v[0], v[1], c)
			}
		}
	}
	// Failing source for every stanza.
	for s := range c13Stanzas {
		c := c13Case{Stanza: s, Fail: true}
		r.Case(ev.JSON(c), true)
		for _, v := range c13Check(c) {
			r.Violation(v[0], v[1], c)
		}
	}
	r.Count("max_list_len", int64(K+1))
}
