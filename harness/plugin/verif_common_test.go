//go:build verif

package plugin

import (
	"net/netip"
	"sort"
	"time"

	"github.com/mdlayher/corerad/internal/system"
)

// vfIP is the JSON form of a system.IP used in samples and replays.
type vfIP struct {
	Class string `json:"class"`
	Addr  string `json:"addr"`
	Flags string `json:"flags,omitempty"` // letters: D deprecated, M manage-temp, S stable-privacy, T temporary, N tentative, F valid-forever
}

func (v vfIP) IP() system.IP {
	ip := system.IP{Address: netip.MustParsePrefix(v.Addr)}
	for _, c := range v.Flags {
		switch c {
		case 'D':
			ip.Deprecated = true
		case 'M':
			ip.ManageTemporaryAddresses = true
		case 'S':
			ip.StablePrivacy = true
		case 'T':
			ip.Temporary = true
		case 'N':
			ip.Tentative = true
		case 'F':
			ip.ValidForever = true
		}
	}
	return ip
}

func vfIPs(vs []vfIP) []system.IP {
	out := make([]system.IP, 0, len(vs))
	for _, v := range vs {
		out = append(out, v.IP())
	}
	return out
}

// vfCanon returns the multiset of a list in canonical order (for keys).
func vfCanon(vs []vfIP) []vfIP {
	c := append([]vfIP(nil), vs...)
	sort.Slice(c, func(i, j int) bool {
		if c[i].Addr != c[j].Addr {
			return c[i].Addr < c[j].Addr
		}
		return c[i].Flags < c[j].Flags
	})
	return c
}

var vfEpoch = time.Date(2000, 1, 1, 0, 0, 0, 0, time.UTC)
