//go:build verif

package plugin

import (
	"fmt"
	"net/netip"
	"sort"
	"testing"
	"time"

	"github.com/mdlayher/corerad/internal/system"
	"github.com/mdlayher/corerad/verifrt/ev"
	"github.com/mdlayher/corerad/verifrt/vsched"
	"github.com/mdlayher/ndp"
)

// Wildcard expansions under concurrency. The daemon builds RAs for several interfaces at
// once (one advertiser each, plus the metrics scrape and the debug API), every wildcard
// plugin with its own address / route source. Each RA must carry the expansion of the
// plugin that built it, whatever the other builders do in the meantime. Every call of a
// source and every reading of the clock is a scheduling point; all interleavings of two
// (three) builders within the deviation bound are explored, with GOMAXPROCS=1 so that a
// buffer recycled through a sync.Pool really travels from one builder to the next.

type concCase struct {
	Name string `json:"name"`
	Kind string `json:"kind"` // prefix | route | rdnss
	N    int    `json:"builders"`
}

func concScenario(c concCase) *vsched.Scenario {
	var got [][]string
	var want [][]string
	sc := &vsched.Scenario{
		Name:    c.Name,
		Horizon: time.Minute,
		Setup: func(x *vsched.Exec) {
			got, want = make([][]string, c.N), make([][]string, c.N)
			done := 0
			clock := func() time.Time { vsched.Point("clock"); return vfEpoch.Add(time.Minute) }
			for i := 0; i < c.N; i++ {
				i := i
				var pl Plugin
				switch c.Kind {
				case "prefix":
					nets := []string{fmt.Sprintf("2001:db8:%x:1::", i+1), fmt.Sprintf("2001:db8:%x:2::", i+1), fmt.Sprintf("fd00:%x::", i+1)}
					want[i] = append([]string(nil), nets...)
					sort.Strings(want[i])
					pl = &Prefix{Auto: true, Prefix: netip.MustParsePrefix("::/64"), OnLink: true, ValidLifetime: time.Hour, PreferredLifetime: time.Minute,
						Deprecated: i == 0, Epoch: vfEpoch, TimeNow: clock,
						Addrs: func() ([]system.IP, error) {
							vsched.Point("addrs")
							var ips []system.IP
							for _, n := range nets {
								ips = append(ips, system.IP{Address: netip.MustParsePrefix(n + "1/64")})
							}
							return ips, nil
						}}
				case "route":
					rts := []string{fmt.Sprintf("2001:db8:%x00::/40", i+1), fmt.Sprintf("fd00:%x::/32", i+1)}
					want[i] = append([]string(nil), rts...)
					sort.Strings(want[i])
					pl = &Route{Auto: true, Prefix: netip.MustParsePrefix("::/0"), Preference: ndp.Medium, Lifetime: time.Hour,
						Deprecated: i == 0, Epoch: vfEpoch, TimeNow: clock,
						Routes: func() ([]system.Route, error) {
							vsched.Point("routes")
							var rs []system.Route
							for _, r := range rts {
								rs = append(rs, system.Route{Prefix: netip.MustParsePrefix(r), Index: 1})
							}
							return rs, nil
						}}
				case "rdnss":
					addr := fmt.Sprintf("fd00:%x::53", i+1)
					want[i] = []string{addr, "2001:db8::53"}
					pl = &RDNSS{Auto: true, Lifetime: time.Hour, Servers: []netip.Addr{netip.MustParseAddr("2001:db8::53")},
						Addrs: func() ([]system.IP, error) {
							vsched.Point("addrs")
							return []system.IP{{Address: netip.MustParsePrefix(addr + "/64")}, {Address: netip.MustParsePrefix("fe80::1/64")}}, nil
						}}
				}
				x.Spawn(fmt.Sprintf("builder-%d", i), func() {
					if i == 0 {
						vsched.Mark()
					}
					for rep := 0; rep < 2; rep++ {
						ra := &ndp.RouterAdvertisement{}
						if err := pl.Apply(ra); err != nil {
							got[i] = append(got[i], "error: "+err.Error())
							continue
						}
						var out []string
						for _, o := range ra.Options {
							switch o := o.(type) {
							case *ndp.PrefixInformation:
								out = append(out, o.Prefix.String())
							case *ndp.RouteInformation:
								out = append(out, netip.PrefixFrom(o.Prefix, int(o.PrefixLength)).String())
							case *ndp.RecursiveDNSServer:
								for _, s := range o.Servers {
									out = append(out, s.String())
								}
							}
						}
						if c.Kind != "rdnss" {
							if !sort.StringsAreSorted(out) {
								got[i] = append(got[i], fmt.Sprintf("unsorted %v", out))
							}
							sort.Strings(out)
						}
						if fmt.Sprint(out) != fmt.Sprint(want[i]) {
							got[i] = append(got[i], fmt.Sprintf("build %d: %v", rep, out))
						}
					}
					done++
					if done == c.N {
						x.Finish()
					}
				})
			}
		},
	}
	sc.Check = func(x *vsched.Exec) (out [][2]string) {
		prop := map[string]string{"prefix": "C13", "route": "C15", "rdnss": "C14"}[c.Kind]
		if x.Failure != "" {
			return [][2]string{{prop + ":concurrent:" + x.FailKind, x.Failure}}
		}
		for i, g := range got {
			if len(g) > 0 {
				out = append(out, [2]string{prop + ":concurrent:not-own-expansion", fmt.Sprintf("builder %d (own expansion %v) advertised %v", i, want[i], g)})
			}
		}
		return out
	}
	return sc
}

func TestVerifPluginConc(t *testing.T) {
	r := ev.Begin("C13", "concurrent")
	defer r.End(t)
	r.Rule = "executions = schedules within the deviation bound of 2 (prefix, route, RDNSS) and 3 (prefix) wildcard plugins with different sources, each applied twice by its own goroutine; scheduling points at every source call and clock reading (one plugin per scenario is deprecated, so that it reads the clock between expanding and emitting); oracle: every RA carries exactly its own plugin's expansion, sorted; findings are tagged C13 (prefix), C14 (RDNSS), C15 (route)"
	cases := []concCase{{"prefix-2", "prefix", 2}, {"prefix-3", "prefix", 3}, {"route-2", "route", 2}, {"rdnss-2", "rdnss", 2}}
	bound := 2
	if r.Thorough() {
		bound = 3
	}
	for _, c := range cases {
		c := c
		sc := concScenario(c)
		a, b := vsched.RunOnce(t, sc, nil), vsched.RunOnce(t, sc, nil)
		if a.Outcome() != b.Outcome() {
			r.Violation("MACHINERY:nondeterminism", "case "+c.Name+": default schedule not reproducible", nil)
			continue
		}
		st := vsched.Explore(t, sc, vsched.Options{Bound: bound, Shard: r.Shard, Shards: r.Shards, Budget: 60 * time.Second,
			OnExec: func(x *vsched.Exec, viol [][2]string) {
				r.Case(c.Name+fmt.Sprint(x.Choices()), true)
				for _, v := range viol {
					r.Violation(v[0], "case "+c.Name+": "+v[1]+"\nchoices "+fmt.Sprint(x.Choices()), map[string]any{"case": c, "choices": x.Choices()})
				}
			}})
		r.Count("states", st.States)
		r.Count("transitions", st.Transitions)
		r.Count("traces_validated_against_impl", st.Executions)
		r.Max("max_bound_completed", int64(bound))
		if st.Capped != "" {
			r.Capped(c.Name + ": " + st.Capped)
		}
	}
}
