#!/bin/sh
# Builds the framework offline from files on disk and warms the go build cache.
set -e
cd "$(dirname "$0")"
export GOFLAGS=-mod=mod GOPROXY=off GOSUMDB=off GOTOOLCHAIN=local CGO_ENABLED=0
mkdir -p .build evidence replays
(cd engine/vstage && go1.26 build -o ../../.build/vstage .)
# Warm the build cache: compile the repository's packages and their test
# dependencies once with the checking toolchain.
(cd /repo && go1.26 build ./... && go1.26 test -vet=off -count=1 -run '^$' ./internal/... >/dev/null 2>&1 || true)
echo "setup ok"
