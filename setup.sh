#!/bin/sh
# Builds the framework offline from files on disk and warms the go build cache.
set -e
cd "$(dirname "$0")"
export GOFLAGS=-mod=mod GOPROXY=off GOSUMDB=off GOTOOLCHAIN=local CGO_ENABLED=0
mkdir -p .build evidence replays
(cd engine/vstage && go1.26 build -o ../../.build/vstage .)
# Warm the build cache: compile the repository's packages and their test
# dependencies once with the checking toolchain.
(cd /repo && go1.26 build ./... && go1.26 test -vet=off -count=1 -run '^$' ./internal/... >/dev/null 2>&1 || true)
# The race parts (C05, C19) build with the race detector (needs cgo): warm that variant too.
(cd /repo && CGO_ENABLED=1 go1.26 test -race -vet=off -count=1 -run '^$' ./internal/corerad ./internal/netstate >/dev/null 2>&1 || true)
echo "setup ok"
