#!/usr/bin/env python3
"""tools/seedconfirm.py <dir with patch.diff, demo_test.go, WHERE.txt, meta.json> <name> [--prop Cxx]

Confirms a seeded property-breaking change independently, in a scratch worktree of /repo's HEAD
(outside /repo and /verif): the patch applies, the repository builds, every test of the pinned
baseline (BASELINE.json stable_pass) still passes with it, the demonstration fails with the patch and
passes without it. On success the seed is stored as /verif/seeded/<name>/ (patch.diff, demo_test.go,
meta.json with what was run). The worktree and its build output are always removed.
"""
import json, os, re, shutil, subprocess, sys, tempfile

seed, name = sys.argv[1], sys.argv[2]
prop = sys.argv[4] if len(sys.argv) > 4 and sys.argv[3] == "--prop" else name[:3]
ENV = dict(os.environ, GOFLAGS="-mod=mod", GOPROXY="off", GOSUMDB="off", GOTOOLCHAIN="local")
stable = set(json.load(open("/root/.vp/BASELINE.json"))["stable_pass"])

def sh(cmd, cwd, timeout=1500):
    p = subprocess.run(cmd, cwd=cwd, env=ENV, shell=True, stdout=subprocess.PIPE, stderr=subprocess.STDOUT, text=True, timeout=timeout)
    return p.returncode, p.stdout

def suite(wt):
    rc, out = sh("go test -json -vet=off -count=1 -timeout 25m ./cmd/... ./internal/...", wt)
    passed = set()
    for ln in out.splitlines():
        try:
            e = json.loads(ln)
        except Exception:
            continue
        if e.get("Action") == "pass" and e.get("Test"):
            passed.add("%s::%s" % (e["Package"], e["Test"]))
    return stable - passed

wt = tempfile.mkdtemp(prefix="seedconfirm-", dir="/var/tmp")
os.rmdir(wt)
res = dict(name=name, property=prop)
try:
    rc, out = sh("git -C /repo worktree add --detach %s HEAD" % wt, "/")
    assert rc == 0, out
    res["repo_head"] = sh("git rev-parse --short HEAD", wt)[1].strip()
    patch = os.path.join(seed, "patch.diff")
    rc, out = sh("git apply --check %s" % patch, wt)
    if rc != 0:
        res["error"] = "patch does not apply to current HEAD: " + out[-500:]
        raise SystemExit
    where = open(os.path.join(seed, "WHERE.txt")).read()
    m = re.search(r"(internal/[a-z]+|cmd/corerad)", where)
    pkg = m.group(1) if m else None
    demo_src = open(os.path.join(seed, "demo_test.go")).read()
    tests = re.findall(r"^func (Test\w+)\(", demo_src, re.M)
    if not pkg or not tests:
        res["error"] = "cannot determine package/tests from WHERE.txt/demo"
        raise SystemExit
    runre = "^(%s)$" % "|".join(tests)
    race = "-race " if "-race" in where else ""
    if race:
        ENV["CGO_ENABLED"] = "1"
    demo_dst = os.path.join(wt, pkg, "zz_seed_demo_test.go")
    # further files of the demonstration (e.g. an export_test.go for an external test package)
    extras = sorted(f for f in os.listdir(seed) if f.startswith("demo_") and f.endswith("_test.go") and f != "demo_test.go")
    def put_extras():
        for f in extras:
            shutil.copy(os.path.join(seed, f), os.path.join(wt, pkg, "zz_seed_" + f))
    def drop_extras():
        for f in extras:
            os.remove(os.path.join(wt, pkg, "zz_seed_" + f))
    # demo without patch
    shutil.copy(os.path.join(seed, "demo_test.go"), demo_dst)
    put_extras()
    rc0, out0 = sh("go test %s-vet=off -count=1 -run '%s' ./%s" % (race, runre, pkg), wt)
    res["demo_without_patch"] = "PASS" if rc0 == 0 else "FAIL"
    os.remove(demo_dst)
    drop_extras()
    # apply patch; build; suite
    rc, out = sh("git apply %s" % patch, wt)
    assert rc == 0, out
    rcb, outb = sh("go build ./... && go vet ./internal/... >/dev/null 2>&1; go build ./...", wt)
    res["builds_with_patch"] = rcb == 0
    # Interfaces left behind by an earlier, killed run of the repository's real-interface tests
    # (fixed names) make those tests skip or fail: remove them first.
    sh("for l in $(ip -o link show | grep -o 'crad[a-z]*[0-9]*' | sort -u); do ip link del $l 2>/dev/null; done; true", wt)
    missing = suite(wt)
    if missing:
        missing = suite(wt) & missing  # tolerate one-off flakes: must be missing twice
    res["baseline_tests_not_passing_with_patch"] = sorted(missing)
    shutil.copy(os.path.join(seed, "demo_test.go"), demo_dst)
    put_extras()
    rc1, out1 = sh("go test %s-vet=off -count=1 -run '%s' ./%s" % (race, runre, pkg), wt)
    res["demo_with_patch"] = "PASS" if rc1 == 0 else "FAIL"
    res["demo_with_patch_tail"] = out1[-600:]
    res["demo_cmd"] = "copy demo_test.go into %s/ ; go test %s-vet=off -count=1 -run '%s' ./%s" % (pkg, race, runre, pkg)
    ok = res["builds_with_patch"] and not missing and rc0 == 0 and rc1 != 0
    res["confirmed"] = bool(ok)
    if ok:
        dst = os.path.join("/verif/seeded", name)
        os.makedirs(dst, exist_ok=True)
        shutil.copy(patch, os.path.join(dst, "patch.diff"))
        shutil.copy(os.path.join(seed, "demo_test.go"), os.path.join(dst, "demo_test.go"))
        for f in extras:
            shutil.copy(os.path.join(seed, f), os.path.join(dst, f))
        meta = {}
        try:
            meta = json.load(open(os.path.join(seed, "meta.json")))
        except Exception:
            pass
        json.dump(dict(
            property=prop, origin="independent sub-agent given only the property text and a scratch worktree",
            summary=meta.get("summary"), why_it_breaks=meta.get("why_it_breaks"), needs_to_manifest=meta.get("needs_to_manifest"),
            demo_package=pkg, demo_tests=tests,
            confirmed=dict(repo_head=res["repo_head"], what_i_ran=[
                "git worktree add --detach <scratch> HEAD; git apply --check patch.diff",
                "demo without patch: " + res["demo_cmd"] + " -> PASS",
                "git apply patch.diff; go build ./... -> ok",
                "go test -json -vet=off -count=1 ./cmd/... ./internal/... -> all %d BASELINE.json stable_pass tests pass" % len(stable),
                "demo with patch -> FAIL",
            ]),
            detected_by=[],
        ), open(os.path.join(dst, "meta.json"), "w"), indent=1)
except SystemExit:
    res.setdefault("confirmed", False)
finally:
    subprocess.run("git -C /repo worktree remove --force %s; rm -rf %s; git -C /repo worktree prune" % (wt, wt), shell=True, stdout=subprocess.DEVNULL, stderr=subprocess.DEVNULL)
print(json.dumps(res, indent=1))
