#!/usr/bin/env python3
"""tools/seedmatrix_par.py [-j N] [tier] [names...] — like tools/seedmatrix.py, but every seed is applied to its own
scratch worktree of /repo's HEAD (VERIF_REPO points the driver at it; evidence files are left alone), N seeds at a
time. Same output: seeded/<name>/meta.json detected_by and seeded/MATRIX.md. The serial tool applies to /repo itself."""
import json, os, re, subprocess, sys, tempfile
from concurrent.futures import ThreadPoolExecutor
args = sys.argv[1:]
J = 4
if args[:1] == ["-j"]:
    J = int(args[1]); args = args[2:]
tier = args[0] if args else "quick"
names = args[1:] or sorted(os.listdir("/verif/seeded"))

def one(name):
    d = os.path.join("/verif/seeded", name)
    if not os.path.isdir(d):
        return None
    meta = json.load(open(os.path.join(d, "meta.json")))
    prop = meta["property"]
    if meta.get("obsolete"):
        return (name, prop, "obsolete", meta["obsolete"][:160])
    if meta.get("outside_statement"):
        return (name, prop, "outside the statement", meta["outside_statement"][:200])
    wt = tempfile.mkdtemp(prefix="seedmx-", dir="/var/tmp"); os.rmdir(wt)
    try:
        if subprocess.run("git -C /repo worktree add --detach %s HEAD" % wt, shell=True, capture_output=True).returncode != 0:
            return (name, prop, "WORKTREE FAILED", "")
        if subprocess.run(["git", "-C", wt, "apply", os.path.join(d, "patch.diff")], capture_output=True).returncode != 0:
            return (name, prop, "PATCH DOES NOT APPLY", "")
        det = []
        for p in [prop] + meta.get("also_check", []):
            r = subprocess.run(["./check", p, tier], cwd="/verif", capture_output=True, text=True,
                               env=dict(os.environ, VERIF_REPO=wt, VERIF_NO_EVIDENCE="1"))
            sigs = re.findall(r"^\[violation\] (\S+?):? \d+$", r.stdout, re.M) or re.findall(r"^\[violation\] (.+?): \d+$", r.stdout, re.M)
            det.append(dict(check=p, tier=tier, exit=r.returncode, signatures=sorted(set(sigs))[:12]))
    finally:
        subprocess.run("git -C /repo worktree remove --force %s; rm -rf %s" % (wt, wt), shell=True, capture_output=True)
    meta["detected_by"] = det
    json.dump(meta, open(os.path.join(d, "meta.json"), "w"), indent=1)
    caught = any(x["exit"] == 1 for x in det)
    status = "caught" if caught else ("MACHINERY" if any(x["exit"] == 2 for x in det) else "MISSED")
    row = (name, prop, status, "; ".join("%s %s: %s" % (x["check"], x["tier"], ", ".join(x["signatures"][:3])) for x in det if x["exit"] == 1))
    print(row, flush=True)
    return row

with ThreadPoolExecutor(J) as ex:
    rows = [r for r in ex.map(one, names) if r]
subprocess.run("git -C /repo worktree prune", shell=True)
old = {}
if len(args) > 1 and os.path.exists("/verif/seeded/MATRIX.md"):
    for ln in open("/verif/seeded/MATRIX.md").read().splitlines()[2:]:
        f = [x.strip() for x in ln.strip("|").split("|")]
        if len(f) >= 4:
            old[f[0]] = tuple(f[:4])
for r in rows:
    old[r[0]] = r
with open("/verif/seeded/MATRIX.md", "w") as fh:
    fh.write("| seed | property | result (%s tier) | signatures (first 3) |\n|---|---|---|---|\n" % tier)
    for k in sorted(old):
        fh.write("| %s | %s | %s | %s |\n" % old[k])
print("caught %d of %d (obsolete: %d)" % (sum(1 for r in rows if r[2] == "caught"), len(rows), sum(1 for r in rows if r[2] == "obsolete")))
