#!/usr/bin/env python3
"""tools/mutate.py gen|run|report  -- systematic "demonstrate detection" at scale.

gen     enumerates one-token mutants of the non-test sources the properties are anchored in
        (comparison / boolean / arithmetic operator swaps, negated conditions, true<->false, dropped
        `!`, small-constant changes, a statement replaced by nothing: `continue`, `break`, `return nil`)
        and writes /verif/mutants/mutants.jsonl.
run     N workers, each with its own scratch worktree of /repo's HEAD under /var/tmp: apply one mutant,
        build, run the repository's own test suite; a mutant that the suite does not kill is a "change
        that compiles and passes the existing tests": the quick checks of the properties anchored in the
        mutated file are run against it (VERIF_REPO, no evidence written). Results are appended to
        /verif/mutants/results.jsonl (resumable).
report  summarises: per file / property killed-by-suite, killed-by-check (which), survived.

Survivors are read by a human: an equivalent mutant (same behaviour) is expected to survive; a
behaviour-changing survivor is a blind spot of the checks and is turned into a strengthening.
Nothing here is part of a registered check; it never touches /repo's working tree.
"""
import json
import os
import re
import subprocess
import sys
import threading
import time

VERIF = "/verif"
REPO = "/repo"
OUT = os.path.join(VERIF, "mutants")
ENV = dict(os.environ, GOFLAGS="-mod=mod", GOPROXY="off", GOSUMDB="off", GOTOOLCHAIN="local")

# file -> properties whose checks are run on a surviving mutant of that file
FILES = {
    "internal/corerad/advertise.go": ["C01", "C04", "C05", "C06", "C07", "C08", "C09", "C10", "C12", "C16"],
    "internal/corerad/listener.go": ["C09", "C10", "C07"],
    "internal/corerad/monitor.go": ["C18", "C09", "C10"],
    "internal/corerad/verify.go": ["C12"],
    "internal/corerad/metrics.go": ["C17", "C04", "C18", "C07"],
    "internal/corerad/server.go": ["C20", "C08"],
    "internal/plugin/plugin.go": ["C13", "C14", "C15", "C16", "C01", "C17"],
    "internal/config/config.go": ["C02", "C01", "C03", "C04"],
    "internal/config/interface.go": ["C02", "C01", "C03", "C05"],
    "internal/config/plugin.go": ["C02", "C03", "C01", "C14"],
    "internal/system/dialer.go": ["C10", "C11"],
    "internal/system/conn.go": ["C11", "C10"],
    "internal/netstate/watcher.go": ["C19"],
    "internal/netstate/watcher_linux.go": ["C19"],
    "internal/crhttp/handler.go": ["C17", "C04"],
    "internal/crhttp/ra.go": ["C17", "C03"],
}

SWAPS = [("==", "!="), ("!=", "=="), ("<=", "<"), (">=", ">"), ("<", "<="), (">", ">="), ("&&", "||"), ("||", "&&"),
         ("+", "-"), ("-", "+")]


def code_spans(line, state):
    """Yield (start, end) spans of `line` that are code (not string, rune, comment). state: in block comment."""
    spans, i, n, start = [], 0, len(line), 0
    in_block = state
    cur = None
    while i < n:
        if in_block:
            j = line.find("*/", i)
            if j < 0:
                return spans, True
            i = j + 2
            in_block = False
            cur = i
            continue
        if cur is None:
            cur = i
        c = line[i]
        if line.startswith("//", i):
            spans.append((cur, i))
            return spans, False
        if line.startswith("/*", i):
            spans.append((cur, i))
            in_block = True
            cur = None
            i += 2
            continue
        if c in "\"'`":
            spans.append((cur, i))
            q = c
            i += 1
            while i < n and line[i] != q:
                if line[i] == "\\" and q != "`":
                    i += 1
                i += 1
            i += 1
            cur = i
            continue
        i += 1
    if cur is not None and cur < n:
        spans.append((cur, n))
    return spans, in_block


def gen():
    os.makedirs(OUT, exist_ok=True)
    muts = []
    for f in FILES:
        lines = open(os.path.join(REPO, f)).read().split("\n")
        in_block = False
        in_import = False
        for ln, line in enumerate(lines):
            spans, in_block = code_spans(line, in_block)
            s = line.strip()
            if s.startswith("import ("):
                in_import = True
            if in_import:
                if s == ")":
                    in_import = False
                continue
            if not s or s.startswith("//") or s.startswith("package ") or s.startswith("import "):
                continue

            def add(new, op):
                if new != line:
                    muts.append(dict(file=f, line=ln + 1, old=line, new=new, op=op))

            for (a, b) in spans:
                seg = line[a:b]
                # binary operator swaps
                for m in re.finditer(r"(==|!=|<=|>=|&&|\|\||(?<![<\-+=!&|:>])<(?![<\-=])|(?<![>\-+=!&|<])>(?![>=])|(?<=\s)\+(?=\s)|(?<=\s)-(?=\s))", seg):
                    tok = m.group(1)
                    for x, y in SWAPS:
                        if tok == x:
                            p = a + m.start(1)
                            add(line[:p] + y + line[p + len(x):], "%s->%s" % (x, y))
                # dropped negation
                for m in re.finditer(r"!(?=[A-Za-z_(])", seg):
                    p = a + m.start()
                    add(line[:p] + line[p + 1:], "drop-!")
                # true/false
                for m in re.finditer(r"\b(true|false)\b", seg):
                    p = a + m.start()
                    t = m.group(1)
                    add(line[:p] + ("false" if t == "true" else "true") + line[p + len(t):], "bool-flip")
                # small integer constants
                for m in re.finditer(r"(?<![\w.])(\d+)(?![\w.])", seg):
                    v = int(m.group(1))
                    p = a + m.start()
                    for nv in ({v + 1, max(0, v - 1)} - {v}):
                        add(line[:p] + str(nv) + line[p + len(m.group(1)):], "const %d->%d" % (v, nv))
            # negate an if condition
            m = re.match(r"^(\s*)(?:\} else )?if (.*) \{$", line)
            if m and ";" not in m.group(2) and ":=" not in m.group(2):
                cond = m.group(2)
                add(line.replace("if " + cond + " {", "if !(" + cond + ") {"), "negate-if")
            # statement removal
            if s in ("continue", "break"):
                add(line.replace(s, "{}" if False else "_ = 0"), "drop-" + s)
            if re.match(r"^\s*[A-Za-z_][\w.\[\]]*(\.[A-Za-z_]\w*)* = [^=].*$", line) and not s.startswith("var ") and ":=" not in s:
                ind = line[: len(line) - len(line.lstrip())]
                lhs = s.split(" = ", 1)[0]
                rhs = s.split(" = ", 1)[1]
                if not rhs.endswith("{") and not rhs.endswith("(") and not rhs.endswith(","):
                    add(ind + "_ = " + rhs, "drop-assign " + lhs)
            if re.match(r"^\s*[a-z]\w*(\.\w+)*\([^)]*\)$", line) and not s.startswith("return") and not s.startswith("defer") and not s.startswith("go "):
                add(line[: len(line) - len(line.lstrip())] + "_ = 0 // " + s, "drop-call")
            if s.startswith("defer ") and s.endswith(")"):
                add(line[: len(line) - len(line.lstrip())] + "_ = 0 // " + s, "drop-defer")
    # de-duplicate
    seen, out = set(), []
    for m in muts:
        k = (m["file"], m["line"], m["new"])
        if k not in seen:
            seen.add(k)
            m["id"] = len(out)
            out.append(m)
    with open(os.path.join(OUT, "mutants.jsonl"), "w") as fh:
        for m in out:
            fh.write(json.dumps(m) + "\n")
    byf = {}
    for m in out:
        byf[m["file"]] = byf.get(m["file"], 0) + 1
    print(len(out), "mutants", byf)


def sh(cmd, cwd, timeout, env=None):
    try:
        p = subprocess.run(cmd, shell=True, cwd=cwd, env=env or ENV, stdout=subprocess.PIPE, stderr=subprocess.STDOUT, text=True, timeout=timeout)
        return p.returncode, p.stdout
    except subprocess.TimeoutExpired as e:
        return -9, (e.stdout or "") if isinstance(e.stdout, str) else ""


def suite_verdict(out, stable):
    """killed iff a stable-pass test fails (a skip of an environment-dependent test is not a failure)."""
    failed = []
    for l in out.split("\n"):
        if not l.startswith("{"):
            continue
        try:
            e = json.loads(l)
        except Exception:  # noqa: BLE001
            continue
        if e.get("Action") == "fail" and e.get("Test"):
            k = e["Package"] + "::" + e["Test"]
            # Tests on real interfaces (veth/tun with fixed names) collide between parallel worktrees.
            if k in stable and "/real" not in k and "TestAdvertiserLinux" not in k and "Integration" not in k:
                failed.append(k)
    return failed


def worker(wid, queue, lock, stable, resfh):
    wt = "/var/tmp/mut-%d" % wid
    subprocess.run("git -C /repo worktree remove --force %s; git -C /repo worktree prune" % wt, shell=True, stdout=subprocess.DEVNULL, stderr=subprocess.DEVNULL)
    subprocess.run("git -C /repo worktree add --detach %s HEAD" % wt, shell=True, stdout=subprocess.DEVNULL, stderr=subprocess.DEVNULL)
    try:
        while True:
            with lock:
                if not queue:
                    break
                m = queue.pop(0)
            res = dict(id=m["id"], file=m["file"], line=m["line"], op=m["op"], old=m["old"].strip(), new=m["new"].strip())
            path = os.path.join(wt, m["file"])
            src = open(path).read().split("\n")
            if src[m["line"] - 1] != m["old"]:
                res["status"] = "stale"
            else:
                src[m["line"] - 1] = m["new"]
                open(path, "w").write("\n".join(src))
                rc, out = sh("go build ./... && go vet ./%s" % os.path.dirname(m["file"]), wt, 300)
                if rc != 0:
                    res["status"] = "uncompilable"
                else:
                    # the mutated package and everything that imports it
                    rc, out = sh("go test -json -vet=off -count=1 -timeout 240s ./...", wt, 400)
                    failed = suite_verdict(out, stable)
                    if failed or rc == -9:
                        res["status"] = "killed-by-suite"
                        res["by"] = failed[:3] if failed else ["timeout"]
                    else:
                        res["status"] = "survived"
                        res["checks"] = {}
                        for prop in FILES[m["file"]]:
                            env = dict(ENV, VERIF_REPO=wt, VERIF_NO_EVIDENCE="1")
                            rc, out = sh("./check %s quick" % prop, VERIF, 900, env)
                            sigs = sorted(set(re.findall(r"^\[violation\] ([^ ]+):", out, re.M)))
                            res["checks"][prop] = dict(rc=rc, sigs=sigs[:4])
                            if rc == 1:
                                res["status"] = "killed-by-check"
                                res["by"] = prop
                                break
                            if rc not in (0, 1):
                                res["machinery"] = out[-1500:]
                subprocess.run("git checkout -- .", shell=True, cwd=wt)
            with lock:
                resfh.write(json.dumps(res) + "\n")
                resfh.flush()
                print(res["id"], res["file"], res["line"], res["op"], "->", res["status"], res.get("by", ""), flush=True)
    finally:
        subprocess.run("git -C /repo worktree remove --force %s; git -C /repo worktree prune" % wt, shell=True, stdout=subprocess.DEVNULL, stderr=subprocess.DEVNULL)


def run(nworkers, only_files=None, limit=None, stride=1):
    base = json.load(open("/root/.vp/BASELINE.json"))
    stable = set(base["stable_pass"])
    muts = [json.loads(l) for l in open(os.path.join(OUT, "mutants.jsonl"))]
    done = set()
    rp = os.path.join(OUT, "results.jsonl")
    if os.path.exists(rp):
        for l in open(rp):
            done.add(json.loads(l)["id"])
    queue = [m for m in muts if m["id"] not in done and (not only_files or any(f in m["file"] for f in only_files))]
    queue = queue[::stride]
    if limit:
        queue = queue[:limit]
    print("to run:", len(queue))
    lock = threading.Lock()
    with open(rp, "a") as resfh:
        ts = [threading.Thread(target=worker, args=(i, queue, lock, stable, resfh)) for i in range(nworkers)]
        for t in ts:
            t.start()
        for t in ts:
            t.join()


ALL = ["C%02d" % i for i in range(1, 21)]


def recheck_worker(wid, queue, lock, muts, outfh):
    wt = "/var/tmp/mut-%d" % wid
    subprocess.run("git -C /repo worktree remove --force %s; git -C /repo worktree prune" % wt, shell=True, stdout=subprocess.DEVNULL, stderr=subprocess.DEVNULL)
    subprocess.run("git -C /repo worktree add --detach %s HEAD" % wt, shell=True, stdout=subprocess.DEVNULL, stderr=subprocess.DEVNULL)
    try:
        while True:
            with lock:
                if not queue:
                    break
                r = queue.pop(0)
            m = muts[r["id"]]
            path = os.path.join(wt, m["file"])
            src = open(path).read().split("\n")
            if src[m["line"] - 1] != m["old"]:
                continue
            src[m["line"] - 1] = m["new"]
            open(path, "w").write("\n".join(src))
            for prop in (os.environ.get("MUT_PROPS", "").split() or ALL):
                if prop in r.get("checks", {}):
                    continue
                env = dict(ENV, VERIF_REPO=wt, VERIF_NO_EVIDENCE="1")
                rc, out = sh("./check %s quick" % prop, VERIF, 900, env)
                sigs = sorted(set(re.findall(r"^\[violation\] ([^ ]+):", out, re.M)))
                r.setdefault("checks", {})[prop] = dict(rc=rc, sigs=sigs[:4])
                if rc == 1:
                    r["status"] = "killed-by-check"
                    r["by"] = prop
                    break
                if rc not in (0, 1):
                    r["machinery"] = prop + ": " + out[-1200:]
            r["rechecked"] = True
            subprocess.run("git checkout -- .", shell=True, cwd=wt)
            with lock:
                outfh.write(json.dumps(r) + "\n")
                outfh.flush()
                print(r["id"], r["file"], r["line"], r["op"], "->", r["status"], r.get("by", ""), flush=True)
    finally:
        subprocess.run("git -C /repo worktree remove --force %s; git -C /repo worktree prune" % wt, shell=True, stdout=subprocess.DEVNULL, stderr=subprocess.DEVNULL)


def recheck(nworkers, fresh_files=None):
    """Second pass: every survivor is run against all the other properties' quick checks too."""
    muts = {}
    for l in open(os.path.join(OUT, "mutants.jsonl")):
        m = json.loads(l)
        muts[m["id"]] = m
    rs = {}
    for l in open(os.path.join(OUT, "results.jsonl")):
        r = json.loads(l)
        rs[r["id"]] = r  # later lines (rechecks) override
    if fresh_files:
        # Run the survivors of these files against every check again, as the checks are now.
        queue = [dict(r, checks={}, rechecked=False) for r in rs.values() if r["status"] == "survived" and any(f in r["file"] for f in fresh_files)]
        for r in queue:
            r.pop("machinery", None)
    else:
        queue = [r for r in rs.values() if r["status"] == "survived" and not r.get("rechecked")]
    print("to recheck:", len(queue))
    lock = threading.Lock()
    with open(os.path.join(OUT, "results.jsonl"), "a") as fh:
        ts = [threading.Thread(target=recheck_worker, args=(i, queue, lock, muts, fh)) for i in range(nworkers)]
        for t in ts:
            t.start()
        for t in ts:
            t.join()


def report():
    latest = {}
    for l in open(os.path.join(OUT, "results.jsonl")):
        r = json.loads(l)
        latest[r["id"]] = r
    rs = list(latest.values())
    byf = {}
    for r in rs:
        d = byf.setdefault(r["file"], {})
        d[r["status"]] = d.get(r["status"], 0) + 1
    tot = {}
    for f, d in sorted(byf.items()):
        print(f, d)
        for k, v in d.items():
            tot[k] = tot.get(k, 0) + v
    print("TOTAL", tot)
    print("\nSURVIVORS (passed the suite and every mapped check):")
    for r in rs:
        if r["status"] == "survived":
            print("  #%d %s:%d [%s]\n      - %s\n      + %s" % (r["id"], r["file"], r["line"], r["op"], r["old"], r["new"]))
    mach = [r for r in rs if r.get("machinery")]
    if mach:
        print("\nMACHINERY ERRORS:", [(r["id"], r["file"], r["line"]) for r in mach])


if __name__ == "__main__":
    cmd = sys.argv[1]
    if cmd == "gen":
        gen()
    elif cmd == "run":
        n = int(sys.argv[2]) if len(sys.argv) > 2 else 4
        files = [a for a in sys.argv[3:] if not a.startswith("--")]
        lim = [int(a.split("=")[1]) for a in sys.argv[3:] if a.startswith("--limit=")]
        st = [int(a.split("=")[1]) for a in sys.argv[3:] if a.startswith("--stride=")]
        run(n, files or None, lim[0] if lim else None, st[0] if st else 1)
    elif cmd == "recheck":
        recheck(int(sys.argv[2]) if len(sys.argv) > 2 else 4, sys.argv[3:] or None)
    elif cmd == "report":
        report()
