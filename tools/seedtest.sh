#!/bin/sh
# tools/seedtest.sh <patch.diff> <property> [quick|thorough]
# Runs a check against a scratch worktree of /repo's HEAD with a seeded property-breaking change applied
# (VERIF_REPO points the driver at it), so that it can run while other checks use /repo itself. The official
# matrix (tools/seedmatrix.py) applies each patch to /repo as prescribed. The worktree is always removed.
P="$1"; ID="$2"; TIER="${3:-quick}"
WT=$(mktemp -d /var/tmp/seedtest-XXXXXX); rmdir "$WT"
git -C /repo worktree add --detach "$WT" HEAD >/dev/null 2>&1 || { echo "seedtest: cannot create worktree"; exit 2; }
if ! git -C "$WT" apply "$P" 2>/dev/null; then echo "seedtest: patch does not apply: $P"; git -C /repo worktree remove --force "$WT"; exit 3; fi
cd /verif && VERIF_REPO="$WT" VERIF_NO_EVIDENCE=1 ./check "$ID" "$TIER" > "$WT.log" 2>&1; RC=$?
git -C /repo worktree remove --force "$WT"; git -C /repo worktree prune
grep -E '^\[violation\]|^VIOLATION|^KNOWN|^\[C|MACHINERY' "$WT.log" | cut -c1-300 | head -12
rm -f "$WT.log"
echo "seedtest: $P on $ID $TIER -> exit $RC"
exit 0
