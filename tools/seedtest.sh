#!/bin/sh
# tools/seedtest.sh <patch.diff> <property> [quick|thorough]
# Applies a seeded property-breaking change to /repo's working tree, runs the
# check, and always reverts the working tree afterwards.
P="$1"; ID="$2"; TIER="${3:-quick}"
cd /repo || exit 2
if [ -n "$(git status --porcelain)" ]; then echo "seedtest: /repo working tree not clean"; exit 2; fi
if ! git apply --check "$P" 2>/dev/null; then echo "seedtest: patch does not apply: $P"; exit 3; fi
git apply "$P"
cd /verif && ./check "$ID" "$TIER" > /tmp/seedtest.$$ 2>&1; RC=$?
git -C /repo checkout -- . ; git -C /repo clean -fdq
grep -E '^\[violation\]|^VIOLATION|^KNOWN|^\[C|MACHINERY' /tmp/seedtest.$$ | cut -c1-300 | head -12
rm -f /tmp/seedtest.$$
echo "seedtest: $P on $ID $TIER -> exit $RC"
exit 0
