#!/bin/sh
# tools/sweep.sh [quick|thorough] [ids...] : run every check on /repo as it is; print one line per property.
TIER="${1:-quick}"; shift 2>/dev/null
IDS="${*:-C01 C02 C03 C04 C05 C06 C07 C08 C09 C10 C11 C12 C13 C14 C15 C16 C17 C18 C19 C20}"
cd /verif
for id in $IDS; do
  S=$(date +%s)
  ./check $id $TIER > /tmp/sweep.$id.log 2>&1; RC=$?
  E=$(date +%s)
  echo "$id $TIER exit=$RC $((E-S))s $(grep -E '^\[C' /tmp/sweep.$id.log | cut -c1-150) $(grep -c '^KNOWN-FINDING' /tmp/sweep.$id.log) known"
done
