#!/bin/sh
# tools/seedround.sh <round> <Cxx> : test (quick tier) and confirm+store the two seeds of a property written in
# /tmp/seed<round>/<Cxx>/out/{A,B}; stored as seeded/<Cxx>-<round>A / -<round>B.
R="$1"; ID="$2"
for v in A B; do
  D=/tmp/seed$R/$ID/out/$v
  [ -f $D/patch.diff ] || { echo "$ID-$R$v: no patch"; continue; }
  /verif/tools/seedtest.sh $D/patch.diff $ID 2>&1 | grep -v '^VIOLATION' | cut -c1-200
  python3 /verif/tools/seedconfirm.py $D $ID-$R$v > /tmp/seedconfirm_$ID-$R$v.log 2>&1
  grep -E '"confirmed"|"error"' /tmp/seedconfirm_$ID-$R$v.log | tr -d '\n'; echo " <- confirm $ID-$R$v"
done
