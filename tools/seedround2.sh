#!/bin/sh
# tools/seedround2.sh <Cxx> : test (quick tier) and confirm+store the two round-2 seeds of a property.
ID="$1"
for v in A B; do
  D=/tmp/seed2/$ID/out/$v
  [ -f $D/patch.diff ] || { echo "$ID-2$v: no patch"; continue; }
  /verif/tools/seedtest.sh $D/patch.diff $ID 2>&1 | grep -v '^VIOLATION' | cut -c1-200
  python3 /verif/tools/seedconfirm.py $D $ID-2$v > /tmp/seedconfirm_$ID-2$v.log 2>&1
  grep -E '"confirmed"|"error"' /tmp/seedconfirm_$ID-2$v.log | tr -d '\n'; echo " <- confirm $ID-2$v"
done
