#!/usr/bin/env python3
"""tools/seedmatrix.py [tier] [names...] — for every stored seed: git -C /repo apply, run its property's check,
git -C /repo checkout; record which violation signatures fired in seeded/<name>/meta.json (detected_by) and
print a table (also written to seeded/MATRIX.md). Requires a clean /repo working tree."""
import json, os, re, subprocess, sys
tier = sys.argv[1] if len(sys.argv) > 1 else "quick"
names = sys.argv[2:] or sorted(os.listdir("/verif/seeded"))
rows = []
for name in names:
    d = os.path.join("/verif/seeded", name)
    if not os.path.isdir(d):
        continue
    meta = json.load(open(os.path.join(d, "meta.json")))
    prop = meta["property"]
    if meta.get("obsolete"):
        rows.append((name, prop, "obsolete", meta["obsolete"][:160])); continue
    if meta.get("outside_statement"):
        rows.append((name, prop, "outside the statement", meta["outside_statement"][:200])); continue
    props = [prop] + meta.get("also_check", [])
    assert subprocess.run("git -C /repo status --porcelain", shell=True, capture_output=True, text=True).stdout == "", "/repo not clean"
    if subprocess.run(["git", "-C", "/repo", "apply", os.path.join(d, "patch.diff")]).returncode != 0:
        rows.append((name, prop, "PATCH DOES NOT APPLY", "")); continue
    det = []
    try:
        for p in props:
            r = subprocess.run(["./check", p, tier], cwd="/verif", capture_output=True, text=True)
            sigs = re.findall(r"^\[violation\] (\S+?):? \d+$", r.stdout, re.M) or re.findall(r"^\[violation\] (.+?): \d+$", r.stdout, re.M)
            det.append(dict(check=p, tier=tier, exit=r.returncode, signatures=sorted(set(sigs))[:12]))
    finally:
        subprocess.run("git -C /repo checkout -- . && git -C /repo clean -fdq", shell=True)
    meta["detected_by"] = det
    json.dump(meta, open(os.path.join(d, "meta.json"), "w"), indent=1)
    caught = any(x["exit"] == 1 for x in det)
    rows.append((name, prop, "caught" if caught else "MISSED", "; ".join("%s %s: %s" % (x["check"], x["tier"], ", ".join(x["signatures"][:3])) for x in det if x["exit"] == 1)))
    print(rows[-1], flush=True)
old = {}
if len(sys.argv) > 2 and os.path.exists("/verif/seeded/MATRIX.md"):
    for ln in open("/verif/seeded/MATRIX.md").read().splitlines()[2:]:
        f = [x.strip() for x in ln.strip("|").split("|")]
        if len(f) >= 4:
            old[f[0]] = tuple(f[:4])
for r in rows:
    old[r[0]] = r
with open("/verif/seeded/MATRIX.md", "w") as fh:
    fh.write("| seed | property | result (%s tier) | signatures (first 3) |\n|---|---|---|---|\n" % tier)
    for k in sorted(old):
        fh.write("| %s | %s | %s | %s |\n" % old[k])
print("caught %d of %d (obsolete: %d)" % (sum(1 for r in rows if r[2] == "caught"), len(rows), sum(1 for r in rows if r[2] == "obsolete")))
