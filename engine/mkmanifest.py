#!/usr/bin/env python3
"""Regenerates /verif/MANIFEST.json from engine/props.py (single source of truth)."""
import json, os, sys
HERE = os.path.dirname(os.path.abspath(__file__))
sys.path.insert(0, HERE)
from props import PROPS, NOT_APPLICABLE, ENGINES  # noqa: E402

ALL = ["C%02d" % i for i in range(1, 21)]
checks = []
for pid in ALL:
    if pid not in PROPS:
        continue
    p = PROPS[pid]
    checks.append(dict(
        property_id=pid,
        quick_cmd="./check %s quick" % pid,
        thorough_cmd="./check %s thorough" % pid,
        evidence_file="/verif/evidence/%s.json" % pid,
        replay_cmd_template="./check %s --replay {path}" % pid,
        engine=p.get("engine", "enum"),
        level_claimed=dict(category=p["level"], text=p["text"], design_ref=p.get("design_ref", "DESIGN.md §4 " + pid)),
        level_note=p["note"],
        technique=p["technique"],
    ))
na = [dict(property_id=k, reason=v) for k, v in sorted(NOT_APPLICABLE.items()) if k not in PROPS]
for pid in ALL:
    if pid not in PROPS and pid not in NOT_APPLICABLE:
        na.append(dict(property_id=pid, reason="check not built yet in this revision of /verif (planned: DESIGN.md §4 %s); not claimed until it exists" % pid))
m = dict(
    version=1,
    setup_cmd="./setup.sh",
    hooks=dict(
        guard="verif",
        enable="go1.26 test -c -tags verif -vet=off -overlay <overlay.json generated per run by ./check + engine/vstage from /repo's working tree> ./internal/<pkg>",
        baseline_off_cmd="cd /repo && GOFLAGS=-mod=mod GOPROXY=off GOSUMDB=off go test -json -vet=off -count=1 -timeout 25m ./...",
        source_commits=[],
        add_only=True,
    ),
    engines=ENGINES,
    checks=checks,
    not_applicable=sorted(na, key=lambda d: d["property_id"]),
    notes="All instrumentation is staged at build time through `go test -overlay` from /repo's current working tree (no hook commits in /repo; guard = build tag `verif` on every file /verif adds). Exit 0 = held on everything explored, 1 = VIOLATION line, 2 = machinery failure (no verdict). Known findings: /verif/known_findings.json.",
)
with open(os.path.join(os.path.dirname(HERE), "MANIFEST.json"), "w") as fh:
    json.dump(m, fh, indent=1)
print("MANIFEST.json: %d checks, %d not_applicable" % (len(checks), len(na)))
