#!/usr/bin/env python3
"""Validates MANIFEST.json and evidence/*.json against the given schemas (uses python3-vt's jsonschema)."""
import json, glob, sys, jsonschema
ms = json.load(open('/root/.vp/MANIFEST.schema.json'))
es = json.load(open('/root/.vp/EVIDENCE.schema.json'))
jsonschema.validate(json.load(open('/verif/MANIFEST.json')), ms)
n = 0
for f in sorted(glob.glob('/verif/evidence/*.json')):
    jsonschema.validate(json.load(open(f)), es); n += 1
print("MANIFEST valid; %d evidence files valid" % n)
