//go:build verif

package vsched

import (
	"fmt"
	"strings"
	"testing"
	"testing/synctest"
	"time"
)

// A Scenario builds one instance of the system under test inside a fresh
// synctest bubble: it spawns root goroutines with x.Spawn and returns. Check is
// called after the execution with the execution (trace, log, failure) and
// returns violations as (signature, message).
type Scenario struct {
	Name     string
	Setup    func(x *Exec)
	Check    func(x *Exec) [][2]string
	Horizon  time.Duration // virtual time limit (default 1h)
	MaxSteps int           // step limit per execution (default 20000)
}

// RunOnce executes the scenario under the given choice prefix.
func RunOnce(t *testing.T, sc *Scenario, prefix []int) (x *Exec) {
	x = &Exec{
		gs:       map[int64]*G{},
		prefix:   prefix,
		wake:     nil,
		MaxSteps: sc.MaxSteps,
		Horizon:  sc.Horizon,
	}
	if x.MaxSteps == 0 {
		x.MaxSteps = 20000
	}
	if x.Horizon == 0 {
		x.Horizon = time.Hour
	}
	func() {
		// Whatever the shims keep in channels belongs to the bubble: once the execution is
		// over (the oracle runs outside it) their state starts afresh.
		defer epoch.Add(1)
		defer func() {
			// synctest panics when blocked goroutines remain after the root
			// returns ("deadlock: main bubble goroutine has exited..."): leaked
			// goroutines are counted, not fatal.
			if r := recover(); r != nil {
				msg := fmt.Sprint(r)
				if !strings.Contains(msg, "deadlock") && !strings.Contains(msg, "blocked goroutines") {
					x.fail("machinery", "synctest.Test panicked: %v", r)
				}
			}
		}()
		synctest.Test(t, func(t *testing.T) {
			epoch.Add(1)
			x.wake = make(chan struct{}, 1)
			x.start = time.Now()
			cur.Store(x)
			defer cur.Store(nil)
			sc.Setup(x)
			x.loop()
			// Tear down: release every parked goroutine into Goexit.
			x.aborted.Store(true)
			x.mu.Lock()
			for _, g := range x.all {
				if g.parked && !g.exited {
					g.parked = false
					close(g.gate)
				}
			}
			x.mu.Unlock()
			synctest.Wait()
			x.mu.Lock()
			for _, g := range x.all {
				if !g.exited {
					x.Leaked = append(x.Leaked, g.ID+"@"+g.label)
				}
			}
			x.mu.Unlock()
		})
	}()
	return x
}

// RunFree runs the scenario's threads as plain goroutines under the virtual clock
// with no scheduler: no execution is current, so every instrumented operation and
// every shim passes straight through to the real primitive. This is the body of the
// separate free-running race-detector passes (the cooperative scheduler's hand-offs
// are happens-before edges that would hide a missing lock from the detector).
// Observations are not recorded; the only verdict is the race detector's.
func RunFree(t *testing.T, sc *Scenario) (finished bool) {
	x := &Exec{gs: map[int64]*G{}, free: true, Horizon: sc.Horizon}
	if x.Horizon == 0 {
		x.Horizon = time.Hour
	}
	func() {
		defer epoch.Add(1)
		defer func() {
			if r := recover(); r != nil {
				msg := fmt.Sprint(r)
				if !strings.Contains(msg, "deadlock") && !strings.Contains(msg, "blocked goroutines") {
					panic(r)
				}
			}
		}()
		synctest.Test(t, func(t *testing.T) {
			epoch.Add(1)
			x.start = time.Now()
			x.doneC = make(chan struct{}) // made inside the bubble: waiting on it is durable
			sc.Setup(x)
			for _, f := range x.freeStart {
				go f()
			}
			select {
			case <-x.doneC:
				finished = true
			case <-time.After(x.Horizon):
			}
			synctest.Wait()
		})
	}()
	return finished
}

func (x *Exec) loop() {
	deadline := time.NewTimer(x.Horizon)
	defer deadline.Stop()
	for {
		synctest.Wait()
		if x.Failure != "" {
			return
		}
		ps := x.parkedList()
		if len(ps) == 0 {
			if x.live() == 0 || x.finished.Load() {
				return
			}
			// Nobody can move now: let virtual time pass until somebody reaches
			// a scheduling point, exits, or the horizon is reached.
			select {
			case <-x.wake:
			case <-deadline.C:
				if !x.finished.Load() {
					x.fail("hang", "no goroutine runnable before the horizon (%s): %s", x.Horizon, x.describeBlocked())
				}
				return
			}
			continue
		}
		if x.finished.Load() {
			return
		}
		x.Steps++
		if x.Steps > x.MaxSteps {
			x.fail("steps", "step limit %d exceeded (livelock or horizon too long): parked %s", x.MaxSteps, describe(ps))
			return
		}
		c := 0
		if len(ps) > 1 {
			alts := make([]string, len(ps))
			for i, g := range ps {
				alts[i] = g.ID + "@" + g.label
			}
			c = x.choose("sched", ps[0].label, len(ps), alts)
			if c > 0 {
				x.delay(ps[:c])
			}
		}
		g := ps[c]
		x.mu.Lock()
		g.parked = false
		x.lastRan = g
		x.mu.Unlock()
		// Drain a stale wake token so that the next quiescent wait is exact.
		select {
		case <-x.wake:
		default:
		}
		g.gate <- struct{}{}
	}
}

func describe(ps []*G) string {
	var s []string
	for _, g := range ps {
		s = append(s, g.ID+"@"+g.label)
	}
	return strings.Join(s, ", ")
}

func (x *Exec) describeBlocked() string {
	x.mu.Lock()
	defer x.mu.Unlock()
	var s []string
	for _, g := range x.all {
		if !g.exited {
			s = append(s, g.ID+" after "+g.label)
		}
	}
	return strings.Join(s, "; ")
}

// Choices returns the choice list of the execution.
func (x *Exec) Choices() []int {
	out := make([]int, len(x.Trace))
	for i, c := range x.Trace {
		out[i] = c.Chosen
	}
	return out
}

// Deviations counts the non-default choices.
func (x *Exec) Deviations() int {
	n := 0
	for _, c := range x.Trace {
		if c.Chosen != 0 {
			n++
		}
	}
	return n
}

// LogString renders the observation log.
func (x *Exec) LogString() string {
	var b strings.Builder
	for _, e := range x.Log {
		fmt.Fprintf(&b, "  %12s %-6s %-14s %s\n", e.T, e.G, e.Kind, e.Detail)
	}
	return b.String()
}

// Signature of the observable behaviour of an execution (for distinct_outcomes).
func (x *Exec) Outcome() string {
	var b strings.Builder
	for _, e := range x.Log {
		fmt.Fprintf(&b, "%s|%s|%s;", e.T, e.Kind, e.Detail)
	}
	if x.Failure != "" {
		b.WriteString("FAIL:" + x.FailKind)
	}
	return b.String()
}

// Stats accumulates exploration counters.
type Stats struct {
	Executions  int64
	Transitions int64
	States      int64 // distinct choice prefixes executed == executions (stateless search)
	MaxDepth    int
	Bound       int // highest deviation bound completed
	Capped      string
	Outcomes    map[string]int64
	Leaked      int64
}

// Options controls Explore.
type Options struct {
	Bound     int           // maximum number of non-default choices
	Shard     int           // this shard
	Shards    int           // number of shards (level-1 subtrees are dealt round-robin)
	Budget    time.Duration // wall-clock budget (0 = none)
	MaxExec   int64         // execution cap (0 = none)
	OnExec    func(x *Exec, viol [][2]string)
	KindCost  func(kind string) int // cost of a non-default choice of a kind (default 1)
	NoEnvCost bool                  // environment choices are free (ENV-DFS: enumerate all answers)
}

// Explore runs the iterative delay-bounded depth-first search.
func Explore(t *testing.T, sc *Scenario, opt Options) *Stats {
	st := &Stats{Outcomes: map[string]int64{}}
	start := time.Now()
	if opt.Shards < 1 {
		opt.Shards = 1
	}
	cost := func(c ChoicePoint) int {
		if c.Chosen == 0 {
			return 0
		}
		if opt.NoEnvCost && c.Kind == "env" {
			return 0
		}
		return 1
	}
	altCost := func(c ChoicePoint) int {
		if opt.NoEnvCost && c.Kind == "env" {
			return 0
		}
		return 1
	}
	var rec func(prefix []int, depth int, top bool) bool
	seq := 0
	rec = func(prefix []int, depth int, top bool) bool {
		if st.Capped != "" {
			return false
		}
		if opt.Budget > 0 && time.Since(start) > opt.Budget {
			st.Capped = fmt.Sprintf("wall-clock budget %s reached", opt.Budget)
			return false
		}
		if opt.MaxExec > 0 && st.Executions >= opt.MaxExec {
			st.Capped = fmt.Sprintf("execution cap %d reached", opt.MaxExec)
			return false
		}
		x := RunOnce(t, sc, prefix)
		st.Executions++
		st.States++
		st.Transitions += int64(x.Steps) + int64(len(x.Trace))
		st.Leaked += int64(len(x.Leaked))
		if len(x.Trace) > st.MaxDepth {
			st.MaxDepth = len(x.Trace)
		}
		var viol [][2]string
		if x.FailKind == "divergence" || x.FailKind == "machinery" {
			viol = append(viol, [2]string{"MACHINERY:" + x.FailKind, x.Failure})
		} else if sc.Check != nil {
			viol = sc.Check(x)
		}
		st.Outcomes[x.Outcome()]++
		if opt.OnExec != nil {
			opt.OnExec(x, viol)
		}
		used := 0
		for i := 0; i < len(x.Trace); i++ {
			c := x.Trace[i]
			if i >= len(prefix) && i >= x.MarkIdx {
				if used+altCost(c) <= opt.Bound {
					for alt := 1; alt < c.N; alt++ {
						if top {
							// Level-1 subtrees are dealt to shards.
							seq++
							if seq%opt.Shards != opt.Shard {
								continue
							}
						}
						np := append(append([]int(nil), x.Choices()[:i]...), alt)
						if !rec(np, depth+1, false) {
							return false
						}
					}
				}
			}
			used += cost(c)
		}
		return true
	}
	if opt.Shard == 0 || opt.Shards == 1 {
		rec(nil, 0, true)
	} else {
		// Other shards need the root trace to find their subtrees but do not count it.
		x := RunOnce(t, sc, nil)
		used := 0
		for i := 0; i < len(x.Trace); i++ {
			c := x.Trace[i]
			if i >= x.MarkIdx && used+altCost(c) <= opt.Bound {
				for alt := 1; alt < c.N; alt++ {
					seq++
					if seq%opt.Shards != opt.Shard {
						continue
					}
					np := append(append([]int(nil), x.Choices()[:i]...), alt)
					if !rec(np, 1, false) {
						break
					}
				}
			}
			used += cost(c)
		}
	}
	if st.Capped == "" {
		st.Bound = opt.Bound
	}
	return st
}
