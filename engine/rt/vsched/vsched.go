//go:build verif

// Package vsched is the cooperative scheduler and stateless explorer behind
// the SCHED / SEQ / ENV-DFS harnesses (DESIGN.md §3). Instrumented code calls
// Point (directly or through Send/Recv/Select/...) before every
// synchronisation-relevant operation; a registered goroutine then parks on a
// private gate until the explorer, which runs in the root goroutine of a
// testing/synctest bubble, releases it. Blocking operations stay real.
//
// When no execution is active (Current() == nil) every entry point passes
// straight through, so instrumented code also runs under plain `go test`.
package vsched

import (
	"fmt"
	"reflect"
	"runtime"
	"strconv"
	"strings"
	"sync"
	"sync/atomic"
	"time"
)

// A G is a goroutine known to the explorer.
type G struct {
	ID      string // spawn path: "1", "1.2", ...
	path    []int
	gate    chan struct{}
	label   string
	parked  bool
	exited  bool
	exiting bool
	nchild  int
}

// A ChoicePoint is one decision in an execution.
type ChoicePoint struct {
	Kind   string   `json:"kind"` // sched | select | env
	N      int      `json:"n"`
	Chosen int      `json:"chosen"`
	Label  string   `json:"label"`
	Alts   []string `json:"alts,omitempty"`
}

// An Event is one observation (seam call, oracle-relevant fact).
type Event struct {
	T      time.Duration `json:"t"` // virtual time since execution start
	G      string        `json:"g,omitempty"`
	Kind   string        `json:"kind"`
	Detail string        `json:"detail,omitempty"`
}

// Exec is one execution of a scenario under a given choice prefix.
type Exec struct {
	mu      sync.Mutex
	gs      map[int64]*G
	all     []*G
	nroot   int
	prefix  []int
	Trace   []ChoicePoint
	Log     []Event
	lastRan *G
	wake    chan struct{}
	aborted atomic.Bool
	start   time.Time

	Steps        int
	Failure      string // machinery-level or scenario-level failure (panic, hang, divergence)
	FailKind     string
	Diverged     bool
	Unregistered int
	finished     atomic.Bool
	MaxSteps     int
	Horizon      time.Duration
	Leaked       []string
	MarkIdx      int // choices before this index are not branched on (see Mark)
	// DefaultTaken counts, per select label, how often an instrumented select
	// with a default clause found no communication ready after the mark.
	DefaultTaken map[string]int

	free      bool          // RunFree: no scheduler, threads are plain goroutines
	doneC     chan struct{} // RunFree: closed by Finish
	doneO     sync.Once
	freeStart []func()
}

// Mark declares that the interesting phase of the scenario starts now: the
// explorer only explores alternatives of choice points from here on (the
// canonical schedule is kept for the warm-up before it).
func Mark() {
	x := cur.Load()
	if x == nil {
		return
	}
	x.mu.Lock()
	if x.MarkIdx == 0 {
		x.MarkIdx = len(x.Trace)
	}
	x.mu.Unlock()
	Obs("mark", "")
}

var cur atomic.Pointer[Exec]

// epoch counts executions (synctest bubbles) started so far; shims whose state
// lives in channels use it to tell that a value outlived the bubble it was made in.
var epoch atomic.Uint64

// Epoch identifies the current execution's bubble (0 before the first one).
func Epoch() uint64 { return epoch.Load() }

// Current returns the active execution or nil.
func Current() *Exec { return cur.Load() }

func goid() int64 {
	var buf [48]byte
	n := runtime.Stack(buf[:], false)
	// "goroutine 123 [running]:"
	s := buf[10:n]
	var id int64
	for _, c := range s {
		if c < '0' || c > '9' {
			break
		}
		id = id*10 + int64(c-'0')
	}
	return id
}

func (x *Exec) self() *G {
	id := goid()
	x.mu.Lock()
	g := x.gs[id]
	x.mu.Unlock()
	return g
}

func (x *Exec) fail(kind, format string, a ...any) {
	x.mu.Lock()
	if x.Failure == "" {
		x.FailKind = kind
		x.Failure = fmt.Sprintf(format, a...)
	}
	x.mu.Unlock()
}

// Fatal reports what the Go runtime would treat as an unrecoverable fatal error
// (unlock of an unlocked mutex): under an execution it is recorded as the
// execution's failure - a recover() in the code under test, or in package fmt
// around a String method, must not hide it - and the goroutine panics; without an
// execution the real fatal error is raised.
func Fatal(msg string) {
	if x := cur.Load(); x != nil {
		x.fail("fatal", "fatal error: %s", msg)
		panic("fatal error: " + msg)
	}
	switch {
	case strings.Contains(msg, "RUnlock"):
		var m sync.RWMutex
		m.RUnlock()
	case strings.Contains(msg, "RWMutex"):
		var m sync.RWMutex
		m.Unlock()
	default:
		var m sync.Mutex
		m.Unlock()
	}
}

// Now returns the virtual time since the start of the execution.
func (x *Exec) Now() time.Duration { return time.Since(x.start) }

// Obs appends an observation to the execution's log (no-op without execution).
func Obs(kind, format string, a ...any) {
	x := cur.Load()
	if x == nil {
		return
	}
	d := format
	if len(a) > 0 {
		d = fmt.Sprintf(format, a...)
	}
	gid := ""
	if g := x.self(); g != nil {
		gid = g.ID
	}
	x.mu.Lock()
	x.Log = append(x.Log, Event{T: time.Since(x.start), G: gid, Kind: kind, Detail: d})
	x.mu.Unlock()
}

// Point is a scheduling point: the calling registered goroutine parks until
// the explorer releases it.
func Point(label string) {
	x := cur.Load()
	if x == nil {
		return
	}
	g := x.self()
	if g == nil {
		x.mu.Lock()
		x.Unregistered++
		x.mu.Unlock()
		return
	}
	if g.exiting {
		return
	}
	if x.aborted.Load() {
		g.exiting = true
		runtime.Goexit()
	}
	x.mu.Lock()
	g.label = label
	g.parked = true
	x.mu.Unlock()
	select {
	case x.wake <- struct{}{}:
	default:
	}
	<-g.gate
	if x.aborted.Load() {
		g.exiting = true
		runtime.Goexit()
	}
}

// Yield is Point for harness code.
func Yield(label string) { Point(label) }

func (x *Exec) register(parent *G, label string) *G {
	x.mu.Lock()
	defer x.mu.Unlock()
	g := &G{gate: make(chan struct{})}
	if parent == nil {
		x.nroot++
		g.path = []int{x.nroot}
	} else {
		parent.nchild++
		g.path = append(append([]int(nil), parent.path...), parent.nchild)
	}
	ss := make([]string, len(g.path))
	for i, p := range g.path {
		ss[i] = strconv.Itoa(p)
	}
	g.ID = strings.Join(ss, ".")
	g.label = label
	x.all = append(x.all, g)
	return g
}

func (x *Exec) start1(g *G, label string, f func()) {
	go func() {
		id := goid()
		x.mu.Lock()
		x.gs[id] = g
		x.mu.Unlock()
		defer func() {
			if r := recover(); r != nil {
				buf := make([]byte, 4096)
				buf = buf[:runtime.Stack(buf, false)]
				x.fail("panic", "goroutine %s (spawned at %s) panicked: %v\n%s", g.ID, label, r, buf)
			}
			x.mu.Lock()
			g.exited = true
			g.parked = false
			delete(x.gs, id)
			x.mu.Unlock()
			select {
			case x.wake <- struct{}{}:
			default:
			}
		}()
		Point("start:" + label)
		f()
	}()
}

// Go spawns f as a registered goroutine (child of the caller). The child
// parks at its first Point before running f.
func Go(label string, f func()) {
	x := cur.Load()
	if x == nil {
		go f()
		return
	}
	parent := x.self()
	g := x.register(parent, label)
	x.start1(g, label, f)
}

// Spawn starts a root goroutine of the scenario (called by the harness from
// the explorer goroutine before Run's loop starts).
func (x *Exec) Spawn(name string, f func()) {
	if x.free {
		// Started once Setup has returned: scenarios install their hooks after Spawn.
		x.freeStart = append(x.freeStart, f)
		return
	}
	g := x.register(nil, name)
	x.start1(g, name, f)
}

// Finish marks the scenario as complete: the execution ends at the next
// quiescent point.
func (x *Exec) Finish() {
	x.finished.Store(true)
	if x.free {
		x.doneO.Do(func() { close(x.doneC) })
	}
}

// Finished reports whether Finish was called.
func (x *Exec) Finished() bool { return x.finished.Load() }

// choose consumes one choice (from the prefix, else 0).
func (x *Exec) choose(kind, label string, n int, alts []string) int {
	x.mu.Lock()
	defer x.mu.Unlock()
	i := len(x.Trace)
	c := 0
	if i < len(x.prefix) {
		c = x.prefix[i]
		if c >= n {
			if x.Failure == "" {
				x.FailKind = "divergence"
				x.Failure = fmt.Sprintf("replay divergence at choice %d (%s %s): prefix says %d but only %d alternatives", i, kind, label, c, n)
			}
			x.Diverged = true
			c = 0
		}
	}
	x.Trace = append(x.Trace, ChoicePoint{Kind: kind, N: n, Chosen: c, Label: label, Alts: alts})
	return c
}

// Choose is an environment choice made by a fake: a scheduling point followed
// by a decision among n answers (0 = default).
func Choose(label string, n int) int {
	x := cur.Load()
	if x == nil || n <= 1 {
		return 0
	}
	Point("env:" + label)
	return x.choose("env", label, n, nil)
}

// ChooseNoPoint is Choose without the preceding scheduling point (for callers
// that have just passed one).
func ChooseNoPoint(label string, n int) int {
	x := cur.Load()
	if x == nil || n <= 1 {
		return 0
	}
	return x.choose("env", label, n, nil)
}

// --- channel operations -------------------------------------------------------

// Blocking operations: a scheduling point before the operation, and - if the
// operation actually had to block - another one right after it completes, so
// that a goroutine woken as a consequence of somebody else's step does nothing
// observable before the explorer has released it (only one goroutine runs at a
// time; executions are deterministic).

func Send[T any](label string, ch chan<- T, v T) {
	Point(label)
	defer func() {
		if r := recover(); r != nil {
			if x := cur.Load(); x != nil {
				x.fail("panic", "panic at %s: %v", label, r)
				return
			}
			panic(r)
		}
	}()
	select {
	case ch <- v:
		return
	default:
	}
	ch <- v
	Point(label + ":woke")
}

func Recv[T any](label string, ch <-chan T) T {
	Point(label)
	select {
	case v := <-ch:
		return v
	default:
	}
	v := <-ch
	Point(label + ":woke")
	return v
}

func Recv2[T any](label string, ch <-chan T) (T, bool) {
	Point(label)
	select {
	case v, ok := <-ch:
		return v, ok
	default:
	}
	v, ok := <-ch
	Point(label + ":woke")
	return v, ok
}

// Woke is called at the top of every communication clause of an instrumented
// select: a scheduling point iff the select had to block.
func Woke(s *Sel, label string) {
	if s.active && s.chosen == -1 {
		Point(label + ":woke")
	}
}

func Close[T any](label string, ch chan<- T) {
	Point(label)
	defer func() {
		if r := recover(); r != nil {
			if x := cur.Load(); x != nil {
				x.fail("panic", "panic at %s: %v", label, r)
				return
			}
			panic(r)
		}
	}()
	close(ch)
}

// Pre is a scheduling point before calling f (used for ctx.Err and cancel).
func Pre[F any](label string, f F) F {
	Point(label)
	return f
}

// A Case describes one communication clause of an instrumented select.
type Case struct {
	send bool
	ch   reflect.Value
	val  reflect.Value
}

func RecvCase(ch any) Case { return Case{ch: reflect.ValueOf(ch)} }
func SendCase(ch any, v any) Case {
	c := Case{send: true, ch: reflect.ValueOf(ch)}
	if c.ch.IsValid() && c.ch.Kind() == reflect.Chan {
		c.val = reflect.New(c.ch.Type().Elem()).Elem()
		if v != nil {
			c.val.Set(reflect.ValueOf(v))
		}
	}
	return c
}

// A Sel is the outcome of the explorer-controlled part of a select.
type Sel struct {
	active bool // an execution is active and made the decision
	chosen int  // index of the communication performed, or -1
	val    reflect.Value
	ok     bool
}

// Select performs the decision part of an instrumented select: after a
// scheduling point it tries the cases without blocking, starting at an
// explorer-chosen case; the first that succeeds has really been performed.
func Select(label string, hasDefault bool, cases ...Case) *Sel {
	x := cur.Load()
	if x == nil || x.self() == nil {
		return &Sel{}
	}
	Point(label)
	s := &Sel{active: true, chosen: -1}
	n := len(cases)
	startAt := 0
	if n > 1 {
		startAt = x.choose("select", label, n, nil)
	}
	for k := 0; k < n; k++ {
		i := (startAt + k) % n
		c := cases[i]
		if !c.ch.IsValid() || c.ch.Kind() != reflect.Chan || c.ch.IsNil() {
			continue
		}
		if c.send {
			var sent bool
			func() {
				defer func() {
					if r := recover(); r != nil {
						x.fail("panic", "panic at %s (select send): %v", label, r)
					}
				}()
				chosen, _, _ := reflect.Select([]reflect.SelectCase{{Dir: reflect.SelectSend, Chan: c.ch, Send: c.val}, {Dir: reflect.SelectDefault}})
				sent = chosen == 0
			}()
			if sent {
				s.chosen = i
				return s
			}
			continue
		}
		chosen, v, ok := reflect.Select([]reflect.SelectCase{{Dir: reflect.SelectRecv, Chan: c.ch}, {Dir: reflect.SelectDefault}})
		if chosen == 0 {
			s.chosen, s.val, s.ok = i, v, ok
			return s
		}
	}
	// Nothing ready: with a default clause the original select runs default
	// (all channels nil); without one it blocks on the real channels.
	if hasDefault {
		s.chosen = -2
		x.mu.Lock()
		if x.MarkIdx > 0 {
			if x.DefaultTaken == nil {
				x.DefaultTaken = map[string]int{}
			}
			x.DefaultTaken[label]++
		}
		x.mu.Unlock()
	}
	return s
}

// MR maps the channel of receive case i for the original select statement.
func MR[T any](s *Sel, i int, ch <-chan T) <-chan T {
	if !s.active || s.chosen == -1 {
		return ch
	}
	if s.chosen != i {
		return nil
	}
	out := make(chan T, 1)
	if s.ok {
		out <- s.val.Interface().(T)
	} else {
		close(out)
	}
	return out
}

// MS maps the channel of send case i for the original select statement.
func MS[T any](s *Sel, i int, ch chan<- T) chan<- T {
	if !s.active || s.chosen == -1 {
		return ch
	}
	if s.chosen != i {
		return nil
	}
	return make(chan T, 1) // the real send already happened
}

// AfterFunc replaces time.AfterFunc in instrumented files: f runs after d in a
// registered goroutine (a child of the caller), so that its seam calls are
// scheduling points like everybody else's. The returned timer is a real one: Stop
// keeps f from running (the waiting goroutine then stays blocked and is counted as
// leaked at the end of the execution), Reset re-arms it; f runs at most once.
func AfterFunc(label string, d time.Duration, f func()) *time.Timer {
	if cur.Load() == nil {
		return time.AfterFunc(d, f)
	}
	fire := make(chan struct{}, 1)
	t := time.AfterFunc(d, func() {
		select {
		case fire <- struct{}{}:
		default:
		}
	})
	Go(label, func() {
		<-fire
		if d > 0 {
			Point(label + ":fired")
		}
		f()
	})
	return t
}

// Sleep parks, then sleeps d of (virtual) time.
func Sleep(d time.Duration) {
	Point("sleep")
	if d > 0 {
		time.Sleep(d)
		Point("sleep:woke")
	}
}

// parkedList returns the parked goroutines in canonical order: the goroutine
// that ran last first (no preemption by default), then by position in the
// persistent priority queue x.all. A non-default scheduling choice k "delays"
// the first k candidates: they move to the back of the queue and stay there
// (delay bounding, Emmi/Qadeer/Rakamaric), so that "this goroutine is held up
// while everybody else runs to completion" costs one deviation, not one per step.
func (x *Exec) parkedList() []*G {
	x.mu.Lock()
	defer x.mu.Unlock()
	var ps []*G
	for _, g := range x.all {
		if g.parked && !g.exited {
			ps = append(ps, g)
		}
	}
	for i, g := range ps {
		if g == x.lastRan && i > 0 {
			copy(ps[1:i+1], ps[0:i])
			ps[0] = g
			break
		}
	}
	return ps
}

// delay moves gs to the back of the priority queue.
func (x *Exec) delay(gs []*G) {
	x.mu.Lock()
	defer x.mu.Unlock()
	for _, g := range gs {
		for i, h := range x.all {
			if h == g {
				x.all = append(append(x.all[:i:i], x.all[i+1:]...), g)
				break
			}
		}
	}
}

func (x *Exec) live() int {
	x.mu.Lock()
	defer x.mu.Unlock()
	n := 0
	for _, g := range x.all {
		if !g.exited {
			n++
		}
	}
	return n
}
