//go:build verif

// Package vsync replaces package sync in instrumented files: every operation
// is a scheduling point, and blocking is done on channels so that it is
// "durable" for testing/synctest (a goroutine blocked in a real sync.Mutex
// would keep synctest.Wait from ever returning).
package vsync

import (
	"sync"
	"sync/atomic"

	"github.com/mdlayher/corerad/verifrt/vsched"
)

type Locker = sync.Locker

// Mutex is an exclusive lock built on a 1-slot channel. The channel belongs to
// the synctest bubble it was made in; a Mutex that outlives an execution (a
// package-level lock) gets a fresh, unlocked channel in the next one.
type Mutex struct {
	ch atomic.Pointer[mch]
}

type mch struct {
	c     chan struct{}
	epoch uint64
}

func (m *Mutex) c() chan struct{} {
	e := vsched.Epoch()
	for {
		p := m.ch.Load()
		if p != nil && p.epoch == e {
			return p.c
		}
		n := &mch{c: make(chan struct{}, 1), epoch: e}
		if m.ch.CompareAndSwap(p, n) {
			return n.c
		}
	}
}

func (m *Mutex) Lock() {
	vsched.Point("mutex.Lock")
	select {
	case m.c() <- struct{}{}:
		return
	default:
	}
	m.c() <- struct{}{}
	vsched.Point("mutex.Lock:woke")
}

func (m *Mutex) TryLock() bool {
	vsched.Point("mutex.TryLock")
	select {
	case m.c() <- struct{}{}:
		return true
	default:
		return false
	}
}

func (m *Mutex) Unlock() {
	vsched.Point("mutex.Unlock")
	select {
	case <-m.c():
	default:
		vsched.Fatal("sync: unlock of unlocked mutex")
	}
}

// RWMutex follows sync.RWMutex: any number of readers or one writer, and a
// blocked Lock excludes new readers (so a goroutine that read-locks twice
// deadlocks once a writer is waiting in between, as with the real one). State
// changes are broadcast by closing a channel made inside the current bubble, so
// that waiting is durable for synctest; every operation is a scheduling point.
type RWMutex struct {
	mu             sync.Mutex // never held across a blocking operation or a Point
	epoch          uint64
	readers        int
	writer         bool
	writersWaiting int
	cond           chan struct{}
}

// sync resets a lock that outlived the execution it was used in; mu must be held.
func (m *RWMutex) sync() {
	if e := vsched.Epoch(); m.cond == nil || m.epoch != e {
		m.epoch, m.readers, m.writer, m.writersWaiting = e, 0, false, 0
		m.cond = make(chan struct{})
	}
}

func (m *RWMutex) broadcast() {
	close(m.cond)
	m.cond = make(chan struct{})
}

func (m *RWMutex) RLock() {
	vsched.Point("rwmutex.RLock")
	for {
		m.mu.Lock()
		m.sync()
		if !m.writer && m.writersWaiting == 0 {
			m.readers++
			m.mu.Unlock()
			return
		}
		c := m.cond
		m.mu.Unlock()
		<-c
		vsched.Point("rwmutex.RLock:woke")
	}
}

func (m *RWMutex) RUnlock() {
	vsched.Point("rwmutex.RUnlock")
	m.mu.Lock()
	m.sync()
	if m.readers <= 0 {
		m.mu.Unlock()
		vsched.Fatal("sync: RUnlock of unlocked RWMutex")
		return
	}
	m.readers--
	m.broadcast()
	m.mu.Unlock()
}

func (m *RWMutex) Lock() {
	vsched.Point("rwmutex.Lock")
	m.mu.Lock()
	m.sync()
	m.writersWaiting++
	for {
		if !m.writer && m.readers == 0 {
			m.writersWaiting--
			m.writer = true
			m.mu.Unlock()
			return
		}
		c := m.cond
		m.mu.Unlock()
		<-c
		vsched.Point("rwmutex.Lock:woke")
		m.mu.Lock()
		if m.epoch != vsched.Epoch() {
			// The execution this wait belonged to is over (goroutine being torn down).
			m.mu.Unlock()
			return
		}
	}
}

func (m *RWMutex) Unlock() {
	vsched.Point("rwmutex.Unlock")
	m.mu.Lock()
	m.sync()
	if !m.writer {
		m.mu.Unlock()
		vsched.Fatal("sync: Unlock of unlocked RWMutex")
		return
	}
	m.writer = false
	m.broadcast()
	m.mu.Unlock()
}

func (m *RWMutex) RLocker() Locker { return rlocker{m} }

type rlocker struct{ m *RWMutex }

func (r rlocker) Lock()   { r.m.RLock() }
func (r rlocker) Unlock() { r.m.RUnlock() }

// Once: the first caller runs f while holding the lock; others wait for it.
type Once struct {
	m    Mutex
	done atomic.Bool
}

func (o *Once) Do(f func()) {
	if o.done.Load() {
		vsched.Point("once.Do(done)")
		return
	}
	o.m.Lock()
	defer o.m.Unlock()
	if !o.done.Load() {
		defer o.done.Store(true)
		f()
	}
}

// WaitGroup: the real one (its Wait is durably blocking inside a bubble), with
// scheduling points before each operation.
type WaitGroup struct{ wg sync.WaitGroup }

func (w *WaitGroup) Add(n int) { vsched.Point("wg.Add"); w.wg.Add(n) }
func (w *WaitGroup) Done()     { vsched.Point("wg.Done"); w.wg.Done() }
func (w *WaitGroup) Wait()     { vsched.Point("wg.Wait"); w.wg.Wait(); vsched.Point("wg.Wait:woke") }

// Go is sync.WaitGroup.Go (Go 1.25): the function runs in a goroutine the explorer knows.
func (w *WaitGroup) Go(f func()) {
	w.Add(1)
	vsched.Go("wg.Go", func() {
		defer w.Done()
		f()
	})
}

// The rest of package sync, so that a change of the code under test that starts using
// it still builds: Map and Pool are the real ones (their operations are atomic with
// the step of the goroutine that makes them); Cond waits on a channel (durable for
// synctest) with scheduling points; the Once helpers are built on Once.
type (
	Map  = sync.Map
	Pool = sync.Pool
)

type Cond struct {
	L       Locker
	mu      sync.Mutex
	waiters []chan struct{}
}

func NewCond(l Locker) *Cond { return &Cond{L: l} }

func (c *Cond) Wait() {
	vsched.Point("cond.Wait")
	ch := make(chan struct{})
	c.mu.Lock()
	c.waiters = append(c.waiters, ch)
	c.mu.Unlock()
	c.L.Unlock()
	<-ch
	vsched.Point("cond.Wait:woke")
	c.L.Lock()
}

func (c *Cond) Signal() {
	vsched.Point("cond.Signal")
	c.mu.Lock()
	if len(c.waiters) > 0 {
		close(c.waiters[0])
		c.waiters = c.waiters[1:]
	}
	c.mu.Unlock()
}

func (c *Cond) Broadcast() {
	vsched.Point("cond.Broadcast")
	c.mu.Lock()
	for _, ch := range c.waiters {
		close(ch)
	}
	c.waiters = nil
	c.mu.Unlock()
}

func OnceFunc(f func()) func() {
	var o Once
	return func() { o.Do(f) }
}

func OnceValue[T any](f func() T) func() T {
	var (
		o Once
		v T
	)
	return func() T {
		o.Do(func() { v = f() })
		return v
	}
}

func OnceValues[T1, T2 any](f func() (T1, T2)) func() (T1, T2) {
	var (
		o  Once
		v1 T1
		v2 T2
	)
	return func() (T1, T2) {
		o.Do(func() { v1, v2 = f() })
		return v1, v2
	}
}
