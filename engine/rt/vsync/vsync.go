//go:build verif

// Package vsync replaces package sync in instrumented files: every operation
// is a scheduling point, and blocking is done on channels so that it is
// "durable" for testing/synctest (a goroutine blocked in a real sync.Mutex
// would keep synctest.Wait from ever returning).
package vsync

import (
	"sync"
	"sync/atomic"

	"github.com/mdlayher/corerad/verifrt/vsched"
)

type Locker = sync.Locker

// Mutex is an exclusive lock built on a 1-slot channel. The channel belongs to
// the synctest bubble it was made in; a Mutex that outlives an execution (a
// package-level lock) gets a fresh, unlocked channel in the next one.
type Mutex struct {
	ch atomic.Pointer[mch]
}

type mch struct {
	c     chan struct{}
	epoch uint64
}

func (m *Mutex) c() chan struct{} {
	e := vsched.Epoch()
	for {
		p := m.ch.Load()
		if p != nil && p.epoch == e {
			return p.c
		}
		n := &mch{c: make(chan struct{}, 1), epoch: e}
		if m.ch.CompareAndSwap(p, n) {
			return n.c
		}
	}
}

func (m *Mutex) Lock() {
	vsched.Point("mutex.Lock")
	select {
	case m.c() <- struct{}{}:
		return
	default:
	}
	m.c() <- struct{}{}
	vsched.Point("mutex.Lock:woke")
}

func (m *Mutex) TryLock() bool {
	vsched.Point("mutex.TryLock")
	select {
	case m.c() <- struct{}{}:
		return true
	default:
		return false
	}
}

func (m *Mutex) Unlock() {
	vsched.Point("mutex.Unlock")
	select {
	case <-m.c():
	default:
		panic("vsync: unlock of unlocked mutex")
	}
}

// RWMutex is modelled as an exclusive lock (reader/reader overlap is not explored).
type RWMutex struct{ m Mutex }

func (m *RWMutex) Lock()    { m.m.Lock() }
func (m *RWMutex) Unlock()  { m.m.Unlock() }
func (m *RWMutex) RLock()   { m.m.Lock() }
func (m *RWMutex) RUnlock() { m.m.Unlock() }

// Once: the first caller runs f while holding the lock; others wait for it.
type Once struct {
	m    Mutex
	done atomic.Bool
}

func (o *Once) Do(f func()) {
	if o.done.Load() {
		vsched.Point("once.Do(done)")
		return
	}
	o.m.Lock()
	defer o.m.Unlock()
	if !o.done.Load() {
		defer o.done.Store(true)
		f()
	}
}

// WaitGroup: the real one (its Wait is durably blocking inside a bubble), with
// scheduling points before each operation.
type WaitGroup struct{ wg sync.WaitGroup }

func (w *WaitGroup) Add(n int) { vsched.Point("wg.Add"); w.wg.Add(n) }
func (w *WaitGroup) Done()     { vsched.Point("wg.Done"); w.wg.Done() }
func (w *WaitGroup) Wait()     { vsched.Point("wg.Wait"); w.wg.Wait(); vsched.Point("wg.Wait:woke") }
