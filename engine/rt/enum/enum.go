//go:build verif

// Package enum has the small bounded-exhaustive generators the harnesses share.
// All generators enumerate in a canonical, simplest-first order.
package enum

// Subsets calls f with every index subset of {0..n-1} of size <= k, by
// increasing size and then lexicographically. f returning false stops.
func Subsets(n, k int, f func(idx []int) bool) {
	for size := 0; size <= k && size <= n; size++ {
		idx := make([]int, size)
		if !subsetsRec(n, size, 0, 0, idx, f) {
			return
		}
	}
}

func subsetsRec(n, size, pos, from int, idx []int, f func([]int) bool) bool {
	if pos == size {
		return f(append([]int(nil), idx...))
	}
	for i := from; i < n; i++ {
		idx[pos] = i
		if !subsetsRec(n, size, pos+1, i+1, idx, f) {
			return false
		}
	}
	return true
}

// Permutations calls f with every permutation of xs (as index orders are of a
// multiset: equal elements by eq are not distinguished, so a multiset's
// distinct orderings are each produced once).
func Permutations[T any](xs []T, eq func(a, b T) bool, f func([]T) bool) {
	used := make([]bool, len(xs))
	cur := make([]T, 0, len(xs))
	permRec(xs, eq, used, cur, f)
}

func permRec[T any](xs []T, eq func(a, b T) bool, used []bool, cur []T, f func([]T) bool) bool {
	if len(cur) == len(xs) {
		return f(append([]T(nil), cur...))
	}
	for i := range xs {
		if used[i] {
			continue
		}
		// Skip an element equal to an earlier unused one at this level.
		dup := false
		for j := 0; j < i; j++ {
			if !used[j] && eq(xs[j], xs[i]) {
				dup = true
				break
			}
		}
		if dup {
			continue
		}
		used[i] = true
		ok := permRec(xs, eq, used, append(cur, xs[i]), f)
		used[i] = false
		if !ok {
			return false
		}
	}
	return true
}

// Product calls f with every tuple t where 0 <= t[i] < dims[i], last index
// fastest.
func Product(dims []int, f func(t []int) bool) {
	for _, d := range dims {
		if d == 0 {
			return
		}
	}
	t := make([]int, len(dims))
	for {
		if !f(append([]int(nil), t...)) {
			return
		}
		i := len(dims) - 1
		for i >= 0 {
			t[i]++
			if t[i] < dims[i] {
				break
			}
			t[i] = 0
			i--
		}
		if i < 0 {
			return
		}
	}
}

// Sequences calls f with every sequence over {0..n-1} of length 0..maxLen,
// shortest first.
func Sequences(n, maxLen int, f func(seq []int) bool) {
	for l := 0; l <= maxLen; l++ {
		dims := make([]int, l)
		for i := range dims {
			dims[i] = n
		}
		if l == 0 {
			if !f(nil) {
				return
			}
			continue
		}
		stop := false
		Product(dims, func(t []int) bool {
			if !f(t) {
				stop = true
				return false
			}
			return true
		})
		if stop {
			return
		}
	}
}
