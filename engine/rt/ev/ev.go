//go:build verif

// Package ev collects what a verification harness covered (evaluations,
// distinct non-trivial cases, samples, violations, model-checking counters)
// and writes it as JSON to the file named by VERIF_OUT, where the ./check
// driver merges shards and turns it into evidence/<id>.json.
package ev

import (
	"encoding/json"
	"fmt"
	"hash/fnv"
	"os"
	"sort"
	"strconv"
	"strings"
	"sync"
	"testing"
	"time"
)

// A Violation is one failing case, identified by a signature that names the
// failing input class / call site / history class.
type Violation struct {
	Signature string `json:"signature"`
	Message   string `json:"message"`
	Replay    any    `json:"replay"`
	Count     int64  `json:"count"`
}

// Run accumulates coverage for one harness part.
type Run struct {
	mu sync.Mutex

	Property string `json:"property"`
	Part     string `json:"part"`
	Tier     string `json:"tier"`
	Seed     int64  `json:"seed"`
	Shard    int    `json:"shard"`
	Shards   int    `json:"shards"`

	Evaluations int64            `json:"evaluations"`
	Distinct    int64            `json:"distinct_nontrivial"`
	Rule        string           `json:"rule"`
	Samples     []any            `json:"samples"`
	Counters    map[string]int64 `json:"counters"`
	Outcomes    map[string]int64 `json:"outcomes"`
	Notes       []string         `json:"notes"`
	Exhaustive  bool             `json:"exhaustive"`
	Violations  []*Violation     `json:"violations"`
	WallS       float64          `json:"wall_s"`
	Assumptions []string         `json:"assumptions"`

	// Replay, when non-nil, is the raw "replay" object of a violation file:
	// the harness must evaluate exactly that case.
	Replay json.RawMessage `json:"-"`

	distinct map[uint64]struct{}
	vbysig   map[string]*Violation
	start    time.Time
	nsample  int
	deadline time.Time
}

// Begin starts a run for a property part, reading the VERIF_* environment.
func Begin(property, part string) *Run {
	r := &Run{
		Property: property,
		Part:     part,
		Tier:     "quick",
		Shards:   1,
		Counters: map[string]int64{},
		Outcomes: map[string]int64{},
		distinct: map[uint64]struct{}{},
		vbysig:   map[string]*Violation{},
		start:    time.Now(),
		// Exhaustive until a cap says otherwise.
		Exhaustive: true,
	}
	if t := os.Getenv("VERIF_TIER"); t == "thorough" {
		r.Tier = t
	}
	if s := os.Getenv("VERIF_SEED"); s != "" {
		r.Seed, _ = strconv.ParseInt(s, 10, 64)
	}
	if s := os.Getenv("VERIF_SHARD"); s != "" {
		if a, b, ok := strings.Cut(s, "/"); ok {
			r.Shard, _ = strconv.Atoi(a)
			r.Shards, _ = strconv.Atoi(b)
			if r.Shards < 1 {
				r.Shards = 1
			}
		}
	}
	if s := os.Getenv("VERIF_BUDGET_S"); s != "" {
		if f, err := strconv.ParseFloat(s, 64); err == nil && f > 0 {
			r.deadline = r.start.Add(time.Duration(f * float64(time.Second)))
		}
	}
	if p := os.Getenv("VERIF_REPLAY"); p != "" {
		b, err := os.ReadFile(p)
		if err != nil {
			panic(fmt.Sprintf("ev: cannot read replay file: %v", err))
		}
		var f struct {
			Part   string          `json:"part"`
			Replay json.RawMessage `json:"replay"`
		}
		if err := json.Unmarshal(b, &f); err != nil {
			panic(fmt.Sprintf("ev: bad replay file: %v", err))
		}
		if f.Part == part {
			r.Replay = f.Replay
		} else {
			r.Replay = json.RawMessage("null")
		}
	}
	return r
}

// Thorough reports whether the thorough tier was requested.
func (r *Run) Thorough() bool { return r.Tier == "thorough" }

// Mine reports whether case index i belongs to this shard.
func (r *Run) Mine(i int) bool { return r.Shards <= 1 || i%r.Shards == r.Shard }

// MineKey shards by a hash of the case key, so that equal cases always land
// in the same shard and distinct counts add up exactly across shards.
func (r *Run) MineKey(key string) bool {
	if r.Shards <= 1 {
		return true
	}
	h := fnv.New32a()
	h.Write([]byte(key))
	return int(h.Sum32()%uint32(r.Shards)) == r.Shard
}

// OverBudget reports whether the internal wall-clock budget is used up; the
// caller must then stop enumerating and call Capped.
func (r *Run) OverBudget() bool {
	return !r.deadline.IsZero() && time.Now().After(r.deadline)
}

// Capped records that a cap was hit: the run is not exhaustive.
func (r *Run) Capped(why string) {
	r.mu.Lock()
	defer r.mu.Unlock()
	r.Exhaustive = false
	r.Notes = append(r.Notes, "capped: "+why)
}

// Case counts one evaluated case. key identifies the case up to the
// harness's stated equivalence; nontrivial says whether it exercises the
// mechanism by the harness's rule.
func (r *Run) Case(key string, nontrivial bool) {
	r.mu.Lock()
	defer r.mu.Unlock()
	r.Evaluations++
	if !nontrivial {
		return
	}
	h := fnv.New64a()
	h.Write([]byte(key))
	k := h.Sum64()
	if _, ok := r.distinct[k]; !ok {
		r.distinct[k] = struct{}{}
		r.Distinct++
	}
}

// Sample keeps a few of the actual cases: the first 3 and then one at every
// power of four, at most 12.
func (r *Run) Sample(v any) {
	r.mu.Lock()
	defer r.mu.Unlock()
	r.nsample++
	n := r.nsample
	keep := n <= 3
	if !keep && len(r.Samples) < 12 {
		for p := 4; p <= n; p *= 4 {
			if p == n {
				keep = true
			}
		}
	}
	if keep {
		r.Samples = append(r.Samples, v)
	}
}

// Count adds n to a named counter (states, transitions, ...).
func (r *Run) Count(name string, n int64) {
	r.mu.Lock()
	defer r.mu.Unlock()
	r.Counters[name] += n
}

// Max raises a named counter to at least n.
func (r *Run) Max(name string, n int64) {
	r.mu.Lock()
	defer r.mu.Unlock()
	if r.Counters[name] < n {
		r.Counters[name] = n
	}
}

// Outcome counts one observed outcome class (for distinct_outcomes).
func (r *Run) Outcome(o string) {
	r.mu.Lock()
	defer r.mu.Unlock()
	r.Outcomes[o]++
}

// Note adds a free-text note.
func (r *Run) Note(format string, a ...any) {
	r.mu.Lock()
	defer r.mu.Unlock()
	r.Notes = append(r.Notes, fmt.Sprintf(format, a...))
}

// Violation records a failing case under a signature. Only the first replay
// per signature (the simplest, since enumeration is simplest-first) is kept.
func (r *Run) Violation(sig, msg string, replay any) {
	r.mu.Lock()
	defer r.mu.Unlock()
	if v, ok := r.vbysig[sig]; ok {
		v.Count++
		return
	}
	v := &Violation{Signature: sig, Message: msg, Replay: replay, Count: 1}
	r.vbysig[sig] = v
	r.Violations = append(r.Violations, v)
}

// NViolations returns the number of distinct violation signatures so far.
func (r *Run) NViolations() int {
	r.mu.Lock()
	defer r.mu.Unlock()
	return len(r.Violations)
}

// End writes the result file. It never fails the test for violations: the
// driver decides (known findings), but it does fail when the result cannot
// be written.
func (r *Run) End(t testing.TB) {
	r.mu.Lock()
	defer r.mu.Unlock()
	r.WallS = time.Since(r.start).Seconds()
	sort.SliceStable(r.Violations, func(i, j int) bool { return r.Violations[i].Signature < r.Violations[j].Signature })
	out := os.Getenv("VERIF_OUT")
	b, err := json.MarshalIndent(r, "", " ")
	if err != nil {
		t.Fatalf("ev: marshal: %v", err)
	}
	if out == "" {
		t.Logf("ev result (VERIF_OUT unset):\n%s", b)
		if len(r.Violations) > 0 {
			t.Errorf("%d violation signature(s)", len(r.Violations))
		}
		return
	}
	if err := os.WriteFile(out, b, 0o644); err != nil {
		t.Fatalf("ev: write %s: %v", out, err)
	}
}

// JSON is a helper that renders v compactly for keys and messages.
func JSON(v any) string {
	b, err := json.Marshal(v)
	if err != nil {
		return fmt.Sprintf("%+v", v)
	}
	return string(b)
}
