//go:build verif

// Package vatomic replaces sync/atomic in instrumented files: a scheduling
// point before each operation. The whole API of sync/atomic is provided (the
// code under test uses a small part of it; a change that starts using another
// part must still build).
package vatomic

import (
	"sync/atomic"
	"unsafe"

	"github.com/mdlayher/corerad/verifrt/vsched"
)

func LoadInt32(p *int32) int32          { vsched.Point("atomic.Load"); return atomic.LoadInt32(p) }
func StoreInt32(p *int32, v int32)      { vsched.Point("atomic.Store"); atomic.StoreInt32(p, v) }
func SwapInt32(p *int32, v int32) int32 { vsched.Point("atomic.Swap"); return atomic.SwapInt32(p, v) }
func AddInt32(p *int32, d int32) int32  { vsched.Point("atomic.Add"); return atomic.AddInt32(p, d) }
func CompareAndSwapInt32(p *int32, o, n int32) bool {
	vsched.Point("atomic.CAS")
	return atomic.CompareAndSwapInt32(p, o, n)
}
func AndInt32(p *int32, m int32) int32 { vsched.Point("atomic.And"); return atomic.AndInt32(p, m) }
func OrInt32(p *int32, m int32) int32  { vsched.Point("atomic.Or"); return atomic.OrInt32(p, m) }

// Int32 is atomic.Int32 with scheduling points.
type Int32 struct{ v atomic.Int32 }

func (x *Int32) Load() int32        { vsched.Point("atomic.Load"); return x.v.Load() }
func (x *Int32) Store(v int32)      { vsched.Point("atomic.Store"); x.v.Store(v) }
func (x *Int32) Swap(v int32) int32 { vsched.Point("atomic.Swap"); return x.v.Swap(v) }
func (x *Int32) Add(d int32) int32  { vsched.Point("atomic.Add"); return x.v.Add(d) }
func (x *Int32) And(m int32) int32  { vsched.Point("atomic.And"); return x.v.And(m) }
func (x *Int32) Or(m int32) int32   { vsched.Point("atomic.Or"); return x.v.Or(m) }
func (x *Int32) CompareAndSwap(o, n int32) bool {
	vsched.Point("atomic.CAS")
	return x.v.CompareAndSwap(o, n)
}

func LoadInt64(p *int64) int64          { vsched.Point("atomic.Load"); return atomic.LoadInt64(p) }
func StoreInt64(p *int64, v int64)      { vsched.Point("atomic.Store"); atomic.StoreInt64(p, v) }
func SwapInt64(p *int64, v int64) int64 { vsched.Point("atomic.Swap"); return atomic.SwapInt64(p, v) }
func AddInt64(p *int64, d int64) int64  { vsched.Point("atomic.Add"); return atomic.AddInt64(p, d) }
func CompareAndSwapInt64(p *int64, o, n int64) bool {
	vsched.Point("atomic.CAS")
	return atomic.CompareAndSwapInt64(p, o, n)
}
func AndInt64(p *int64, m int64) int64 { vsched.Point("atomic.And"); return atomic.AndInt64(p, m) }
func OrInt64(p *int64, m int64) int64  { vsched.Point("atomic.Or"); return atomic.OrInt64(p, m) }

// Int64 is atomic.Int64 with scheduling points.
type Int64 struct{ v atomic.Int64 }

func (x *Int64) Load() int64        { vsched.Point("atomic.Load"); return x.v.Load() }
func (x *Int64) Store(v int64)      { vsched.Point("atomic.Store"); x.v.Store(v) }
func (x *Int64) Swap(v int64) int64 { vsched.Point("atomic.Swap"); return x.v.Swap(v) }
func (x *Int64) Add(d int64) int64  { vsched.Point("atomic.Add"); return x.v.Add(d) }
func (x *Int64) And(m int64) int64  { vsched.Point("atomic.And"); return x.v.And(m) }
func (x *Int64) Or(m int64) int64   { vsched.Point("atomic.Or"); return x.v.Or(m) }
func (x *Int64) CompareAndSwap(o, n int64) bool {
	vsched.Point("atomic.CAS")
	return x.v.CompareAndSwap(o, n)
}

func LoadUint32(p *uint32) uint32     { vsched.Point("atomic.Load"); return atomic.LoadUint32(p) }
func StoreUint32(p *uint32, v uint32) { vsched.Point("atomic.Store"); atomic.StoreUint32(p, v) }
func SwapUint32(p *uint32, v uint32) uint32 {
	vsched.Point("atomic.Swap")
	return atomic.SwapUint32(p, v)
}
func AddUint32(p *uint32, d uint32) uint32 { vsched.Point("atomic.Add"); return atomic.AddUint32(p, d) }
func CompareAndSwapUint32(p *uint32, o, n uint32) bool {
	vsched.Point("atomic.CAS")
	return atomic.CompareAndSwapUint32(p, o, n)
}
func AndUint32(p *uint32, m uint32) uint32 { vsched.Point("atomic.And"); return atomic.AndUint32(p, m) }
func OrUint32(p *uint32, m uint32) uint32  { vsched.Point("atomic.Or"); return atomic.OrUint32(p, m) }

// Uint32 is atomic.Uint32 with scheduling points.
type Uint32 struct{ v atomic.Uint32 }

func (x *Uint32) Load() uint32         { vsched.Point("atomic.Load"); return x.v.Load() }
func (x *Uint32) Store(v uint32)       { vsched.Point("atomic.Store"); x.v.Store(v) }
func (x *Uint32) Swap(v uint32) uint32 { vsched.Point("atomic.Swap"); return x.v.Swap(v) }
func (x *Uint32) Add(d uint32) uint32  { vsched.Point("atomic.Add"); return x.v.Add(d) }
func (x *Uint32) And(m uint32) uint32  { vsched.Point("atomic.And"); return x.v.And(m) }
func (x *Uint32) Or(m uint32) uint32   { vsched.Point("atomic.Or"); return x.v.Or(m) }
func (x *Uint32) CompareAndSwap(o, n uint32) bool {
	vsched.Point("atomic.CAS")
	return x.v.CompareAndSwap(o, n)
}

func LoadUint64(p *uint64) uint64     { vsched.Point("atomic.Load"); return atomic.LoadUint64(p) }
func StoreUint64(p *uint64, v uint64) { vsched.Point("atomic.Store"); atomic.StoreUint64(p, v) }
func SwapUint64(p *uint64, v uint64) uint64 {
	vsched.Point("atomic.Swap")
	return atomic.SwapUint64(p, v)
}
func AddUint64(p *uint64, d uint64) uint64 { vsched.Point("atomic.Add"); return atomic.AddUint64(p, d) }
func CompareAndSwapUint64(p *uint64, o, n uint64) bool {
	vsched.Point("atomic.CAS")
	return atomic.CompareAndSwapUint64(p, o, n)
}
func AndUint64(p *uint64, m uint64) uint64 { vsched.Point("atomic.And"); return atomic.AndUint64(p, m) }
func OrUint64(p *uint64, m uint64) uint64  { vsched.Point("atomic.Or"); return atomic.OrUint64(p, m) }

// Uint64 is atomic.Uint64 with scheduling points.
type Uint64 struct{ v atomic.Uint64 }

func (x *Uint64) Load() uint64         { vsched.Point("atomic.Load"); return x.v.Load() }
func (x *Uint64) Store(v uint64)       { vsched.Point("atomic.Store"); x.v.Store(v) }
func (x *Uint64) Swap(v uint64) uint64 { vsched.Point("atomic.Swap"); return x.v.Swap(v) }
func (x *Uint64) Add(d uint64) uint64  { vsched.Point("atomic.Add"); return x.v.Add(d) }
func (x *Uint64) And(m uint64) uint64  { vsched.Point("atomic.And"); return x.v.And(m) }
func (x *Uint64) Or(m uint64) uint64   { vsched.Point("atomic.Or"); return x.v.Or(m) }
func (x *Uint64) CompareAndSwap(o, n uint64) bool {
	vsched.Point("atomic.CAS")
	return x.v.CompareAndSwap(o, n)
}

func LoadUintptr(p *uintptr) uintptr     { vsched.Point("atomic.Load"); return atomic.LoadUintptr(p) }
func StoreUintptr(p *uintptr, v uintptr) { vsched.Point("atomic.Store"); atomic.StoreUintptr(p, v) }
func SwapUintptr(p *uintptr, v uintptr) uintptr {
	vsched.Point("atomic.Swap")
	return atomic.SwapUintptr(p, v)
}
func AddUintptr(p *uintptr, d uintptr) uintptr {
	vsched.Point("atomic.Add")
	return atomic.AddUintptr(p, d)
}
func CompareAndSwapUintptr(p *uintptr, o, n uintptr) bool {
	vsched.Point("atomic.CAS")
	return atomic.CompareAndSwapUintptr(p, o, n)
}
func AndUintptr(p *uintptr, m uintptr) uintptr {
	vsched.Point("atomic.And")
	return atomic.AndUintptr(p, m)
}
func OrUintptr(p *uintptr, m uintptr) uintptr {
	vsched.Point("atomic.Or")
	return atomic.OrUintptr(p, m)
}

// Uintptr is atomic.Uintptr with scheduling points.
type Uintptr struct{ v atomic.Uintptr }

func (x *Uintptr) Load() uintptr          { vsched.Point("atomic.Load"); return x.v.Load() }
func (x *Uintptr) Store(v uintptr)        { vsched.Point("atomic.Store"); x.v.Store(v) }
func (x *Uintptr) Swap(v uintptr) uintptr { vsched.Point("atomic.Swap"); return x.v.Swap(v) }
func (x *Uintptr) Add(d uintptr) uintptr  { vsched.Point("atomic.Add"); return x.v.Add(d) }
func (x *Uintptr) And(m uintptr) uintptr  { vsched.Point("atomic.And"); return x.v.And(m) }
func (x *Uintptr) Or(m uintptr) uintptr   { vsched.Point("atomic.Or"); return x.v.Or(m) }
func (x *Uintptr) CompareAndSwap(o, n uintptr) bool {
	vsched.Point("atomic.CAS")
	return x.v.CompareAndSwap(o, n)
}

func LoadPointer(p *unsafe.Pointer) unsafe.Pointer {
	vsched.Point("atomic.Load")
	return atomic.LoadPointer(p)
}
func StorePointer(p *unsafe.Pointer, v unsafe.Pointer) {
	vsched.Point("atomic.Store")
	atomic.StorePointer(p, v)
}
func SwapPointer(p *unsafe.Pointer, v unsafe.Pointer) unsafe.Pointer {
	vsched.Point("atomic.Swap")
	return atomic.SwapPointer(p, v)
}
func CompareAndSwapPointer(p *unsafe.Pointer, o, n unsafe.Pointer) bool {
	vsched.Point("atomic.CAS")
	return atomic.CompareAndSwapPointer(p, o, n)
}

// Bool is atomic.Bool with scheduling points.
type Bool struct{ v atomic.Bool }

func (x *Bool) Load() bool       { vsched.Point("atomic.Load"); return x.v.Load() }
func (x *Bool) Store(v bool)     { vsched.Point("atomic.Store"); x.v.Store(v) }
func (x *Bool) Swap(v bool) bool { vsched.Point("atomic.Swap"); return x.v.Swap(v) }
func (x *Bool) CompareAndSwap(o, n bool) bool {
	vsched.Point("atomic.CAS")
	return x.v.CompareAndSwap(o, n)
}

// Pointer is atomic.Pointer with scheduling points.
type Pointer[T any] struct{ v atomic.Pointer[T] }

func (x *Pointer[T]) Load() *T     { vsched.Point("atomic.Load"); return x.v.Load() }
func (x *Pointer[T]) Store(v *T)   { vsched.Point("atomic.Store"); x.v.Store(v) }
func (x *Pointer[T]) Swap(v *T) *T { vsched.Point("atomic.Swap"); return x.v.Swap(v) }
func (x *Pointer[T]) CompareAndSwap(o, n *T) bool {
	vsched.Point("atomic.CAS")
	return x.v.CompareAndSwap(o, n)
}

// Value is atomic.Value with scheduling points.
type Value struct{ v atomic.Value }

func (x *Value) Load() any      { vsched.Point("atomic.Load"); return x.v.Load() }
func (x *Value) Store(v any)    { vsched.Point("atomic.Store"); x.v.Store(v) }
func (x *Value) Swap(v any) any { vsched.Point("atomic.Swap"); return x.v.Swap(v) }
func (x *Value) CompareAndSwap(o, n any) bool {
	vsched.Point("atomic.CAS")
	return x.v.CompareAndSwap(o, n)
}
