//go:build verif

// Package vatomic replaces sync/atomic in instrumented files: a scheduling
// point before each operation.
package vatomic

import (
	"sync/atomic"

	"github.com/mdlayher/corerad/verifrt/vsched"
)

func LoadUint32(p *uint32) uint32     { vsched.Point("atomic.Load"); return atomic.LoadUint32(p) }
func StoreUint32(p *uint32, v uint32) { vsched.Point("atomic.Store"); atomic.StoreUint32(p, v) }
func SwapUint32(p *uint32, v uint32) uint32 {
	vsched.Point("atomic.Swap")
	return atomic.SwapUint32(p, v)
}
func AddUint32(p *uint32, d uint32) uint32 { vsched.Point("atomic.Add"); return atomic.AddUint32(p, d) }
func CompareAndSwapUint32(p *uint32, o, n uint32) bool {
	vsched.Point("atomic.CAS")
	return atomic.CompareAndSwapUint32(p, o, n)
}
