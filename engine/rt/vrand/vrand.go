//go:build verif

// Package vrand replaces math/rand in instrumented files. Under an active
// execution Int63n is an environment choice over {0, n/2, n-1} (the extremes
// and the middle of the range); otherwise it is the stock generator.
package vrand

import (
	"math/rand"

	"github.com/mdlayher/corerad/verifrt/vsched"
)

type Source = rand.Source

func NewSource(seed int64) Source { return rand.NewSource(seed) }

type Rand struct{ r *rand.Rand }

func New(src Source) *Rand { return &Rand{r: rand.New(src)} }

func (r *Rand) Int63n(n int64) int64 {
	if vsched.Current() == nil {
		return r.r.Int63n(n)
	}
	if n <= 0 {
		panic("invalid argument to Int63n")
	}
	switch vsched.Choose("rand.Int63n", 3) {
	case 1:
		return n / 2
	case 2:
		return n - 1
	}
	return 0
}

func (r *Rand) Int63() int64 { return r.r.Int63() }
