//go:build verif

// Package vrand replaces math/rand in instrumented files. Under an active
// execution Int63n is an environment choice over {0, n/2, n-1} (the extremes
// and the middle of the range); otherwise it is the stock generator.
package vrand

import (
	"math/rand"
	"sync"

	"github.com/mdlayher/corerad/verifrt/vsched"
)

type Source = rand.Source

// A draw policy, when set, answers every bounded draw of the execution itself
// (policy(i) in {0: minimum, 1: middle, 2: maximum} for the i-th draw) instead of making
// it an explorer choice: for scenarios with too many draws to enumerate.
var (
	policyMu sync.Mutex
	policy   func(i int) int
	ndraws   int
)

// SetPolicy installs (nil: removes) a draw policy and resets the draw counter.
func SetPolicy(f func(i int) int) {
	policyMu.Lock()
	policy, ndraws = f, 0
	policyMu.Unlock()
}

func pick(label string) int {
	policyMu.Lock()
	f, i := policy, ndraws
	if f != nil {
		ndraws++
	}
	policyMu.Unlock()
	if f != nil {
		return f(i) % 3
	}
	return vsched.Choose(label, 3)
}

func NewSource(seed int64) Source { return rand.NewSource(seed) }

type Rand struct{ r *rand.Rand }

func New(src Source) *Rand { return &Rand{r: rand.New(src)} }

func (r *Rand) Int63n(n int64) int64 {
	if vsched.Current() == nil {
		return r.r.Int63n(n)
	}
	if n <= 0 {
		panic("invalid argument to Int63n")
	}
	switch pick("rand.Int63n") {
	case 1:
		return n / 2
	case 2:
		return n - 1
	}
	return 0
}

func (r *Rand) Int63() int64 { return r.r.Int63() }

// The rest of math/rand's API (a change of the code under test that starts using it
// must still build). Bounded draws are environment choices over {0, middle, max} like
// Int63n; unbounded ones come from the stock generator.
func choose3(label string, n int64) int64 {
	if n <= 0 {
		panic("invalid argument to " + label)
	}
	switch pick(label) {
	case 1:
		return n / 2
	case 2:
		return n - 1
	}
	return 0
}

func (r *Rand) Intn(n int) int {
	if vsched.Current() == nil {
		return r.r.Intn(n)
	}
	return int(choose3("rand.Intn", int64(n)))
}

func (r *Rand) Int31n(n int32) int32 {
	if vsched.Current() == nil {
		return r.r.Int31n(n)
	}
	return int32(choose3("rand.Int31n", int64(n)))
}

func (r *Rand) Float64() float64 {
	if vsched.Current() == nil {
		return r.r.Float64()
	}
	return [3]float64{0, 0.5, 0.999999}[pick("rand.Float64")]
}

func (r *Rand) Int() int                           { return r.r.Int() }
func (r *Rand) Int31() int32                       { return r.r.Int31() }
func (r *Rand) Uint32() uint32                     { return r.r.Uint32() }
func (r *Rand) Uint64() uint64                     { return r.r.Uint64() }
func (r *Rand) Float32() float32                   { return r.r.Float32() }
func (r *Rand) NormFloat64() float64               { return r.r.NormFloat64() }
func (r *Rand) ExpFloat64() float64                { return r.r.ExpFloat64() }
func (r *Rand) Perm(n int) []int                   { return r.r.Perm(n) }
func (r *Rand) Shuffle(n int, swap func(i, j int)) { r.r.Shuffle(n, swap) }
func (r *Rand) Seed(seed int64)                    { r.r.Seed(seed) }
func (r *Rand) Read(p []byte) (int, error)         { return r.r.Read(p) }

// Package-level functions draw from one process-wide generator.
var global = New(NewSource(1))

func Int63n(n int64) int64               { return global.Int63n(n) }
func Intn(n int) int                     { return global.Intn(n) }
func Int31n(n int32) int32               { return global.Int31n(n) }
func Float64() float64                   { return global.Float64() }
func Int63() int64                       { return global.Int63() }
func Int() int                           { return global.Int() }
func Int31() int32                       { return global.Int31() }
func Uint32() uint32                     { return global.Uint32() }
func Uint64() uint64                     { return global.Uint64() }
func Float32() float32                   { return global.Float32() }
func Perm(n int) []int                   { return global.Perm(n) }
func Shuffle(n int, swap func(i, j int)) { global.Shuffle(n, swap) }
func Seed(seed int64)                    { global.Seed(seed) }
