//go:build verif

// Package sdnotify replaces github.com/mdlayher/sdnotify in instrumented files
// with a recording notifier (each Notify is a scheduling point and an
// observation).
package sdnotify

import (
	"fmt"
	"strings"

	"github.com/mdlayher/corerad/verifrt/vsched"
)

const (
	Ready     = "READY=1"
	Reloading = "RELOADING=1"
	Stopping  = "STOPPING=1"
)

func Statusf(format string, v ...interface{}) string { return fmt.Sprintf("STATUS="+format, v...) }

type Notifier struct{}

func (n *Notifier) Notify(s ...string) error {
	vsched.Point("sdnotify.Notify")
	vsched.Obs("notify", "%s", strings.Join(s, "\n"))
	return nil
}

func (n *Notifier) Close() error { return nil }
