//go:build verif

package ref

import (
	"errors"
	"net"
	"net/netip"
	"sort"
	"strings"
	"time"

	"github.com/mdlayher/corerad/internal/config"
	"github.com/mdlayher/corerad/internal/plugin"
	"github.com/mdlayher/corerad/internal/system"
	"github.com/mdlayher/ndp"
)

// State is the system state an RA is built against.
type State struct {
	Name       string        `json:"name"`
	Addrs      []system.IP   `json:"-"`
	AddrNames  []string      `json:"addrs"`
	Routes     []string      `json:"routes"`
	MAC        string        `json:"mac"` // "" = no hardware address
	Forwarding bool          `json:"forwarding"`
	Clock      time.Duration `json:"clock_after_epoch"`
	AddrFail   bool          `json:"addr_source_fails,omitempty"`
}

func (s State) HW() net.HardwareAddr {
	if s.MAC == "" {
		return nil
	}
	m, err := net.ParseMAC(s.MAC)
	if err != nil {
		panic(err)
	}
	return m
}

func (s State) SysRoutes() []system.Route {
	var out []system.Route
	for _, r := range s.Routes {
		// "prefix@pref": the kernel's own preference of the route (high, low, or the
		// reserved value 2 the legacy ioctl can leave behind); default medium.
		pref := ndp.Medium
		if i := strings.IndexByte(r, '@'); i >= 0 {
			pref = map[string]ndp.Preference{"high": ndp.High, "low": ndp.Low, "reserved": ndp.Preference(2), "medium": ndp.Medium}[r[i+1:]]
			r = r[:i]
		}
		out = append(out, system.Route{Prefix: netip.MustParsePrefix(r), Index: 1, Preference: pref})
	}
	return out
}

// Addresser is a fake system.Addresser (installed through the NewAddresser
// seam when plugins are prepared by the real Prepare methods).
type Addresser struct{ S *State }

func (a Addresser) AddressesByIndex(int) ([]system.IP, error) {
	if a.S.AddrFail {
		return nil, errors.New("verif: injected address listing failure")
	}
	return append([]system.IP(nil), a.S.Addrs...), nil
}
func (a Addresser) LoopbackRoutes() ([]system.Route, error) {
	if a.S.AddrFail {
		return nil, errors.New("verif: injected route dump failure")
	}
	return a.S.SysRoutes(), nil
}

// Inject sets the plugins' runtime fields directly (what Prepare would do),
// with the clock fixed at epoch+Clock.
func Inject(ifi *config.Interface, s *State, epoch time.Time) {
	now := func() time.Time { return epoch.Add(s.Clock) }
	ad := Addresser{S: s}
	for _, p := range ifi.Plugins {
		switch p := p.(type) {
		case *plugin.Prefix:
			p.TimeNow = now
			p.Addrs = func() ([]system.IP, error) { return ad.AddressesByIndex(1) }
		case *plugin.Route:
			p.TimeNow = now
			p.Routes = ad.LoopbackRoutes
		case *plugin.RDNSS:
			p.Addrs = func() ([]system.IP, error) { return ad.AddressesByIndex(1) }
		case *plugin.LLA:
			p.Addr = s.HW()
		}
	}
}

// Prepare binds the interface's plugins to the state the way the daemon does: through
// every plugin's real Prepare (address and route sources come from the NewAddresser
// seam, the hardware address from the interface value) - only the clock, which Prepare
// takes from time.Now, is then pointed at the state's clock.
func Prepare(ifi *config.Interface, s *State, epoch time.Time) error {
	system.VerifSetAddresser(Addresser{S: s})
	defer system.VerifSetAddresser(nil)
	nif := &net.Interface{Index: 1, Name: ifi.Name, HardwareAddr: s.HW()}
	now := func() time.Time { return epoch.Add(s.Clock) }
	for _, p := range ifi.Plugins {
		if err := p.Prepare(nif); err != nil {
			return err
		}
		switch p := p.(type) {
		case *plugin.Prefix:
			p.TimeNow = now
		case *plugin.Route:
			p.TimeNow = now
		}
	}
	return nil
}

func IP(addr string, flags string) system.IP {
	x := system.IP{Address: netip.MustParsePrefix(addr)}
	for _, c := range flags {
		switch c {
		case 'D':
			x.Deprecated = true
		case 'M':
			x.ManageTemporaryAddresses = true
		case 'S':
			x.StablePrivacy = true
		case 'T':
			x.Temporary = true
		case 'N':
			x.Tentative = true
		case 'F':
			x.ValidForever = true
		}
	}
	return x
}

// --- expected RA (reference model for C01/C04/C17) ---------------------------

func Remain(epoch time.Time, life time.Duration, now time.Time) time.Duration {
	d := epoch.Add(life).Sub(now)
	if d < 0 {
		return 0
	}
	return d
}

// WildPrefixes: C13's set comprehension.
func WildPrefixes(addrs []system.IP) []netip.Prefix {
	set := map[netip.Prefix]bool{}
	for _, a := range addrs {
		x := a.Address.Addr()
		if !x.Is6() || x.Is4In6() || x.IsLinkLocalUnicast() || a.Address.Bits() != 64 || a.Temporary || a.Tentative {
			continue
		}
		set[a.Address.Masked()] = true
	}
	var out []netip.Prefix
	for p := range set {
		out = append(out, p)
	}
	sort.Slice(out, func(i, j int) bool { return out[i].Addr().Less(out[j].Addr()) })
	return out
}

// WildRoutes: C15's set comprehension.
func WildRoutes(rs []system.Route) []netip.Prefix {
	set := map[netip.Prefix]bool{}
	for _, r := range rs {
		p := r.Prefix
		if !p.Addr().Is6() || p.Addr().Is4In6() || p.Bits() == 128 {
			continue
		}
		covered := false
		for _, q := range rs {
			if q.Prefix.Addr().Is6() && q.Prefix.Bits() < p.Bits() && q.Prefix.Contains(p.Addr()) {
				covered = true
			}
		}
		if !covered {
			set[p] = true
		}
	}
	var out []netip.Prefix
	for p := range set {
		out = append(out, p)
	}
	sort.Slice(out, func(i, j int) bool { return out[i].Addr().Less(out[j].Addr()) })
	return out
}

// BestRDNSS: C14's ranking as a sort key.
func BestRDNSS(addrs []system.IP) (netip.Addr, bool) {
	key := func(a system.IP) (int, int, netip.Addr) {
		x := a.Address.Addr()
		b := x.As16()
		s := 1
		if a.ValidForever || a.ManageTemporaryAddresses || a.StablePrivacy || (b[11] == 0xff && b[12] == 0xfe) {
			s = 0
		}
		c := 3
		switch {
		case b[0]&0xfe == 0xfc:
			c = 0
		case x.IsLinkLocalUnicast():
			c = 2
		case x.IsGlobalUnicast():
			c = 1
		}
		return s, c, x
	}
	var best system.IP
	found := false
	for _, a := range addrs {
		x := a.Address.Addr()
		if !x.Is6() || x.Is4In6() || a.Deprecated || a.Temporary || a.Tentative {
			continue
		}
		if !found {
			best, found = a, true
			continue
		}
		as, ac, aa := key(a)
		bs, bc, ba := key(best)
		if as < bs || (as == bs && (ac < bc || (ac == bc && aa.Less(ba)))) {
			best = a
		}
	}
	return best.Address.Addr(), found
}

// RA computes, from the EXPECTED configuration (reference model output) and
// a system state, the router advertisement the statement of C01 calls for.
// ok=false means RA generation must fail (source failure / no usable address).
func RA(ifi config.Interface, s *State, epoch time.Time) (*ndp.RouterAdvertisement, bool) {
	now := epoch.Add(s.Clock)
	ra := &ndp.RouterAdvertisement{
		CurrentHopLimit:           ifi.HopLimit,
		ManagedConfiguration:      ifi.Managed,
		OtherConfiguration:        ifi.OtherConfig,
		RouterSelectionPreference: ifi.Preference,
		RouterLifetime:            ifi.DefaultLifetime,
		ReachableTime:             ifi.ReachableTime,
		RetransmitTimer:           ifi.RetransmitTimer,
	}
	if !s.Forwarding {
		ra.RouterLifetime = 0
	}
	for _, p := range ifi.Plugins {
		switch p := p.(type) {
		case *plugin.Prefix:
			ps := []netip.Prefix{p.Prefix}
			if p.Auto {
				if s.AddrFail {
					return nil, false
				}
				ps = WildPrefixes(s.Addrs)
			}
			v, pr := p.ValidLifetime, p.PreferredLifetime
			if p.Deprecated {
				v, pr = Remain(epoch, v, now), Remain(epoch, pr, now)
			}
			for _, x := range ps {
				ra.Options = append(ra.Options, &ndp.PrefixInformation{
					PrefixLength: uint8(x.Bits()), OnLink: p.OnLink, AutonomousAddressConfiguration: p.Autonomous,
					ValidLifetime: v, PreferredLifetime: pr, Prefix: x.Addr(),
				})
			}
		case *plugin.Route:
			rs := []netip.Prefix{p.Prefix}
			if p.Auto {
				if s.AddrFail {
					return nil, false
				}
				rs = WildRoutes(s.SysRoutes())
			}
			lt := p.Lifetime
			if p.Deprecated {
				lt = Remain(epoch, lt, now)
			}
			for _, x := range rs {
				ra.Options = append(ra.Options, &ndp.RouteInformation{
					PrefixLength: uint8(x.Bits()), Preference: p.Preference, RouteLifetime: lt, Prefix: x.Addr(),
				})
			}
		case *plugin.RDNSS:
			servers := p.Servers
			if p.Auto {
				if s.AddrFail {
					return nil, false
				}
				best, ok := BestRDNSS(s.Addrs)
				if !ok {
					return nil, false
				}
				servers = append([]netip.Addr{best}, p.Servers...)
			}
			ra.Options = append(ra.Options, &ndp.RecursiveDNSServer{Lifetime: p.Lifetime, Servers: servers})
		case *plugin.DNSSL:
			ra.Options = append(ra.Options, &ndp.DNSSearchList{Lifetime: p.Lifetime, DomainNames: p.DomainNames})
		case *plugin.MTU:
			ra.Options = append(ra.Options, ndp.NewMTU(uint32(*p)))
		case *plugin.LLA:
			if m := s.HW(); m != nil {
				ra.Options = append(ra.Options, &ndp.LinkLayerAddress{Direction: ndp.Source, Addr: m})
			}
		case *plugin.CaptivePortal:
			ra.Options = append(ra.Options, &ndp.CaptivePortal{URI: p.Portal.URI})
		case *plugin.PREF64:
			ra.Options = append(ra.Options, &ndp.PREF64{Prefix: p.Inner.Prefix, Lifetime: p.Inner.Lifetime})
		}
	}
	return ra, true
}
