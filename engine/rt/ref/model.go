//go:build verif

package ref

// Shared by C01, C02, C03, C16: an abstract TOML document (Doc), its renderer,
// and a reference model written from the property statements and
// reference.toml — NOT from the parser — giving for every abstract document a
// verdict (accept / reject / don't-care) and, for accepted documents, the
// expected config.Config with every documented default filled in.

import (
	"fmt"
	"math/big"
	"net"
	"net/netip"
	"sort"
	"strconv"
	"strings"
	"time"

	"github.com/mdlayher/corerad/internal/config"
	"github.com/mdlayher/corerad/internal/plugin"
	"github.com/mdlayher/ndp"
)

type Table map[string]any

type Iface struct {
	Scalars Table   `json:"scalars"`
	Prefix  []Table `json:"prefix,omitempty"`
	Route   []Table `json:"route,omitempty"`
	RDNSS   []Table `json:"rdnss,omitempty"`
	DNSSL   []Table `json:"dnssl,omitempty"`
	PREF64  []Table `json:"pref64,omitempty"`
}

type Doc struct {
	Ifaces []Iface `json:"interfaces"`
	Debug  Table   `json:"debug,omitempty"`
	Top    Table   `json:"top,omitempty"`
}

func (t Table) Clone() Table {
	if t == nil {
		return nil
	}
	c := Table{}
	for k, v := range t {
		if ss, ok := v.([]string); ok {
			v = append([]string(nil), ss...)
		}
		c[k] = v
	}
	return c
}

func CloneTables(ts []Table) []Table {
	if ts == nil {
		return nil
	}
	out := make([]Table, len(ts))
	for i, t := range ts {
		out[i] = t.Clone()
	}
	return out
}

func (d Doc) Clone() Doc {
	c := Doc{Debug: d.Debug.Clone(), Top: d.Top.Clone()}
	for _, i := range d.Ifaces {
		c.Ifaces = append(c.Ifaces, Iface{
			Scalars: i.Scalars.Clone(),
			Prefix:  CloneTables(i.Prefix), Route: CloneTables(i.Route), RDNSS: CloneTables(i.RDNSS),
			DNSSL: CloneTables(i.DNSSL), PREF64: CloneTables(i.PREF64),
		})
	}
	return c
}

func TOMLValue(v any) string {
	switch x := v.(type) {
	case string:
		return strconv.Quote(x)
	case bool:
		return strconv.FormatBool(x)
	case int:
		return strconv.Itoa(x)
	case []string:
		qs := make([]string, len(x))
		for i, s := range x {
			qs[i] = strconv.Quote(s)
		}
		return "[" + strings.Join(qs, ", ") + "]"
	case Raw:
		return string(x)
	default:
		panic(fmt.Sprintf("TOMLValue: %T", v))
	}
}

// Raw is a raw TOML literal (used for type-mismatch deviations).
type Raw string

func renderTable(b *strings.Builder, indent string, t Table) {
	keys := make([]string, 0, len(t))
	for k := range t {
		keys = append(keys, k)
	}
	sort.Strings(keys)
	for _, k := range keys {
		fmt.Fprintf(b, "%s%s = %s\n", indent, k, TOMLValue(t[k]))
	}
}

// TOML renders the document.
func (d Doc) TOML() string {
	var b strings.Builder
	renderTable(&b, "", d.Top)
	for _, ifi := range d.Ifaces {
		b.WriteString("[[interfaces]]\n")
		renderTable(&b, "", ifi.Scalars)
		for _, g := range []struct {
			name string
			ts   []Table
		}{{"prefix", ifi.Prefix}, {"route", ifi.Route}, {"rdnss", ifi.RDNSS}, {"dnssl", ifi.DNSSL}, {"pref64", ifi.PREF64}} {
			for _, t := range g.ts {
				fmt.Fprintf(&b, "  [[interfaces.%s]]\n", g.name)
				renderTable(&b, "  ", t)
			}
		}
	}
	if d.Debug != nil {
		b.WriteString("[debug]\n")
		renderTable(&b, "", d.Debug)
	}
	return b.String()
}

type Verdict int

const (
	Accept Verdict = iota
	Reject
	DontCare
)

func (v Verdict) String() string { return [...]string{"accept", "reject", "dont-care"}[v] }

// refErr carries a verdict out of the reference model.
type refErr struct {
	v   Verdict
	why string
}

func rej(format string, a ...any) *refErr { return &refErr{Reject, fmt.Sprintf(format, a...)} }
func dc(format string, a ...any) *refErr  { return &refErr{DontCare, fmt.Sprintf(format, a...)} }
func (e *refErr) Error() string           { return e.v.String() + ": " + e.why }
func worse(a, b *refErr) *refErr {
	// A document with both a definite violation and a don't-care aspect is a
	// don't-care: either verdict of the parser is compatible with the statement
	// only if we are sure; be conservative (never alarm on ambiguity).
	if a == nil {
		return b
	}
	if b == nil {
		return a
	}
	if a.v == DontCare {
		return a
	}
	if b.v == DontCare {
		return b
	}
	return a
}

var knownIfaceKeys = map[string]string{
	"name": "string", "names": "strings", "monitor": "bool", "advertise": "bool", "verbose": "bool",
	"max_interval": "string", "min_interval": "string", "managed": "bool", "other_config": "bool",
	"reachable_time": "string", "retransmit_timer": "string", "hop_limit": "int", "default_lifetime": "string",
	"unicast_only": "bool", "preference": "string", "mtu": "int", "source_lla": "bool", "captive_portal": "string",
}

var knownKeys = map[string]map[string]string{
	"prefix": {"prefix": "string", "on_link": "bool", "autonomous": "bool", "valid_lifetime": "string", "preferred_lifetime": "string", "deprecated": "bool"},
	"route":  {"prefix": "string", "preference": "string", "lifetime": "string", "deprecated": "bool"},
	"rdnss":  {"lifetime": "string", "servers": "strings"},
	"dnssl":  {"lifetime": "string", "domain_names": "strings"},
	"pref64": {"prefix": "string"},
	"debug":  {"address": "string", "prometheus": "bool", "pprof": "bool"},
}

// checkKeys: unknown keys are rejected; a value of the wrong TOML type is a
// don't-care (the statement is about values, not TOML typing).
func checkKeys(t Table, known map[string]string, where string) *refErr {
	var e *refErr
	for k, v := range t {
		typ, ok := known[k]
		if !ok {
			e = worse(e, rej("unknown key %s.%s", where, k))
			continue
		}
		good := false
		switch v.(type) {
		case string:
			good = typ == "string"
		case bool:
			good = typ == "bool"
		case int:
			good = typ == "int"
		case []string:
			good = typ == "strings"
		}
		if !good {
			e = worse(e, dc("type mismatch for %s.%s", where, k))
		}
	}
	return e
}

func getS(t Table, k string) (string, bool) {
	v, ok := t[k].(string)
	return v, ok
}
func getB(t Table, k string, def bool) bool {
	if v, ok := t[k].(bool); ok {
		return v
	}
	return def
}

// refDuration: documented duration syntax. present=false => def; "auto" => def;
// "infinite" => ndp.Infinity; "" => 0; else Go duration.
func refDuration(t Table, k string, def time.Duration) (time.Duration, *refErr) {
	s, ok := getS(t, k)
	if !ok {
		return def, nil
	}
	switch s {
	case "auto":
		return def, nil
	case "infinite":
		return ndp.Infinity, nil
	case "":
		return 0, nil
	}
	d, err := time.ParseDuration(s)
	if err != nil {
		return 0, rej("bad duration %s=%q", k, s)
	}
	return d, nil
}

// floorSec returns floor(num/den * d) truncated to a whole second, in exact
// arithmetic.
func FloorSecFrac(d time.Duration, num, den int64) time.Duration {
	x := new(big.Int).Mul(big.NewInt(int64(d)), big.NewInt(num))
	x.Quo(x, big.NewInt(den)) // d >= 0 here
	ns := x.Int64()
	return time.Duration(ns - ns%int64(time.Second))
}

func refPreference(s string) (ndp.Preference, *refErr) {
	switch s {
	case "", "medium":
		return ndp.Medium, nil
	case "low":
		return ndp.Low, nil
	case "high":
		return ndp.High, nil
	}
	return 0, rej("bad preference %q", s)
}

// refCIDR: canonical IPv6 CIDR. ok=false,nil err => empty (wildcard).
func refCIDR(s string) (netip.Prefix, bool, *refErr) {
	if s == "" {
		return netip.Prefix{}, false, nil
	}
	p, err := netip.ParsePrefix(s)
	if err != nil {
		return netip.Prefix{}, false, rej("not a CIDR: %q", s)
	}
	if !p.Addr().Is6() || p.Addr().Is4In6() {
		return netip.Prefix{}, false, rej("not IPv6: %q", s)
	}
	if p.Masked() != p {
		return netip.Prefix{}, false, rej("not canonical: %q", s)
	}
	return p, true, nil
}

// lifetimeRange classifies a positive-or-infinite lifetime requirement.
func refPositiveLifetime(d time.Duration, what string) *refErr {
	switch {
	case d <= 0:
		return rej("%s must be positive (got %s)", what, d)
	case d > ndp.Infinity:
		// Statement: positive or infinite. A finite value beyond the 32-bit
		// field is decided by C03, not here.
		return dc("%s above 2^32-1 s", what)
	}
	return nil
}

// Parse is the reference model of config.Parse.
func Parse(d Doc, epoch time.Time) (Verdict, *config.Config, string) {
	cfg, e := refParseErr(d, epoch)
	if e != nil {
		return e.v, nil, e.why
	}
	return Accept, cfg, ""
}

func refParseErr(d Doc, epoch time.Time) (*config.Config, *refErr) {
	var e *refErr
	for k := range d.Top {
		e = worse(e, rej("unknown top-level key %s", k))
	}
	if len(d.Ifaces) == 0 {
		e = worse(e, rej("no interfaces"))
	}
	cfg := &config.Config{Interfaces: []config.Interface{}}
	if d.Debug != nil {
		e = worse(e, checkKeys(d.Debug, knownKeys["debug"], "debug"))
		if a, _ := getS(d.Debug, "address"); a != "" {
			if !refTCPAddrOK(a) {
				e = worse(e, rej("bad debug address %q", a))
			}
			cfg.Debug = config.Debug{Address: a, Prometheus: getB(d.Debug, "prometheus", false), PProf: getB(d.Debug, "pprof", false)}
		}
	}
	seen := map[string]bool{}
	for i, ifi := range d.Ifaces {
		ifs, ie := refIfaces(ifi, epoch)
		if ie != nil {
			e = worse(e, &refErr{ie.v, fmt.Sprintf("interface %d: %s", i, ie.why)})
			continue
		}
		for _, x := range ifs {
			if seen[x.Name] {
				e = worse(e, rej("interface name %q repeated", x.Name))
			}
			seen[x.Name] = true
		}
		cfg.Interfaces = append(cfg.Interfaces, ifs...)
	}
	if e != nil {
		return nil, e
	}
	return cfg, nil
}

func refTCPAddrOK(a string) bool {
	host, port, err := net.SplitHostPort(a)
	if err != nil {
		return false
	}
	p, err := strconv.Atoi(port)
	if err != nil || p < 0 || p > 65535 {
		return false
	}
	if host == "" || host == "localhost" {
		return true
	}
	_, err = netip.ParseAddr(host)
	return err == nil
}

func refIfaces(ifi Iface, epoch time.Time) ([]config.Interface, *refErr) {
	var e *refErr
	s := ifi.Scalars
	e = worse(e, checkKeys(s, knownIfaceKeys, "interfaces"))
	for kind, ts := range map[string][]Table{"prefix": ifi.Prefix, "route": ifi.Route, "rdnss": ifi.RDNSS, "dnssl": ifi.DNSSL, "pref64": ifi.PREF64} {
		for _, t := range ts {
			e = worse(e, checkKeys(t, knownKeys[kind], "interfaces."+kind))
		}
	}
	if e != nil && e.v == DontCare {
		return nil, e
	}

	name, _ := getS(s, "name")
	names, _ := s["names"].([]string)
	var all []string
	switch {
	case name != "" && len(names) > 0:
		return nil, worse(e, rej("name and names both set"))
	case name != "":
		all = []string{name}
	case len(names) > 0:
		all = names
		for _, n := range names {
			if n == "" {
				return nil, dc("empty string in names")
			}
		}
	default:
		return nil, worse(e, rej("neither name nor names"))
	}

	monitor, advertise := getB(s, "monitor", false), getB(s, "advertise", false)
	if monitor && advertise {
		return nil, worse(e, rej("monitor and advertise both set"))
	}

	_, ie := refIface(ifi, epoch)
	if monitor {
		// Monitor interfaces carry no advertising settings. Whether invalid
		// advertising keys on a monitor interface must be rejected is not
		// stated: don't-care when there are any problems, accept otherwise.
		if ie != nil || e != nil {
			if e != nil && e.v == Reject && ie == nil {
				return nil, e // e.g. unknown key: definitely rejected
			}
			return nil, dc("monitor interface with questionable advertising keys")
		}
		var out []config.Interface
		for _, n := range all {
			out = append(out, config.Interface{Name: n, Monitor: true, Verbose: getB(s, "verbose", false)})
		}
		return out, nil
	}
	e = worse(e, ie)
	if e != nil {
		return nil, e
	}
	var out []config.Interface
	for _, n := range all {
		// Every interface of a group gets its own plugin values.
		x, _ := refIface(ifi, epoch)
		x.Name = n
		out = append(out, *x)
	}
	return out, nil
}

func refIface(ifi Iface, epoch time.Time) (*config.Interface, *refErr) {
	var e *refErr
	s := ifi.Scalars
	out := &config.Interface{
		Advertise:   getB(s, "advertise", false),
		Verbose:     getB(s, "verbose", false),
		Managed:     getB(s, "managed", false),
		OtherConfig: getB(s, "other_config", false),
		UnicastOnly: getB(s, "unicast_only", false),
	}

	// max_interval: default 600s, 4s..1800s.
	max := 600 * time.Second
	if v, _ := getS(s, "max_interval"); v != "" {
		d, err := time.ParseDuration(v)
		if err != nil {
			return nil, rej("bad max_interval %q", v)
		}
		max = d
	}
	if max < 4*time.Second || max > 1800*time.Second {
		return nil, rej("max_interval %s out of [4s,1800s]", max)
	}
	out.MaxInterval = max

	// min_interval: default 0.33*max truncated to a second, or max when max<9s;
	// explicit: 3s <= min <= 0.75*max (truncated to a whole second).
	if v, _ := getS(s, "min_interval"); v == "" || v == "auto" {
		if max >= 9*time.Second {
			out.MinInterval = FloorSecFrac(max, 33, 100)
		} else {
			out.MinInterval = max
		}
	} else {
		d, err := time.ParseDuration(v)
		if err != nil {
			e = worse(e, rej("bad min_interval %q", v))
		} else if d < 3*time.Second || d > FloorSecFrac(max, 3, 4) {
			e = worse(e, rej("min_interval %s out of [3s, %s]", d, FloorSecFrac(max, 3, 4)))
		}
		out.MinInterval = d
	}

	for _, k := range []string{"reachable_time", "retransmit_timer"} {
		var d time.Duration
		if v, _ := getS(s, k); v != "" {
			var err error
			d, err = time.ParseDuration(v)
			if err != nil {
				e = worse(e, rej("bad %s %q", k, v))
			}
		}
		if d < 0 || d > time.Hour {
			e = worse(e, rej("%s %s out of [0,1h]", k, d))
		}
		if k == "reachable_time" {
			out.ReachableTime = d
		} else {
			out.RetransmitTimer = d
		}
	}

	hop := 64
	if v, ok := s["hop_limit"].(int); ok {
		hop = v
	}
	if hop < 0 || hop > 255 {
		e = worse(e, rej("hop_limit %d", hop))
	}
	out.HopLimit = uint8(hop)

	lt, le := refDuration(s, "default_lifetime", 3*max)
	e = worse(e, le)
	if le == nil && lt != 0 && (lt < max || lt > 9000*time.Second) {
		e = worse(e, rej("default_lifetime %s not 0 and not in [max_interval, 9000s]", lt))
	}
	out.DefaultLifetime = lt

	p, _ := getS(s, "preference")
	pref, pe := refPreference(p)
	e = worse(e, pe)
	out.Preference = pref

	plugins, ple := refPlugins(ifi, max, epoch)
	e = worse(e, ple)
	out.Plugins = plugins
	if e != nil {
		return nil, e
	}
	return out, nil
}

var nat64Lens = map[int]bool{96: true, 64: true, 56: true, 48: true, 40: true, 32: true}

func refPlugins(ifi Iface, max time.Duration, epoch time.Time) ([]plugin.Plugin, *refErr) {
	var e *refErr
	var out []plugin.Plugin
	s := ifi.Scalars

	// Prefixes.
	var pfx []netip.Prefix
	for _, t := range ifi.Prefix {
		str, _ := getS(t, "prefix")
		p, ok, ce := refCIDR(str)
		e = worse(e, ce)
		if ce != nil {
			continue
		}
		if !ok {
			p = netip.MustParsePrefix("::/64")
		}
		if p.Bits() == 128 {
			e = worse(e, rej("/128 prefix"))
		}
		if p.Addr().IsUnspecified() && p.Bits() != 64 {
			e = worse(e, rej("wildcard prefix other than ::/64: %s", p))
		}
		valid, ve := refDuration(t, "valid_lifetime", 24*time.Hour)
		pref, pe := refDuration(t, "preferred_lifetime", 4*time.Hour)
		e = worse(e, worse(ve, pe))
		dep := getB(t, "deprecated", false)
		if ve == nil && pe == nil {
			e = worse(e, refPositiveLifetime(valid, "valid_lifetime"))
			e = worse(e, refPositiveLifetime(pref, "preferred_lifetime"))
			if pref > valid {
				e = worse(e, rej("preferred %s > valid %s", pref, valid))
			}
			if dep && (valid == ndp.Infinity || pref == ndp.Infinity) {
				e = worse(e, rej("deprecated prefix with infinite lifetime"))
			}
		}
		pfx = append(pfx, p)
		out = append(out, &plugin.Prefix{
			Auto: p == netip.MustParsePrefix("::/64"), Prefix: p,
			OnLink: getB(t, "on_link", true), Autonomous: getB(t, "autonomous", true),
			ValidLifetime: valid, PreferredLifetime: pref, Deprecated: dep, Epoch: epoch,
		})
	}
	for i := range pfx {
		for j := range pfx {
			if i < j && pfx[i].Overlaps(pfx[j]) {
				e = worse(e, rej("prefixes overlap: %s %s", pfx[i], pfx[j]))
			}
		}
	}

	// Routes.
	var rts []netip.Prefix
	nWild := 0
	for _, t := range ifi.Route {
		str, _ := getS(t, "prefix")
		p, ok, ce := refCIDR(str)
		e = worse(e, ce)
		if ce != nil {
			continue
		}
		if !ok {
			p = netip.MustParsePrefix("::/0")
		}
		if p.Addr().IsUnspecified() && p.Bits() != 0 {
			e = worse(e, rej("wildcard route other than ::/0: %s", p))
		}
		ps, _ := getS(t, "preference")
		pr, pe := refPreference(ps)
		e = worse(e, pe)
		lt, le := refDuration(t, "lifetime", 24*time.Hour)
		e = worse(e, le)
		dep := getB(t, "deprecated", false)
		if le == nil {
			e = worse(e, refPositiveLifetime(lt, "route lifetime"))
			if dep && lt == ndp.Infinity {
				e = worse(e, rej("deprecated route with infinite lifetime"))
			}
		}
		if p.Bits() == 0 {
			nWild++
		} else {
			rts = append(rts, p)
		}
		out = append(out, &plugin.Route{
			Auto: p == netip.MustParsePrefix("::/0"), Prefix: p, Preference: pr, Lifetime: lt, Deprecated: dep, Epoch: epoch,
		})
	}
	if nWild > 1 {
		e = worse(e, dc("two ::/0 route stanzas"))
	}
	for i := range rts {
		for j := range rts {
			if i < j && rts[i].Overlaps(rts[j]) {
				e = worse(e, rej("routes overlap: %s %s", rts[i], rts[j]))
			}
		}
	}

	// RDNSS.
	for _, t := range ifi.RDNSS {
		lt, le := refDuration(t, "lifetime", 3*max)
		e = worse(e, le)
		if le == nil && lt < 0 {
			e = worse(e, rej("negative RDNSS lifetime"))
		}
		if le == nil && lt > ndp.Infinity {
			e = worse(e, dc("RDNSS lifetime above 2^32-1 s"))
		}
		servers, _ := t["servers"].([]string)
		r := &plugin.RDNSS{Lifetime: lt}
		if len(servers) == 0 {
			r.Auto = true
		}
		seen := map[netip.Addr]bool{}
		for _, sv := range servers {
			ip, err := netip.ParseAddr(sv)
			if err != nil || !ip.Is6() || ip.Is4In6() {
				e = worse(e, rej("RDNSS server %q not IPv6", sv))
				continue
			}
			if ip.Zone() != "" {
				e = worse(e, dc("zoned RDNSS server"))
			}
			if ip.IsUnspecified() {
				if r.Auto {
					e = worse(e, rej(":: twice"))
				}
				r.Auto = true
				continue
			}
			if seen[ip] {
				e = worse(e, rej("RDNSS server %s twice", ip))
			}
			seen[ip] = true
		}
		for ip := range seen {
			r.Servers = append(r.Servers, ip)
		}
		sort.Slice(r.Servers, func(i, j int) bool { return r.Servers[i].Less(r.Servers[j]) })
		out = append(out, r)
	}

	// DNSSL.
	for _, t := range ifi.DNSSL {
		lt, le := refDuration(t, "lifetime", 3*max)
		e = worse(e, le)
		if le == nil && lt < 0 {
			e = worse(e, rej("negative DNSSL lifetime"))
		}
		if le == nil && lt > ndp.Infinity {
			e = worse(e, dc("DNSSL lifetime above 2^32-1 s"))
		}
		names, _ := t["domain_names"].([]string)
		if len(names) == 0 {
			e = worse(e, rej("DNSSL without names"))
		}
		seen := map[string]bool{}
		for _, n := range names {
			if n == "" {
				e = worse(e, dc("empty DNSSL name"))
			}
			if seen[n] {
				e = worse(e, rej("DNSSL name %q twice", n))
			}
			seen[n] = true
		}
		out = append(out, &plugin.DNSSL{Lifetime: lt, DomainNames: names})
	}

	mtu, _ := s["mtu"].(int)
	if mtu < 0 || mtu > 65536 {
		e = worse(e, rej("mtu %d", mtu))
	}
	if mtu != 0 {
		out = append(out, plugin.NewMTU(mtu))
	}

	if getB(s, "source_lla", true) {
		out = append(out, &plugin.LLA{})
	}

	if cp, _ := getS(s, "captive_portal"); cp != "" {
		c, err := plugin.NewCaptivePortal(cp)
		if err != nil {
			e = worse(e, dc("captive portal URI the option constructor refuses"))
		} else {
			out = append(out, c)
		}
	}

	for _, t := range ifi.PREF64 {
		str, _ := getS(t, "prefix")
		if str == "" {
			str = "64:ff9b::/96"
		}
		p, err := netip.ParsePrefix(str)
		if err != nil {
			e = worse(e, rej("pref64 prefix %q", str))
			continue
		}
		if !p.Addr().Is6() || p.Addr().Is4In6() || !nat64Lens[p.Bits()] {
			e = worse(e, rej("pref64 prefix %q is not a NAT64-sized IPv6 prefix", str))
			continue
		}
		if p.Masked() != p {
			e = worse(e, dc("non-canonical pref64 prefix"))
		}
		// lifetime = 3 x MaxRtrAdvInterval rounded up to a multiple of 8s, capped at 65528s.
		secs := int64(max/time.Second) * 3
		if r := secs % 8; r != 0 {
			secs += 8 - r
		}
		if secs > 65528 {
			secs = 65528
		}
		out = append(out, &plugin.PREF64{Inner: &ndp.PREF64{Prefix: p, Lifetime: time.Duration(secs) * time.Second}})
	}

	if e != nil {
		return nil, e
	}
	if out == nil {
		out = []plugin.Plugin{}
	}
	return out, nil
}
