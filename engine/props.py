"""Per-property harness table for ./check (see DESIGN.md section 4)."""

def part(name, pkg, test, mode="plain", shards=None, budget=None, **kw):
    d = dict(name=name, pkg=pkg, test=test, mode=mode,
             shards=shards or {"quick": 1, "thorough": 1},
             budget_s=budget or {"quick": 240, "thorough": 1500})
    d.update(kw)
    return d

ENGINES = [
    dict(name="enum", path="/verif/harness/*/verif_*_test.go + engine/rt/enum", serves_properties=["C01", "C02", "C03", "C05", "C12", "C13", "C14", "C15", "C16"],
         kind_free_text="bounded-exhaustive enumeration of inputs to the real functions against a Go reference model"),
    dict(name="seq", path="/verif/engine/rt/vsched (virtual time via testing/synctest)", serves_properties=["C04", "C06", "C09", "C18"],
         kind_free_text="bounded-exhaustive enumeration of event histories fed to the real advertiser/monitor under a virtual clock"),
    dict(name="envdfs", path="/verif/engine/rt/vsched", serves_properties=["C10", "C11"],
         kind_free_text="depth-first enumeration of every environment answer (dial/task/sysctl outcome) the real code asks for"),
    dict(name="sched", path="/verif/engine/vstage + /verif/engine/rt/vsched", serves_properties=["C07", "C08", "C10", "C17", "C19", "C20"],
         kind_free_text="stateless delay-bounded exploration of goroutine interleavings of the AST-instrumented real code under a cooperative scheduler"),
]

NOT_APPLICABLE = {}

PROPS = {
    "C13": dict(
        level="exploration", engine="enum",
        technique="bounded-exhaustive enumeration (all subsets<=K x all permutations x duplicates of an address pool) of the real Prefix.Apply against a set-comprehension reference model",
        text="Every address list of up to K(+1 duplicate) entries drawn from a 13-address pool covering each eligibility rule, in every order, is fed to the real wildcard Prefix plugin and the produced options are compared field-by-field with a reference computed from the statement; complete inside the bound, silent beyond it.",
        note="Address source injected through Prefix.Addrs (rtnetlink flag decoding in addresser_linux.go is outside the check); lists longer than K+1 and addresses outside the pool's classes are not covered.",
        parts=[part("enum", "internal/plugin", "TestVerifC13")],
    ),
    "C15": dict(
        level="exploration", engine="enum",
        technique="bounded-exhaustive enumeration (all subsets<=K x all permutations x duplicates of a route pool) of the real Route.Apply against a set-comprehension reference model",
        text="Every loopback-route list of up to K(+1 duplicate) entries from a 12-route pool (nested prefixes sharing and not sharing a base address, /128, ::/0, IPv4), in every order, goes through the real wildcard Route plugin; the options are compared with a reference computed from the statement. Complete inside the bound.",
        note="Route source injected through Route.Routes (rtnetlink dump not covered); lists longer than K+1 not covered.",
        parts=[part("enum", "internal/plugin", "TestVerifC15")],
    ),
    "C14": dict(
        level="exploration", engine="enum",
        technique="bounded-exhaustive enumeration (all subsets<=K x all permutations of an address pool; all pairs and triples through betterRDNSS) against the documented ranking as a sort key",
        text="Every address list of up to K entries from a 16-address pool covering class x stability x exclusion-flag, in every order and with three static-server lists, goes through the real wildcard RDNSS plugin (and, in part 'parse', through config.Parse for the static servers); the first server must be the minimum under the documented ranking key. The pairwise relation is checked to be a total order on all pairs and triples of the pool.",
        note="Address source injected through RDNSS.Addrs; lists longer than K and addresses outside the pool's classes are not covered.",
        parts=[part("fold", "internal/plugin", "TestVerifC14")],
    ),
    "C16": dict(
        level="exploration", engine="enum",
        technique="bounded-exhaustive enumeration of (epoch, lifetimes, stanza kind) x all non-decreasing clock-reading sequences around each deadline, through the real parser and Apply, against max(0, epoch+lifetime-t)",
        text="For 2 epochs x 4 lifetime pairs x static/wildcard prefix/route x deprecated/not, every non-decreasing sequence of up to L clock readings drawn from 10 instants placed at, 1 ns before and 1 ns after each deadline (and before the epoch) is fed through the injected clock; each advertised lifetime must be the remaining time at a reading it took, never increase, never be negative, preferred<=valid; non-deprecated stanzas constant.",
        note="Clock injected through the plugins' TimeNow field; instants outside the 10-point grid and sequences longer than L are not covered.",
        parts=[part("enum", "internal/config", "TestVerifC16")],
    ),
    "C02": dict(
        level="exploration", engine="enum",
        technique="bounded-exhaustive enumeration of TOML documents (<=2 deviations from a valid base + full products inside interaction groups; all short byte strings and all 1-byte edits of real documents) through the real config.Parse against a reference validator",
        text="Every document within 2 deviations of a valid base document, over per-key boundary alphabets (limit-1, limit, limit+1, invalid) and structural choices, plus the full product inside each interaction group, is parsed by the real parser; the verdict and, on acceptance, the complete Config (every default) are compared with a reference model written from the statement. Totality: all byte strings up to length L over a TOML-structural alphabet and every 1-byte edit of reference.toml never panic.",
        note="Don't-care zones (statement silent): type mismatches, monitor interfaces with invalid advertising keys, names=[\"\"], domain_names=[\"\"], two ::/0 routes, non-canonical pref64, lifetimes above 2^32-1 s (C03 decides), captive-portal URIs the option constructor refuses, debug host names other than localhost/IP literals. 3-deviation interactions outside the listed groups are not covered.",
        parts=[part("docs", "internal/config", "TestVerifC02", shards={"quick": 4, "thorough": 8}),
               part("total", "internal/config", "TestVerifC02Total", shards={"quick": 4, "thorough": 16})],
    ),
    "C03": dict(
        level="exploration", engine="enum",
        technique="bounded-exhaustive enumeration of accepted configurations over a duration/CIDR boundary alphabet, each built and passed through the real wire codec (encode, decode, field-by-field comparison up to truncation)",
        text="Every duration-typed key is set to each of 21 boundary strings (one key at a time; all pairs of keys in the thorough tier) and the pref64 prefix to each of 19 CIDR strings, on static/wildcard and plain/deprecated base documents; whatever the real parser accepts is built, encoded and decoded, and every field must come back equal up to truncation to its unit, which also requires 0 <= d <= field maximum.",
        note="The ndp package's MarshalMessage/ParseMessage are taken as the wire format. System state fixed to one where generation succeeds. Values outside the boundary alphabet are not covered.",
        parts=[part("codec", "internal/config", "TestVerifC03", shards={"quick": 2, "thorough": 16})],
    ),
    "C01": dict(
        level="exploration", engine="enum",
        technique="bounded-exhaustive enumeration of configurations (stanza-kind product x header variants) x system states through the real Parse/Prepare/RouterAdvertisement against an independent expected-RA model; first transmitted RA of the real advertiser checked under virtual time",
        text="The full product of stanza-kind variants (quick: <=2 non-default dimensions) and header/max_interval/name-group variants, each against 6-8 system states, is parsed, prepared through the real Prepare methods and built three times; every header field and every option (kind, order, values) must equal a reference RA derived from the statement; rebuilds must be identical and the configuration unchanged. Part 'send' binds this to the sending path: the payload of the first WriteTo of the real Advertiser.Run equals the same expected RA.",
        note="Address/route source is a fake behind the NewAddresser seam (staged by overlay); clock injected. Stanza variants outside the listed ones and >2 stanzas of a kind are not covered.",
        parts=[part("build", "internal/config", "TestVerifC01", shards={"quick": 4, "thorough": 16}),
               part("send", "internal/corerad", "TestVerifC01Send", mode="sched", gomaxprocs=2, shards={"quick": 4, "thorough": 4})],
    ),
    "C12": dict(
        level="exploration", engine="enum",
        technique="bounded-exhaustive enumeration of (own RA, received RA) pairs over a small value domain per aspect, received side through the wire codec, against a reference list of inconsistencies; on verifyRAs and through Advertiser.handle",
        text="For each of 11 compared aspects the full product of absent/equal/different values (both directions) is enumerated with the other aspects equal (quick), and for all pairs of aspects the product of both (thorough). The received RA always passes through encode/decode so identity can never stand in for equality. The multiset of (field, details) reported by verifyRAs, the log lines, the inconsistencies_total increments and the hook are compared with a reference computed from the statement.",
        note="Whole-second lifetimes only (sub-second own lifetimes legitimately differ from their wire form). Hop-limit difference with one side 0 is a don't-care.",
        parts=[part("pairs", "internal/corerad", "TestVerifC12", shards={"quick": 2, "thorough": 16}),
               part("sequence", "internal/corerad", "TestVerifC12Seq")],
    ),
    "C05": dict(
        level="exploration", engine="enum",
        technique="exhaustive enumeration of all accepted whole-second (min,max) pairs x indices x extreme random draws through the real multicastDelay with a scripted random source; real multicast() loop run under a virtual clock",
        text="All ~1.2M whole-second interval pairs the configuration accepts (range ends confirmed through the real parser for every max; quick tier: stride 7), min=max pairs and accepted fractional pairs, x 6 advertisement indices x 7 draws including 0 and range-1, go through the real multicastDelay; the result must be a positive whole number of seconds within [min,max] and <=16 s for the first three. The real loop is run under virtual time for 26 pairs x 3 seeds: waits equal multicastDelay's results, requests recur, and stop on cancellation.",
        note="Random draws other than the 7 per pair are not covered (the function is monotone in the draw between them). 'Never spins' is checked only as 'consumes exactly one draw'. The loop part takes the PRNG seed from the virtual clock (3 seeds).",
        parts=[part("delay", "internal/corerad", "TestVerifC05", shards={"quick": 4, "thorough": 16}),
               part("loop", "internal/corerad", "TestVerifC05Loop")],
    ),
    "C19": dict(
        level="model_checking", engine="sched",
        technique="stateless delay-bounded exploration of all interleavings of Subscribe/notify/end-of-watch on the instrumented real Watcher; exhaustive mask x change enumeration; separate free-running -race pass",
        text="Part 'enum': all 127 masks x 7 changes x interface names, all change sequences <=3, 0..12 undrained events, close-on-end incl. a failing watch. Part 'sched': the real Watcher (AST-instrumented: every lock, channel and atomic operation is a scheduling point) with a watch thread issuing notifications, two subscribers and a canceller, every interleaving with at most 2 (quick) / 4 (thorough) deviations from the canonical schedule checked for panics, delivery, order, closure and non-blocking. Part 'race': the same bodies free-running under the race detector.",
        note="RWMutex modelled as exclusive (reader/reader overlap not explored). The rtnetlink receive loop (osWatch) is covered only through process()/operStateChange.",
        parts=[part("enum", "internal/netstate", "TestVerifC19"),
               part("sched", "internal/netstate", "TestVerifC19Sched", mode="sched", gomaxprocs=2, shards={"quick": 4, "thorough": 16}),
               part("race", "internal/netstate", "TestVerifC19Race", mode="sched", race=True)],
    ),
    "C06": dict(
        level="model_checking", engine="seq",
        technique="bounded-exhaustive enumeration of trigger arrival histories on a time grid around the 3 s boundary, each executed on the instrumented real Advertiser under a virtual clock; invariant checked on the WriteTo timestamps of every execution",
        text="All histories of up to K solicitations (from :: or unicast) with gaps from an 8-point grid around MIN_DELAY_BETWEEN_RAS are injected into the real advertiser, whose own periodic ticks interleave; in every execution all multicast transmissions must be >=3 s apart and every trigger must be served within 3 s. Complete for K<=3 (quick) / K<=4 (thorough) on the grid.",
        note="One (canonical) goroutine schedule per history; gaps outside the grid and histories longer than K are not covered; the final zero-lifetime RA is exempt as the statement says.",
        parts=[part("histories", "internal/corerad", "TestVerifC06", mode="sched", gomaxprocs=2, shards={"quick": 8, "thorough": 16})],
    ),
    "C09": dict(
        level="model_checking", engine="seq",
        technique="bounded-exhaustive enumeration of message sequences (valid/invalid, runs beyond the retry budget) executed on the instrumented real advertiser and monitor under a virtual clock; counters and liveness checked after every sequence",
        text="Every single message type x hop limit, and all sequences up to length L (5 quick, 7 thorough) over {valid RS, bad-hop RS, NS, bad-hop RA, transient receive timeout} followed by a valid RS, are read by the real listener of a running advertiser and of a running monitor. After each sequence the invalid counter, the handled/monitor counters and the unicast RAs must match the valid/invalid split exactly, Run must still be running and the interface must not have been re-dialled.",
        note="Canonical goroutine schedule per sequence; messages 10 ms apart; hop limits in the sequence alphabet are 64 and 1 (all 256 in the single-message sweep of the thorough tier).",
        parts=[part("sequences", "internal/corerad", "TestVerifC09", mode="sched", gomaxprocs=2, shards={"quick": 12, "thorough": 16})],
    ),
    "C18": dict(
        level="model_checking", engine="seq",
        technique="bounded-exhaustive enumeration of received-message sequences executed on the instrumented real Monitor under a virtual clock; all eight monitor series compared with a map-based reference model after every message",
        text="Every single message shape x sender (with/without zone, link-local, global, unspecified) x receipt gap, and all sequences up to length L over a 16-event sub-alphabet built to make labels collide, are delivered through the real listener to the real Monitor; after every message the complete set of corerad_monitor_* samples must equal a reference model (counter per sender without zone and type, gauges overwritten per labels, expiry = receipt second + lifetime, default-route gauge only for non-zero lifetime), and Run must not return.",
        note="Messages are delivered as Go values by the fake connection (not through the wire codec); canonical goroutine schedule; header values outside the alphabet not covered.",
        parts=[part("messages", "internal/corerad", "TestVerifC18", mode="sched", gomaxprocs=2, shards={"quick": 8, "thorough": 16})],
    ),
    "C04": dict(
        level="model_checking", engine="seq",
        technique="bounded-exhaustive enumeration of event histories (forwarding flips interleaved with RA generation on all seven paths) executed on the instrumented real Advertiser, Metrics and debug API under a virtual clock; invariants checked after every event",
        text="All histories of up to K events over {flip, periodic tick, unicast RS, RS from ::, received RA} followed by termination, for three default_lifetime settings, both initial forwarding states and two probing modes, run on the real advertiser; every transmitted RA must deep-equal the reference RA for the forwarding state at that moment, the log line count must equal the number of overridden generations, and the forwarding/misconfiguration gauges and the API lifetime must track the live state per interface.",
        note="Canonical goroutine schedule; flips happen at instants where no RA is being built (the concurrent case is C17's); the second advertising interface and the monitor interface exist for the scrape/API paths only.",
        parts=[part("histories", "internal/corerad", "TestVerifC04", mode="sched", gomaxprocs=2, shards={"quick": 12, "thorough": 16})],
    ),
    "C08": dict(
        level="model_checking", engine="sched",
        technique="stateless delay-bounded exploration of goroutine interleavings of the instrumented real Advertiser around constructed stop instants (idle, response pending, transmission in flight, solicitation arriving, periodic RA due), with transmit latency and random-delay draws as explorer choices",
        text="For each stop instant class and each signal kind, every schedule of the advertiser's goroutines (scheduler, schedgroup monitor and workers, listener, interrupt goroutine, multicast loop) within 1 (quick) / 2 (thorough) deviations from the canonical schedule is executed; on the ordered log of WriteTo/ReadFrom begins, cancellation and Run's return: Run returns nil within 1 s, exactly one zero-lifetime multicast RA iff terminating and nothing begins after it, nothing after return.",
        note="Deviation-bounded (not all interleavings); scheduling points are the instrumented synchronisation operations and seam calls; un-instrumented code between two points is atomic.",
        parts=[part("sched", "internal/corerad", "TestVerifC08", mode="sched", gomaxprocs=2, shards={"quick": 8, "thorough": 16})],
    ),
    "C07": dict(
        level="model_checking", engine="sched",
        technique="stateless exploration of all random-delay draws x delay-bounded goroutine interleavings of the instrumented real Advertiser for solicitation arrival patterns (bursts, repeats, ::, collisions with the periodic tick); conservation, timing, destination, payload and counters checked on every execution",
        text="For each arrival pattern and unicast_only setting, all combinations of delay draws {0, mid, max} and all schedules within 1 (quick) / 2 (thorough, budgeted) deviations are executed on the real advertiser; per source the unicast answers must equal the solicitations read, each within [0,500ms) and carrying the reference RA; :: is served by an all-nodes RA within 3 s; a unicast-only interface never writes to a multicast destination; sent/received/error counters equal the observed transmissions.",
        note="Arrival patterns are a fixed list of 7; draws restricted to {0, n/2, n-1}; deviation-bounded schedules.",
        parts=[part("sched", "internal/corerad", "TestVerifC07", mode="sched", gomaxprocs=2, shards={"quick": 12, "thorough": 16})],
    ),
    "C10": dict(
        level="fault_enumeration", engine="envdfs",
        technique="exhaustive depth-first enumeration of dial/task outcome sequences and cancellation points through the real Dialer.Dial and receiveRetry under a virtual clock (policy), plus delay-bounded schedule exploration of fault injection into the running instrumented advertiser/monitor (teardown)",
        text="Part 'teardown': one fault (read error, write error, five timeouts, link change) is injected into the running real advertiser / monitor, followed by every re-dial answer and optional cancellation, under every schedule within the deviation bound; the ordered seam log must show prompt, complete teardown, re-establishment or a reported error per the policy, and no I/O on the old connection. Part 'policy': every sequence of dial/task outcomes to the stated depth goes through the real Dialer and is compared with a 30-line reference state machine (attempt count, back-off values in virtual time, classification).",
        note="Fault alphabets are finite lists; the 17-request ipC saturation case is outside the bounds; classification of errors returned by retry dials is a don't-care (statement silent).",
        parts=[part("teardown", "internal/corerad", "TestVerifC10", mode="sched", gomaxprocs=2, shards={"quick": 12, "thorough": 16}),
               part("policy", "internal/system", "TestVerifC11", mode="sched", gomaxprocs=2, shards={"quick": 8, "thorough": 16}),
               part("retry", "internal/corerad", "TestVerifC10Retry", mode="sched", gomaxprocs=2, shards={"quick": 4, "thorough": 8})],
    ),
    "C11": dict(
        level="fault_enumeration", engine="envdfs",
        technique="depth-first enumeration of every environment answer sequence (dial, sysctl get/set/restore, task outcome, cancellation) with a bounded number of non-default answers through the real Dialer.Dial and the real dial(); invariants over the recorded call log",
        text="The real Dial loop, init back-off, dial(), setAutoconf and the cleanup closure run over fakes whose every answer is an explorer choice; all answer sequences with at most K non-default answers (K=2 quick, 3 thorough), for both modes, both initial sysctl values and 1-3 re-dial rounds, are executed; on each call log: every opened connection left the group and was closed exactly once before the next open and before return, the sysctl was written only while a connection was held and put back to the value read at that open, non-tolerated restore errors were reported, monitor mode never touched it.",
        note="Kernel, ndp.Listen and the sysctl files are fakes behind build-time seams (dial() itself is the real code). Sequences with more than K non-default answers are not covered.",
        parts=[part("envdfs", "internal/system", "TestVerifC11", mode="sched", gomaxprocs=2, shards={"quick": 8, "thorough": 16})],
    ),
    "C17": dict(
        level="model_checking", engine="sched",
        technique="bounded-exhaustive enumeration of configurations x lifecycle points x State failures through the real Metrics scrape and debug-API handler (no panic, content = reference RA); delay-bounded schedule exploration of scrapes/API requests racing advertiser (re)initialisation on the instrumented real code",
        text="Part 'enum': every stanza kind alone / all together / all minus one, never prepared or prepared through the real Prepare, with readable or failing State and all debug flag combinations: a scrape, Series() and GET /_/api/interfaces, /metrics, /debug/pprof/ must never panic; when prepared, every sample and the JSON must equal the reference RA and cover every option kind; routes are 200 iff enabled. Part 'sched': a scraper and an API client run 1-2 requests each while the real advertiser starts (interface not ready once), advertises and re-initialises after a link change, under every schedule within the deviation bound: no panic, no hang, each completed request is either an error or equals an RA content valid at some point during the request.",
        note="The Prometheus registry and net/http server plumbing are bypassed (collect function and handler called directly). Plain data races between Prepare and a concurrent scrape are outside the statement and not gated.",
        parts=[part("enum", "internal/corerad", "TestVerifC17", mode="sched"),
               part("sched", "internal/corerad", "TestVerifC17Sched", mode="sched", gomaxprocs=2, shards={"quick": 8, "thorough": 16})],
    ),
    "C20": dict(
        level="model_checking", engine="sched",
        technique="stateless delay-bounded exploration of goroutine interleavings of the instrumented real Server.Serve supervising fake tasks and a signal thread; exhaustive enumeration of BuildTasks configurations and serve() listener-answer sequences",
        text="Part 'enum': all 78 configurations of 1-3 interfaces x {advertise, monitor, neither} x debug on/off through the real BuildTasks (task kinds, order, names), and all listener answer sequences to depth 4 plus the 40-attempt line through the real serve() under virtual time. Part 'sched': the real Serve with 2-3 tasks of five behaviours and four signal kinds under every schedule within 2 (quick) / 3 (thorough) deviations: return only after all tasks exited, first error wins, terminate flag visible before any task observes the cancellation, readiness only after all tasks are ready.",
        note="Tasks are fakes (the real advertiser/monitor tasks are exercised by C07/C08/C10); the HTTP listener is replaced by scripted answers; os/signal delivery is a channel send.",
        parts=[part("enum", "internal/corerad", "TestVerifC20", mode="sched"),
               part("sched", "internal/corerad", "TestVerifC20Sched", mode="sched", gomaxprocs=2, shards={"quick": 8, "thorough": 16})],
    ),
}
