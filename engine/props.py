"""Per-property harness table for ./check (see DESIGN.md section 4)."""

def part(name, pkg, test, mode="plain", shards=None, budget=None, **kw):
    d = dict(name=name, pkg=pkg, test=test, mode=mode,
             shards=shards or {"quick": 1, "thorough": 1},
             budget_s=budget or {"quick": 240, "thorough": 1500})
    d.update(kw)
    return d

ENGINES = [
    dict(name="enum", path="/verif/harness/*/verif_*_test.go + engine/rt/enum", serves_properties=["C01", "C02", "C03", "C05", "C12", "C13", "C14", "C15", "C16"],
         kind_free_text="bounded-exhaustive enumeration of inputs to the real functions against a Go reference model"),
    dict(name="seq", path="/verif/engine/rt/vsched (virtual time via testing/synctest)", serves_properties=["C04", "C06", "C09", "C18"],
         kind_free_text="bounded-exhaustive enumeration of event histories fed to the real advertiser/monitor under a virtual clock"),
    dict(name="envdfs", path="/verif/engine/rt/vsched", serves_properties=["C10", "C11"],
         kind_free_text="depth-first enumeration of every environment answer (dial/task/sysctl outcome) the real code asks for"),
    dict(name="sched", path="/verif/engine/vstage + /verif/engine/rt/vsched", serves_properties=["C07", "C08", "C10", "C17", "C19", "C20"],
         kind_free_text="stateless delay-bounded exploration of goroutine interleavings of the AST-instrumented real code under a cooperative scheduler"),
]

NOT_APPLICABLE = {}

PROPS = {
    "C13": dict(
        level="exploration", engine="enum",
        technique="bounded-exhaustive enumeration (all subsets<=K x all permutations x duplicates of an address pool) of the real Prefix.Apply against a set-comprehension reference model",
        text="Every address list of up to K(+1 duplicate) entries drawn from a 13-address pool covering each eligibility rule, in every order, is fed to the real wildcard Prefix plugin and the produced options are compared field-by-field with a reference computed from the statement; complete inside the bound, silent beyond it.",
        note="Address source injected through Prefix.Addrs (rtnetlink flag decoding in addresser_linux.go is outside the check); lists longer than K+1 and addresses outside the pool's classes are not covered.",
        parts=[part("enum", "internal/plugin", "TestVerifC13")],
    ),
    "C15": dict(
        level="exploration", engine="enum",
        technique="bounded-exhaustive enumeration (all subsets<=K x all permutations x duplicates of a route pool) of the real Route.Apply against a set-comprehension reference model",
        text="Every loopback-route list of up to K(+1 duplicate) entries from a 12-route pool (nested prefixes sharing and not sharing a base address, /128, ::/0, IPv4), in every order, goes through the real wildcard Route plugin; the options are compared with a reference computed from the statement. Complete inside the bound.",
        note="Route source injected through Route.Routes (rtnetlink dump not covered); lists longer than K+1 not covered.",
        parts=[part("enum", "internal/plugin", "TestVerifC15")],
    ),
    "C14": dict(
        level="exploration", engine="enum",
        technique="bounded-exhaustive enumeration (all subsets<=K x all permutations of an address pool; all pairs and triples through betterRDNSS) against the documented ranking as a sort key",
        text="Every address list of up to K entries from a 16-address pool covering class x stability x exclusion-flag, in every order and with three static-server lists, goes through the real wildcard RDNSS plugin (and, in part 'parse', through config.Parse for the static servers); the first server must be the minimum under the documented ranking key. The pairwise relation is checked to be a total order on all pairs and triples of the pool.",
        note="Address source injected through RDNSS.Addrs; lists longer than K and addresses outside the pool's classes are not covered.",
        parts=[part("fold", "internal/plugin", "TestVerifC14")],
    ),
    "C16": dict(
        level="exploration", engine="enum",
        technique="bounded-exhaustive enumeration of (epoch, lifetimes, stanza kind) x all non-decreasing clock-reading sequences around each deadline, through the real parser and Apply, against max(0, epoch+lifetime-t)",
        text="For 2 epochs x 4 lifetime pairs x static/wildcard prefix/route x deprecated/not, every non-decreasing sequence of up to L clock readings drawn from 10 instants placed at, 1 ns before and 1 ns after each deadline (and before the epoch) is fed through the injected clock; each advertised lifetime must be the remaining time at a reading it took, never increase, never be negative, preferred<=valid; non-deprecated stanzas constant.",
        note="Clock injected through the plugins' TimeNow field; instants outside the 10-point grid and sequences longer than L are not covered.",
        parts=[part("enum", "internal/config", "TestVerifC16")],
    ),
}
