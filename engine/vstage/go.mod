module verif/vstage

go 1.26
