module verif/vstage

go 1.26.0

require golang.org/x/tools v0.50.0
