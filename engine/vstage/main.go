// vstage prepares the build-time staging of /repo's current working tree for
// the verification harnesses: it writes modified copies of a few repository
// files into -out and a JSON fragment (-frag) mapping the original paths to the
// copies, for use in a `go test -overlay` file. /repo itself is never touched.
//
// Mode "plain": seam hooks only (system.NewAddresser, (*Dialer).dial).
// Mode "sched": seam hooks + scheduler instrumentation (see instrument.go).
package main

import (
	"bytes"
	"encoding/json"
	"flag"
	"fmt"
	"go/ast"
	"go/format"
	"go/parser"
	"go/token"
	"golang.org/x/tools/go/ast/astutil"
	"os"
	"path/filepath"
)

var (
	repo = flag.String("repo", "/repo", "repository root")
	out  = flag.String("out", "", "output directory for staged files")
	mode = flag.String("mode", "plain", "plain | sched")
	frag = flag.String("frag", "", "overlay fragment to write")
)

func fatalf(format string, a ...any) {
	fmt.Fprintf(os.Stderr, "vstage: "+format+"\n", a...)
	os.Exit(1)
}

type staged struct {
	fset *token.FileSet
	file *ast.File
	path string // original path
	name string // staged file name
}

var mapping = map[string]string{}

func load(rel string) *staged {
	return loadAbs(filepath.Join(*repo, rel))
}

func loadAbs(p string) *staged {
	rel := p
	fset := token.NewFileSet()
	// Comments are dropped except build constraints (re-added on write):
	// rewritten nodes displace them otherwise.
	f, err := parser.ParseFile(fset, p, nil, parser.SkipObjectResolution|parser.ParseComments)
	if err != nil {
		fatalf("parse %s: %v", p, err)
	}
	return &staged{fset: fset, file: f, path: p, name: filepath.Base(filepath.Dir(rel)) + "__" + filepath.Base(rel)}
}

func (s *staged) write() {
	// Keep only //go:build lines that precede the package clause.
	var constraint string
	for _, cg := range s.file.Comments {
		if cg.Pos() >= s.file.Package {
			break
		}
		for _, c := range cg.List {
			if len(c.Text) > 10 && c.Text[:10] == "//go:build" {
				constraint = c.Text + "\n\n"
			}
		}
	}
	s.file.Comments = nil
	s.file.Doc = nil
	var buf bytes.Buffer
	buf.WriteString(constraint)
	if err := format.Node(&buf, s.fset, s.file); err != nil {
		fatalf("print %s: %v", s.path, err)
	}
	dst := filepath.Join(*out, s.name)
	if err := os.WriteFile(dst, buf.Bytes(), 0o644); err != nil {
		fatalf("write: %v", err)
	}
	mapping[s.path] = dst
}

func findFunc(f *ast.File, recv, name string) *ast.FuncDecl {
	for _, d := range f.Decls {
		fd, ok := d.(*ast.FuncDecl)
		if !ok || fd.Name.Name != name {
			continue
		}
		r := ""
		if fd.Recv != nil && len(fd.Recv.List) == 1 {
			switch t := fd.Recv.List[0].Type.(type) {
			case *ast.StarExpr:
				if id, ok := t.X.(*ast.Ident); ok {
					r = id.Name
				}
			case *ast.Ident:
				r = t.Name
			}
		}
		if r == recv {
			return fd
		}
	}
	return nil
}

func parseStmt(src string) ast.Stmt {
	f, err := parser.ParseFile(token.NewFileSet(), "", "package p\nfunc _() {\n"+src+"\n}", parser.SkipObjectResolution)
	if err != nil {
		fatalf("internal: parse stmt %q: %v", src, err)
	}
	st := f.Decls[0].(*ast.FuncDecl).Body.List[0]
	clearPos(st)
	return st
}

// clearPos zeroes positions so that format.Node lays out synthesized nodes
// without reference to the template's file set.
func clearPos(n ast.Node) {
	ast.Inspect(n, func(n ast.Node) bool {
		switch x := n.(type) {
		case *ast.Ident:
			x.NamePos = token.NoPos
		case *ast.BasicLit:
			x.ValuePos = token.NoPos
		case *ast.CallExpr:
			x.Lparen, x.Rparen, x.Ellipsis = token.NoPos, token.NoPos, token.NoPos
		case *ast.BlockStmt:
			x.Lbrace, x.Rbrace = token.NoPos, token.NoPos
		case *ast.IfStmt:
			x.If = token.NoPos
		case *ast.ReturnStmt:
			x.Return = token.NoPos
		case *ast.BinaryExpr:
			x.OpPos = token.NoPos
		case *ast.AssignStmt:
			x.TokPos = token.NoPos
		case *ast.FuncLit:
			x.Type.Func = token.NoPos
		case *ast.UnaryExpr:
			x.OpPos = token.NoPos
		case *ast.CompositeLit:
			x.Lbrace, x.Rbrace = token.NoPos, token.NoPos
		case *ast.ParenExpr:
			x.Lparen, x.Rparen = token.NoPos, token.NoPos
		case *ast.ExprStmt, *ast.SelectorExpr:
		}
		return true
	})
}

// seamAddresser: system.NewAddresser consults verifAddresser first, so that
// Plugin.Prepare (called by the real Advertiser.Run) binds plugins to a fake
// address / route source instead of rtnetlink.
func seamAddresser() *staged {
	s := load("internal/system/addresser_linux.go")
	fd := findFunc(s.file, "", "NewAddresser")
	if fd == nil || fd.Body == nil {
		fatalf("anchor not found: func NewAddresser in internal/system/addresser_linux.go")
	}
	fd.Body.List = append([]ast.Stmt{parseStmt("if a := verifAddresser(); a != nil { return a }")}, fd.Body.List...)
	return s
}

// seamDial: inside (*Dialer).dial the calls lookupInterface / checkInterface /
// dialNDP go through package-level function variables (harness/system/
// verif_seams.go) that default to the originals; everything else in dial(),
// including the done closure and the setAutoconf error path, is unchanged.
func seamDial(s *staged) {
	fd := findFunc(s.file, "Dialer", "dial")
	if fd == nil || fd.Body == nil {
		fatalf("anchor not found: func (*Dialer).dial in internal/system/dialer.go")
	}
	want := map[string]string{
		"lookupInterface": "verifLookupInterface",
		"checkInterface":  "verifCheckInterface",
		"dialNDP":         "verifDialNDP",
	}
	found := map[string]bool{}
	ast.Inspect(fd.Body, func(n ast.Node) bool {
		if c, ok := n.(*ast.CallExpr); ok {
			if id, ok := c.Fun.(*ast.Ident); ok {
				if to, ok := want[id.Name]; ok {
					found[id.Name] = true
					id.Name = to
				}
			}
		}
		return true
	})
	for k := range want {
		if !found[k] {
			fatalf("anchor not found: call of %s inside (*Dialer).dial", k)
		}
	}
	// dialNDP opens its socket through verifNDPListen and returns it as the interface
	// verifListenConn (what dialNDP and its callers need from *ndp.Conn), so that the
	// steps between "socket opened" and "connection handed to dial()" run over a scripted
	// socket (C11 `listen`). A dialNDP of another shape bypasses the seam (harness reports it).
	if fd := findFunc(s.file, "", "dialNDP"); fd != nil && fd.Body != nil && fd.Type.Results != nil && len(fd.Type.Results.List) == 3 {
		if f := rewriteCalls(fd.Body, "ndp", map[string]string{"Listen": "verifNDPListen"}); f["Listen"] {
			fd.Type.Results.List[0].Type = ast.NewIdent("verifListenConn")
		}
	}
}

// seamConn: inside lookupInterface the call net.InterfaceByName goes through
// verifInterfaceByName (default: the original), so that the real classification of
// lookup failures runs over scripted answers.
func seamConn() *staged {
	s := load("internal/system/conn.go")
	fd := findFunc(s.file, "", "lookupInterface")
	if fd == nil || fd.Body == nil {
		fatalf("anchor not found: func lookupInterface in internal/system/conn.go")
	}
	found := false
	astutil.Apply(fd.Body, func(c *astutil.Cursor) bool {
		if call, ok := c.Node().(*ast.CallExpr); ok {
			if sel, ok := call.Fun.(*ast.SelectorExpr); ok && sel.Sel.Name == "InterfaceByName" {
				if id, ok := sel.X.(*ast.Ident); ok && id.Name == "net" {
					call.Fun = ast.NewIdent("verifInterfaceByName")
					found = true
				}
			}
		}
		return true
	}, nil)
	if !found {
		fatalf("anchor not found: call of net.InterfaceByName inside lookupInterface")
	}
	return s
}

// rewriteCalls replaces calls of pkg.name by calls of to[name] inside root and reports
// which names were found.
func rewriteCalls(root ast.Node, pkg string, to map[string]string) map[string]bool {
	found := map[string]bool{}
	astutil.Apply(root, func(c *astutil.Cursor) bool {
		if call, ok := c.Node().(*ast.CallExpr); ok {
			if sel, ok := call.Fun.(*ast.SelectorExpr); ok {
				if id, ok := sel.X.(*ast.Ident); ok && id.Name == pkg {
					if t, ok := to[sel.Sel.Name]; ok {
						call.Fun = ast.NewIdent(t)
						found[sel.Sel.Name] = true
					}
				}
			}
		}
		return true
	}, nil)
	return found
}

// usesPkg reports whether the identifier pkg is still selected from in f.
func usesPkg(f *ast.File, pkg string) bool {
	used := false
	ast.Inspect(f, func(n ast.Node) bool {
		if sel, ok := n.(*ast.SelectorExpr); ok {
			if id, ok := sel.X.(*ast.Ident); ok && id.Name == pkg {
				used = true
			}
		}
		return true
	})
	return used
}

// seamSysctl: in internal/system/interface_linux.go every os.ReadFile / os.WriteFile goes
// through verifReadFile / verifWriteFile (default: the originals), so that the real
// sysctl getters and setters run over a scripted /proc/sys tree. A version of the file
// that reaches the file system another way simply bypasses the seam; the harness
// notices (no access recorded) and says so.
func seamSysctl() *staged {
	s := load("internal/system/interface_linux.go")
	rewriteCalls(s.file, "os", map[string]string{"ReadFile": "verifReadFile", "WriteFile": "verifWriteFile"})
	if !usesPkg(s.file, "os") {
		astutil.DeleteImport(s.fset, s.file, "os")
	}
	return s
}

// seamRtnl: inside rtnlExecute the call rtnetlink.Dial goes through verifRtnlDial
// (default: the original), so that the real request/close/error plumbing of the only
// function that talks to the netlink socket runs over scripted answers.
func seamRtnl(s *staged) {
	// LoopbackRoutes lists the interfaces through verifInterfaces (C15 `rtnl`).
	if fd := findFunc(s.file, "addresser", "LoopbackRoutes"); fd != nil && fd.Body != nil {
		rewriteCalls(fd.Body, "net", map[string]string{"Interfaces": "verifInterfaces"})
	}
	fd := findFunc(s.file, "", "rtnlExecute")
	if fd == nil || fd.Body == nil {
		return // the harness reports the bypassed seam
	}
	rewriteCalls(fd.Body, "rtnetlink", map[string]string{"Dial": "verifRtnlDial"})
}

// seamWatch: inside osWatch (internal/netstate/watcher_linux.go) rtnetlink.Dial goes
// through verifWatchDial (default: the original), so that the real receive loop, its
// cancellation and its error handling run over a scripted netlink connection (C19
// `oswatch`).
func seamWatch() *staged {
	s := load("internal/netstate/watcher_linux.go")
	if fd := findFunc(s.file, "", "osWatch"); fd != nil && fd.Body != nil {
		rewriteCalls(fd.Body, "rtnetlink", map[string]string{"Dial": "verifWatchDial"})
	}
	return s
}

func main() {
	flag.Parse()
	if *out == "" || *frag == "" {
		fatalf("-out and -frag are required")
	}
	if err := os.MkdirAll(*out, 0o755); err != nil {
		fatalf("%v", err)
	}

	addr := seamAddresser()
	seamRtnl(addr)
	seamSysctl().write()
	seamWatch().write()
	dialer := load("internal/system/dialer.go")
	seamDial(dialer)
	seamConn().write()

	switch *mode {
	case "plain":
		addr.write()
		dialer.write()
	case "sched":
		addr.write()
		instrumentAll(dialer)
	default:
		fatalf("unknown mode %q", *mode)
	}

	b, _ := json.MarshalIndent(mapping, "", " ")
	if err := os.WriteFile(*frag, b, 0o644); err != nil {
		fatalf("%v", err)
	}
}
