package main

// Scheduler instrumentation (DESIGN.md §3.1). Applied to a fixed list of
// repository files and to virtual copies of errgroup and schedgroup. Every
// rewrite is statement- or expression-local and keeps evaluation order; the
// label of a scheduling point is "file:line" of the original source.

import (
	"encoding/json"
	"fmt"
	"go/ast"
	"go/parser"
	"go/token"
	"os"
	"os/exec"
	"path/filepath"
	"strconv"
	"strings"

	"golang.org/x/tools/go/ast/astutil"
)

const rtBase = "github.com/mdlayher/corerad/verifrt/"

var importSwap = map[string][2]string{
	"sync":                              {"sync", rtBase + "vsync"},
	"sync/atomic":                       {"atomic", rtBase + "vatomic"},
	"math/rand":                         {"rand", rtBase + "vrand"},
	"golang.org/x/sync/errgroup":        {"errgroup", rtBase + "errgroup"},
	"github.com/mdlayher/schedgroup":    {"schedgroup", rtBase + "schedgroup"},
	"github.com/mdlayher/sdnotify":      {"sdnotify", rtBase + "sdnotify"},
}

var repoFiles = []string{
	"internal/corerad/advertise.go",
	"internal/corerad/listener.go",
	"internal/corerad/monitor.go",
	"internal/corerad/server.go",
	"internal/netstate/watcher.go",
	// The package-level lock between Prepare and Apply/String: taking it is a
	// scheduling point (and must block durably under the virtual clock).
	"internal/plugin/plugin.go",
}

type instr struct {
	s     *staged
	fn    string
	base  string
	skip  map[ast.Node]bool
	ntemp int
	stats map[string]int
}

func (in *instr) label(n ast.Node) *ast.BasicLit {
	p := in.s.fset.Position(n.Pos())
	return &ast.BasicLit{Kind: token.STRING, Value: strconv.Quote(fmt.Sprintf("%s:%s:%d", in.base, in.fn, p.Line))}
}

func sel(pkg, name string) ast.Expr {
	return &ast.SelectorExpr{X: ast.NewIdent(pkg), Sel: ast.NewIdent(name)}
}

func call(fun ast.Expr, args ...ast.Expr) *ast.CallExpr {
	return &ast.CallExpr{Fun: fun, Args: args}
}

func (in *instr) temp() *ast.Ident {
	in.ntemp++
	return ast.NewIdent(fmt.Sprintf("vs_t%d", in.ntemp))
}

func define(lhs *ast.Ident, rhs ast.Expr) ast.Stmt {
	return &ast.AssignStmt{Lhs: []ast.Expr{lhs}, Tok: token.DEFINE, Rhs: []ast.Expr{rhs}}
}

func unparen(e ast.Expr) ast.Expr {
	for {
		p, ok := e.(*ast.ParenExpr)
		if !ok {
			return e
		}
		e = p.X
	}
}

func isRecv(e ast.Expr) (*ast.UnaryExpr, bool) {
	u, ok := unparen(e).(*ast.UnaryExpr)
	if ok && u.Op == token.ARROW {
		return u, true
	}
	return nil, false
}

func isCtxName(e ast.Expr) bool {
	switch x := e.(type) {
	case *ast.Ident:
		return strings.Contains(strings.ToLower(x.Name), "ctx")
	case *ast.SelectorExpr:
		return strings.Contains(strings.ToLower(x.Sel.Name), "ctx")
	}
	return false
}

func isCancelName(e ast.Expr) bool {
	switch x := e.(type) {
	case *ast.Ident:
		return strings.Contains(strings.ToLower(x.Name), "cancel")
	case *ast.SelectorExpr:
		return strings.Contains(strings.ToLower(x.Sel.Name), "cancel")
	}
	return false
}

// rewriteSelect rewrites the select in place and replaces outer (the select itself, or
// the labeled statement it is the body of: a label is function-scoped, so it may move
// into the new block) by a block that first evaluates the operands and asks the explorer.
func (in *instr) rewriteSelect(c *astutil.Cursor, n *ast.SelectStmt, outer ast.Stmt) {
	var pre []ast.Stmt
	var cases []ast.Expr
	hasDefault := "false"
	sv := in.temp()
	idx := 0
	for _, st := range n.Body.List {
		cc := st.(*ast.CommClause)
		if cc.Comm == nil {
			hasDefault = "true"
			continue
		}
		i := &ast.BasicLit{Kind: token.INT, Value: strconv.Itoa(idx)}
		switch comm := cc.Comm.(type) {
		case *ast.SendStmt:
			tc, tv := in.temp(), in.temp()
			pre = append(pre, define(tc, comm.Chan), define(tv, comm.Value))
			cases = append(cases, call(sel("vsched", "SendCase"), tc, tv))
			comm.Chan = call(sel("vsched", "MS"), sv, i, tc)
			comm.Value = tv
			in.skip[comm] = true
		case *ast.ExprStmt:
			u, ok := isRecv(comm.X)
			if !ok {
				fatalf("%s: unsupported select case", in.s.fset.Position(comm.Pos()))
			}
			tc := in.temp()
			pre = append(pre, define(tc, u.X))
			cases = append(cases, call(sel("vsched", "RecvCase"), tc))
			u.X = call(sel("vsched", "MR"), sv, i, tc)
			in.skip[u] = true
		case *ast.AssignStmt:
			if len(comm.Rhs) != 1 {
				fatalf("%s: unsupported select case", in.s.fset.Position(comm.Pos()))
			}
			u, ok := isRecv(comm.Rhs[0])
			if !ok {
				fatalf("%s: unsupported select case", in.s.fset.Position(comm.Pos()))
			}
			tc := in.temp()
			pre = append(pre, define(tc, u.X))
			cases = append(cases, call(sel("vsched", "RecvCase"), tc))
			u.X = call(sel("vsched", "MR"), sv, i, tc)
			in.skip[u] = true
			in.skip[comm] = true
		default:
			fatalf("%s: unsupported select case %T", in.s.fset.Position(cc.Pos()), comm)
		}
		cc.Body = append([]ast.Stmt{&ast.ExprStmt{X: call(sel("vsched", "Woke"), sv, in.label(n))}}, cc.Body...)
		idx++
	}
	args := append([]ast.Expr{in.label(n), ast.NewIdent(hasDefault)}, cases...)
	pre = append(pre, define(sv, call(sel("vsched", "Select"), args...)))
	in.skip[n] = true
	in.skip[outer] = true
	blk := &ast.BlockStmt{List: append(pre, outer)}
	c.Replace(blk)
	in.stats["select"]++
}

// chanNames are the identifiers (variables, parameters, struct fields) declared with a
// channel type, and chanFuncs the functions whose first result is a channel, anywhere
// in the non-test files of the packages being instrumented. The instrumenter has no
// type information; a range statement over an expression that ends in one of these
// names is taken to be a range over a channel.
var chanNames, chanFuncs = map[string]bool{"C": true /* time.Timer.C, time.Ticker.C */}, map[string]bool{"After": true, "Tick": true}

func collectChans(dir string) {
	ents, err := os.ReadDir(dir)
	if err != nil {
		return
	}
	isChan := func(e ast.Expr) bool { _, ok := e.(*ast.ChanType); return ok }
	for _, e := range ents {
		if e.IsDir() || !strings.HasSuffix(e.Name(), ".go") || strings.HasSuffix(e.Name(), "_test.go") {
			continue
		}
		f, err := parser.ParseFile(token.NewFileSet(), filepath.Join(dir, e.Name()), nil, parser.SkipObjectResolution)
		if err != nil {
			continue
		}
		ast.Inspect(f, func(n ast.Node) bool {
			switch x := n.(type) {
			case *ast.Field:
				if isChan(x.Type) {
					for _, id := range x.Names {
						chanNames[id.Name] = true
					}
				}
			case *ast.ValueSpec:
				if x.Type != nil && isChan(x.Type) {
					for _, id := range x.Names {
						chanNames[id.Name] = true
					}
				}
				for i, v := range x.Values {
					if isMakeChan(v) && i < len(x.Names) {
						chanNames[x.Names[i].Name] = true
					}
				}
			case *ast.AssignStmt:
				for i, v := range x.Rhs {
					if isMakeChan(v) && i < len(x.Lhs) {
						if id, ok := x.Lhs[i].(*ast.Ident); ok {
							chanNames[id.Name] = true
						}
					}
				}
			case *ast.FuncDecl:
				if x.Type.Results != nil && len(x.Type.Results.List) > 0 && isChan(x.Type.Results.List[0].Type) {
					chanFuncs[x.Name.Name] = true
				}
			}
			return true
		})
	}
}

func isMakeChan(e ast.Expr) bool {
	c, ok := e.(*ast.CallExpr)
	if !ok || len(c.Args) == 0 {
		return false
	}
	id, ok := c.Fun.(*ast.Ident)
	if !ok || id.Name != "make" {
		return false
	}
	_, ok = c.Args[0].(*ast.ChanType)
	return ok
}

func (in *instr) isChanExpr(e ast.Expr) bool {
	switch x := unparen(e).(type) {
	case *ast.Ident:
		return chanNames[x.Name]
	case *ast.SelectorExpr:
		return chanNames[x.Sel.Name]
	case *ast.CallExpr:
		switch f := x.Fun.(type) {
		case *ast.Ident:
			return chanFuncs[f.Name]
		case *ast.SelectorExpr:
			return chanFuncs[f.Sel.Name] || (f.Sel.Name == "Done" && len(x.Args) == 0)
		}
	}
	return false
}

// rewriteRange turns `for k := range ch { body }` into
//
//	{ vs_c := ch; for { k, vs_ok := vsched.Recv2(label, vs_c); if !vs_ok { break }; body } }
//
// (outer is the range statement or the labeled statement around it).
func (in *instr) rewriteRange(c *astutil.Cursor, n *ast.RangeStmt, outer ast.Stmt) {
	tc, tv, tok := in.temp(), in.temp(), in.temp()
	recv := &ast.AssignStmt{Lhs: []ast.Expr{tv, tok}, Tok: token.DEFINE, Rhs: []ast.Expr{call(sel("vsched", "Recv2"), in.label(n), tc)}}
	list := []ast.Stmt{recv, &ast.IfStmt{Cond: &ast.UnaryExpr{Op: token.NOT, X: tok}, Body: &ast.BlockStmt{List: []ast.Stmt{&ast.BranchStmt{Tok: token.BREAK}}}}}
	if n.Key != nil {
		if id, ok := n.Key.(*ast.Ident); !ok || id.Name != "_" {
			list = append(list, &ast.AssignStmt{Lhs: []ast.Expr{n.Key}, Tok: n.Tok, Rhs: []ast.Expr{tv}})
		} else {
			list = append(list, &ast.AssignStmt{Lhs: []ast.Expr{ast.NewIdent("_")}, Tok: token.ASSIGN, Rhs: []ast.Expr{tv}})
		}
	} else {
		list = append(list, &ast.AssignStmt{Lhs: []ast.Expr{ast.NewIdent("_")}, Tok: token.ASSIGN, Rhs: []ast.Expr{tv}})
	}
	loop := &ast.ForStmt{Body: &ast.BlockStmt{List: append(list, n.Body.List...)}}
	var st ast.Stmt = loop
	if l, ok := outer.(*ast.LabeledStmt); ok {
		l.Stmt = loop
		st = l
	}
	in.skip[recv] = true
	in.skip[st] = true
	c.Replace(&ast.BlockStmt{List: []ast.Stmt{define(tc, n.X), st}})
	in.stats["range-chan"]++
}

func (in *instr) pre(c *astutil.Cursor) bool {
	n := c.Node()
	if n == nil || in.skip[n] {
		return true
	}
	switch x := n.(type) {
	case *ast.RangeStmt:
		// range over a channel is a receive per iteration.
		if in.isChanExpr(x.X) {
			in.rewriteRange(c, x, x)
			return true
		}
	case *ast.LabeledStmt:
		switch inner := x.Stmt.(type) {
		case *ast.SelectStmt:
			in.rewriteSelect(c, inner, x)
			return true
		case *ast.RangeStmt:
			if in.isChanExpr(inner.X) {
				in.rewriteRange(c, inner, x)
				return true
			}
		}
	case *ast.SelectStmt:
		in.rewriteSelect(c, x, x)
		return true
	case *ast.DeferStmt:
		// Calls evaluated at defer time must not become scheduling points then.
		in.skip[x.Call] = true
		if id, ok := x.Call.Fun.(*ast.Ident); ok && id.Name == "close" && len(x.Call.Args) == 1 {
			x.Call.Fun = sel("vsched", "Close")
			x.Call.Args = []ast.Expr{in.label(x), x.Call.Args[0]}
			in.stats["close"]++
		}
	case *ast.GoStmt:
		var pre []ast.Stmt
		for i, a := range x.Call.Args {
			switch a.(type) {
			case *ast.Ident, *ast.BasicLit:
			default:
				t := in.temp()
				pre = append(pre, define(t, a))
				x.Call.Args[i] = t
			}
		}
		body := &ast.FuncLit{Type: &ast.FuncType{Params: &ast.FieldList{}}, Body: &ast.BlockStmt{List: []ast.Stmt{&ast.ExprStmt{X: x.Call}}}}
		g := &ast.ExprStmt{X: call(sel("vsched", "Go"), in.label(x), body)}
		if len(pre) > 0 {
			c.Replace(&ast.BlockStmt{List: append(pre, g)})
		} else {
			c.Replace(g)
		}
		in.stats["go"]++
		return true
	case *ast.SendStmt:
		c.Replace(&ast.ExprStmt{X: call(sel("vsched", "Send"), in.label(x), x.Chan, x.Value)})
		in.stats["send"]++
		return true
	case *ast.AssignStmt:
		if len(x.Lhs) == 2 && len(x.Rhs) == 1 {
			if u, ok := isRecv(x.Rhs[0]); ok && !in.skip[u] {
				x.Rhs[0] = call(sel("vsched", "Recv2"), in.label(u), u.X)
				in.stats["recv"]++
				return true
			}
		}
	case *ast.UnaryExpr:
		if x.Op == token.ARROW {
			c.Replace(call(sel("vsched", "Recv"), in.label(x), x.X))
			in.stats["recv"]++
			return true
		}
	case *ast.CallExpr:
		switch f := x.Fun.(type) {
		case *ast.Ident:
			if f.Name == "close" && len(x.Args) == 1 {
				lb := in.label(x)
				x.Fun = sel("vsched", "Close")
				x.Args = []ast.Expr{lb, x.Args[0]}
				in.stats["close"]++
				return true
			}
			if isCancelName(f) && len(x.Args) == 0 {
				x.Fun = call(sel("vsched", "Pre"), in.label(x), f)
				in.stats["cancel"]++
				return true
			}
		case *ast.SelectorExpr:
			// time.AfterFunc(d, f): the callback must run in a goroutine the explorer knows.
			if id, ok := f.X.(*ast.Ident); ok && id.Name == "time" && f.Sel.Name == "Sleep" && len(x.Args) == 1 {
				// A sleeping goroutine must park again when it wakes (one runs at a time).
				x.Fun = sel("vsched", "Sleep")
				in.stats["sleep"]++
				return true
			}
			if id, ok := f.X.(*ast.Ident); ok && id.Name == "time" && f.Sel.Name == "AfterFunc" && len(x.Args) == 2 {
				lb := in.label(x)
				x.Fun = sel("vsched", "AfterFunc")
				x.Args = []ast.Expr{lb, x.Args[0], x.Args[1]}
				in.stats["afterfunc"]++
				return true
			}
			if len(x.Args) == 0 && f.Sel.Name == "Err" && isCtxName(f.X) {
				x.Fun = call(sel("vsched", "Pre"), in.label(x), f)
				in.stats["ctxerr"]++
				return true
			}
			if len(x.Args) == 0 && isCancelName(f) {
				x.Fun = call(sel("vsched", "Pre"), in.label(x), f)
				in.stats["cancel"]++
				return true
			}
		}
	}
	return true
}

func instrumentFile(s *staged, base string, stats map[string]int) {
	in := &instr{s: s, base: base, skip: map[ast.Node]bool{}, stats: stats}
	// Imports.
	for _, im := range s.file.Imports {
		p, _ := strconv.Unquote(im.Path.Value)
		if sw, ok := importSwap[p]; ok {
			if im.Name != nil && im.Name.Name != sw[0] {
				fatalf("%s: import %q is renamed to %s; not supported", s.path, p, im.Name.Name)
			}
			im.Name = ast.NewIdent(sw[0])
			im.Path.Value = strconv.Quote(sw[1])
			im.Path.ValuePos = token.NoPos
		}
	}
	for _, d := range s.file.Decls {
		fd, ok := d.(*ast.FuncDecl)
		if !ok || fd.Body == nil {
			continue
		}
		in.fn = fd.Name.Name
		astutil.Apply(fd.Body, in.pre, nil)
	}
	astutil.AddImport(s.fset, s.file, rtBase+"vsched")
	// A file without any rewritten operation must still use the import.
	s.file.Decls = append(s.file.Decls, &ast.GenDecl{Tok: token.VAR, Specs: []ast.Spec{
		&ast.ValueSpec{Names: []*ast.Ident{ast.NewIdent("_")}, Values: []ast.Expr{sel("vsched", "Point")}},
	}})
}

func modDir(mod string) string {
	cmd := exec.Command("go", "list", "-m", "-json", mod)
	cmd.Dir = *repo
	cmd.Env = append(os.Environ(), "GOFLAGS=-mod=mod", "GOPROXY=off", "GOSUMDB=off")
	out, err := cmd.Output()
	if err != nil {
		fatalf("go list -m %s: %v", mod, err)
	}
	var m struct{ Dir string }
	if err := json.Unmarshal(out, &m); err != nil || m.Dir == "" {
		fatalf("go list -m %s: no Dir (%v)", mod, err)
	}
	return m.Dir
}

func stageVirtual(srcDir, virt string, files []string, instrument map[string]bool, stats map[string]int) {
	for _, f := range files {
		src := filepath.Join(srcDir, f)
		dstVirtual := filepath.Join(*repo, "verifrt", virt, f)
		if !instrument[f] {
			// Copied verbatim (the module cache is read-only; map directly).
			mapping[dstVirtual] = src
			continue
		}
		s := loadAbs(src)
		s.name = virt + "__" + f
		instrumentFile(s, virt+"/"+f, stats)
		s.path = dstVirtual
		s.write()
	}
}

func instrumentAll(dialer *staged) {
	stats := map[string]int{}
	seenDir := map[string]bool{"internal/system": true}
	collectChans(filepath.Join(*repo, "internal/system"))
	for _, rel := range repoFiles {
		if d := filepath.Dir(rel); !seenDir[d] {
			seenDir[d] = true
			collectChans(filepath.Join(*repo, d))
		}
	}
	instrumentFile(dialer, "dialer.go", stats)
	dialer.write()
	for _, rel := range repoFiles {
		s := load(rel)
		instrumentFile(s, filepath.Base(rel), stats)
		s.write()
	}
	stageVirtual(filepath.Join(modDir("golang.org/x/sync"), "errgroup"), "errgroup",
		[]string{"errgroup.go", "go120.go"}, map[string]bool{"errgroup.go": true}, stats)
	stageVirtual(modDir("github.com/mdlayher/schedgroup"), "schedgroup",
		[]string{"group.go"}, map[string]bool{"group.go": true}, stats)
	b, _ := json.Marshal(stats)
	fmt.Printf("vstage: instrumented %s\n", b)
}
