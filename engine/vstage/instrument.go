package main

func instrumentAll(dialer *staged) {
	fatalf("sched mode not implemented yet")
}
