package main

// Scheduler instrumentation (DESIGN.md §3.1). Applied to a fixed list of
// repository files and to virtual copies of errgroup and schedgroup. Every
// rewrite is statement- or expression-local and keeps evaluation order; the
// label of a scheduling point is "file:line" of the original source.

import (
	"encoding/json"
	"fmt"
	"go/ast"
	"go/token"
	"os"
	"os/exec"
	"path/filepath"
	"strconv"
	"strings"

	"golang.org/x/tools/go/ast/astutil"
)

const rtBase = "github.com/mdlayher/corerad/verifrt/"

var importSwap = map[string][2]string{
	"sync":                              {"sync", rtBase + "vsync"},
	"sync/atomic":                       {"atomic", rtBase + "vatomic"},
	"math/rand":                         {"rand", rtBase + "vrand"},
	"golang.org/x/sync/errgroup":        {"errgroup", rtBase + "errgroup"},
	"github.com/mdlayher/schedgroup":    {"schedgroup", rtBase + "schedgroup"},
	"github.com/mdlayher/sdnotify":      {"sdnotify", rtBase + "sdnotify"},
}

var repoFiles = []string{
	"internal/corerad/advertise.go",
	"internal/corerad/listener.go",
	"internal/corerad/monitor.go",
	"internal/corerad/server.go",
	"internal/netstate/watcher.go",
	// The package-level lock between Prepare and Apply/String: taking it is a
	// scheduling point (and must block durably under the virtual clock).
	"internal/plugin/plugin.go",
}

type instr struct {
	s     *staged
	fn    string
	base  string
	skip  map[ast.Node]bool
	ntemp int
	stats map[string]int
}

func (in *instr) label(n ast.Node) *ast.BasicLit {
	p := in.s.fset.Position(n.Pos())
	return &ast.BasicLit{Kind: token.STRING, Value: strconv.Quote(fmt.Sprintf("%s:%s:%d", in.base, in.fn, p.Line))}
}

func sel(pkg, name string) ast.Expr {
	return &ast.SelectorExpr{X: ast.NewIdent(pkg), Sel: ast.NewIdent(name)}
}

func call(fun ast.Expr, args ...ast.Expr) *ast.CallExpr {
	return &ast.CallExpr{Fun: fun, Args: args}
}

func (in *instr) temp() *ast.Ident {
	in.ntemp++
	return ast.NewIdent(fmt.Sprintf("vs_t%d", in.ntemp))
}

func define(lhs *ast.Ident, rhs ast.Expr) ast.Stmt {
	return &ast.AssignStmt{Lhs: []ast.Expr{lhs}, Tok: token.DEFINE, Rhs: []ast.Expr{rhs}}
}

func unparen(e ast.Expr) ast.Expr {
	for {
		p, ok := e.(*ast.ParenExpr)
		if !ok {
			return e
		}
		e = p.X
	}
}

func isRecv(e ast.Expr) (*ast.UnaryExpr, bool) {
	u, ok := unparen(e).(*ast.UnaryExpr)
	if ok && u.Op == token.ARROW {
		return u, true
	}
	return nil, false
}

func isCtxName(e ast.Expr) bool {
	switch x := e.(type) {
	case *ast.Ident:
		return strings.Contains(strings.ToLower(x.Name), "ctx")
	case *ast.SelectorExpr:
		return strings.Contains(strings.ToLower(x.Sel.Name), "ctx")
	}
	return false
}

func isCancelName(e ast.Expr) bool {
	switch x := e.(type) {
	case *ast.Ident:
		return strings.Contains(strings.ToLower(x.Name), "cancel")
	case *ast.SelectorExpr:
		return strings.Contains(strings.ToLower(x.Sel.Name), "cancel")
	}
	return false
}

func (in *instr) rewriteSelect(c *astutil.Cursor, n *ast.SelectStmt) {
	if _, ok := c.Parent().(*ast.LabeledStmt); ok {
		fatalf("%s: labeled select statements are not supported by the instrumenter", in.s.fset.Position(n.Pos()))
	}
	var pre []ast.Stmt
	var cases []ast.Expr
	hasDefault := "false"
	sv := in.temp()
	idx := 0
	for _, st := range n.Body.List {
		cc := st.(*ast.CommClause)
		if cc.Comm == nil {
			hasDefault = "true"
			continue
		}
		i := &ast.BasicLit{Kind: token.INT, Value: strconv.Itoa(idx)}
		switch comm := cc.Comm.(type) {
		case *ast.SendStmt:
			tc, tv := in.temp(), in.temp()
			pre = append(pre, define(tc, comm.Chan), define(tv, comm.Value))
			cases = append(cases, call(sel("vsched", "SendCase"), tc, tv))
			comm.Chan = call(sel("vsched", "MS"), sv, i, tc)
			comm.Value = tv
			in.skip[comm] = true
		case *ast.ExprStmt:
			u, ok := isRecv(comm.X)
			if !ok {
				fatalf("%s: unsupported select case", in.s.fset.Position(comm.Pos()))
			}
			tc := in.temp()
			pre = append(pre, define(tc, u.X))
			cases = append(cases, call(sel("vsched", "RecvCase"), tc))
			u.X = call(sel("vsched", "MR"), sv, i, tc)
			in.skip[u] = true
		case *ast.AssignStmt:
			if len(comm.Rhs) != 1 {
				fatalf("%s: unsupported select case", in.s.fset.Position(comm.Pos()))
			}
			u, ok := isRecv(comm.Rhs[0])
			if !ok {
				fatalf("%s: unsupported select case", in.s.fset.Position(comm.Pos()))
			}
			tc := in.temp()
			pre = append(pre, define(tc, u.X))
			cases = append(cases, call(sel("vsched", "RecvCase"), tc))
			u.X = call(sel("vsched", "MR"), sv, i, tc)
			in.skip[u] = true
			in.skip[comm] = true
		default:
			fatalf("%s: unsupported select case %T", in.s.fset.Position(cc.Pos()), comm)
		}
		cc.Body = append([]ast.Stmt{&ast.ExprStmt{X: call(sel("vsched", "Woke"), sv, in.label(n))}}, cc.Body...)
		idx++
	}
	args := append([]ast.Expr{in.label(n), ast.NewIdent(hasDefault)}, cases...)
	pre = append(pre, define(sv, call(sel("vsched", "Select"), args...)))
	in.skip[n] = true
	blk := &ast.BlockStmt{List: append(pre, n)}
	c.Replace(blk)
	in.stats["select"]++
}

func (in *instr) pre(c *astutil.Cursor) bool {
	n := c.Node()
	if n == nil || in.skip[n] {
		return true
	}
	switch x := n.(type) {
	case *ast.RangeStmt:
		// range over a channel would be an uninstrumented receive.
		// (Cannot type-check here; the target files have none: report any range whose
		// expression is obviously a channel name.)
		if id, ok := x.X.(*ast.Ident); ok && (strings.HasSuffix(id.Name, "C") || strings.HasSuffix(id.Name, "Ch")) {
			fatalf("%s: range over what looks like a channel (%s) is not instrumented", in.s.fset.Position(x.Pos()), id.Name)
		}
	case *ast.SelectStmt:
		in.rewriteSelect(c, x)
		return true
	case *ast.DeferStmt:
		// Calls evaluated at defer time must not become scheduling points then.
		in.skip[x.Call] = true
		if id, ok := x.Call.Fun.(*ast.Ident); ok && id.Name == "close" && len(x.Call.Args) == 1 {
			x.Call.Fun = sel("vsched", "Close")
			x.Call.Args = []ast.Expr{in.label(x), x.Call.Args[0]}
			in.stats["close"]++
		}
	case *ast.GoStmt:
		var pre []ast.Stmt
		for i, a := range x.Call.Args {
			switch a.(type) {
			case *ast.Ident, *ast.BasicLit:
			default:
				t := in.temp()
				pre = append(pre, define(t, a))
				x.Call.Args[i] = t
			}
		}
		body := &ast.FuncLit{Type: &ast.FuncType{Params: &ast.FieldList{}}, Body: &ast.BlockStmt{List: []ast.Stmt{&ast.ExprStmt{X: x.Call}}}}
		g := &ast.ExprStmt{X: call(sel("vsched", "Go"), in.label(x), body)}
		if len(pre) > 0 {
			c.Replace(&ast.BlockStmt{List: append(pre, g)})
		} else {
			c.Replace(g)
		}
		in.stats["go"]++
		return true
	case *ast.SendStmt:
		c.Replace(&ast.ExprStmt{X: call(sel("vsched", "Send"), in.label(x), x.Chan, x.Value)})
		in.stats["send"]++
		return true
	case *ast.AssignStmt:
		if len(x.Lhs) == 2 && len(x.Rhs) == 1 {
			if u, ok := isRecv(x.Rhs[0]); ok && !in.skip[u] {
				x.Rhs[0] = call(sel("vsched", "Recv2"), in.label(u), u.X)
				in.stats["recv"]++
				return true
			}
		}
	case *ast.UnaryExpr:
		if x.Op == token.ARROW {
			c.Replace(call(sel("vsched", "Recv"), in.label(x), x.X))
			in.stats["recv"]++
			return true
		}
	case *ast.CallExpr:
		switch f := x.Fun.(type) {
		case *ast.Ident:
			if f.Name == "close" && len(x.Args) == 1 {
				lb := in.label(x)
				x.Fun = sel("vsched", "Close")
				x.Args = []ast.Expr{lb, x.Args[0]}
				in.stats["close"]++
				return true
			}
			if isCancelName(f) && len(x.Args) == 0 {
				x.Fun = call(sel("vsched", "Pre"), in.label(x), f)
				in.stats["cancel"]++
				return true
			}
		case *ast.SelectorExpr:
			// time.AfterFunc(d, f): the callback must run in a goroutine the explorer knows.
			if id, ok := f.X.(*ast.Ident); ok && id.Name == "time" && f.Sel.Name == "AfterFunc" && len(x.Args) == 2 {
				lb := in.label(x)
				x.Fun = sel("vsched", "AfterFunc")
				x.Args = []ast.Expr{lb, x.Args[0], x.Args[1]}
				in.stats["afterfunc"]++
				return true
			}
			if len(x.Args) == 0 && f.Sel.Name == "Err" && isCtxName(f.X) {
				x.Fun = call(sel("vsched", "Pre"), in.label(x), f)
				in.stats["ctxerr"]++
				return true
			}
			if len(x.Args) == 0 && isCancelName(f) {
				x.Fun = call(sel("vsched", "Pre"), in.label(x), f)
				in.stats["cancel"]++
				return true
			}
		}
	}
	return true
}

func instrumentFile(s *staged, base string, stats map[string]int) {
	in := &instr{s: s, base: base, skip: map[ast.Node]bool{}, stats: stats}
	// Imports.
	for _, im := range s.file.Imports {
		p, _ := strconv.Unquote(im.Path.Value)
		if sw, ok := importSwap[p]; ok {
			if im.Name != nil && im.Name.Name != sw[0] {
				fatalf("%s: import %q is renamed to %s; not supported", s.path, p, im.Name.Name)
			}
			im.Name = ast.NewIdent(sw[0])
			im.Path.Value = strconv.Quote(sw[1])
			im.Path.ValuePos = token.NoPos
		}
	}
	for _, d := range s.file.Decls {
		fd, ok := d.(*ast.FuncDecl)
		if !ok || fd.Body == nil {
			continue
		}
		in.fn = fd.Name.Name
		astutil.Apply(fd.Body, in.pre, nil)
	}
	astutil.AddImport(s.fset, s.file, rtBase+"vsched")
	// A file without any rewritten operation must still use the import.
	s.file.Decls = append(s.file.Decls, &ast.GenDecl{Tok: token.VAR, Specs: []ast.Spec{
		&ast.ValueSpec{Names: []*ast.Ident{ast.NewIdent("_")}, Values: []ast.Expr{sel("vsched", "Point")}},
	}})
}

func modDir(mod string) string {
	cmd := exec.Command("go", "list", "-m", "-json", mod)
	cmd.Dir = *repo
	cmd.Env = append(os.Environ(), "GOFLAGS=-mod=mod", "GOPROXY=off", "GOSUMDB=off")
	out, err := cmd.Output()
	if err != nil {
		fatalf("go list -m %s: %v", mod, err)
	}
	var m struct{ Dir string }
	if err := json.Unmarshal(out, &m); err != nil || m.Dir == "" {
		fatalf("go list -m %s: no Dir (%v)", mod, err)
	}
	return m.Dir
}

func stageVirtual(srcDir, virt string, files []string, instrument map[string]bool, stats map[string]int) {
	for _, f := range files {
		src := filepath.Join(srcDir, f)
		dstVirtual := filepath.Join(*repo, "verifrt", virt, f)
		if !instrument[f] {
			// Copied verbatim (the module cache is read-only; map directly).
			mapping[dstVirtual] = src
			continue
		}
		s := loadAbs(src)
		s.name = virt + "__" + f
		instrumentFile(s, virt+"/"+f, stats)
		s.path = dstVirtual
		s.write()
	}
}

func instrumentAll(dialer *staged) {
	stats := map[string]int{}
	instrumentFile(dialer, "dialer.go", stats)
	dialer.write()
	for _, rel := range repoFiles {
		s := load(rel)
		instrumentFile(s, filepath.Base(rel), stats)
		s.write()
	}
	stageVirtual(filepath.Join(modDir("golang.org/x/sync"), "errgroup"), "errgroup",
		[]string{"errgroup.go", "go120.go"}, map[string]bool{"errgroup.go": true}, stats)
	stageVirtual(modDir("github.com/mdlayher/schedgroup"), "schedgroup",
		[]string{"group.go"}, map[string]bool{"group.go": true}, stats)
	b, _ := json.Marshal(stats)
	fmt.Printf("vstage: instrumented %s\n", b)
}
